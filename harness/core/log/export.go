//go:build verif

package log

import "go.uber.org/zap"

// VerifSwapLogger replaces the process logger (harness accessor, overlay only) and returns the restore function.
func VerifSwapLogger(l *zap.Logger) func() {
	old := _l.Load()
	_l.Store(l)
	return func() { _l.Store(old) }
}
