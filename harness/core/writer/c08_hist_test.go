package writer

// C08 (b): histories. A legal source history (create / drop / re-create of database db1, collection a,
// partition p, garbage collection of dropped records, and "use" operations at increasing hybrid times)
// is split into the two streams the writer is fed from - op messages of the rpc channel (database
// create/drop and the use operations) and API events (collection / partition create and drop) - and
// EVERY merge of the two streams (arbitrary skew between them) is delivered to the real ChannelWriter,
// with one (thorough: two) restart placed at every point: a new writer is built from the start-up snapshot
// the real EtcdOp.GetAllDroppedObj computes from the source catalog (written to fakeetcd), and the
// streams are rewound by every amount (replayed prefixes). The downstream is a small stateful model that
// tags every object with the incarnation (source create time) that created it.
//
// Oracle per delivered operation (t = its source time, governing levels as in the decision table):
//  reference cascade from the statement: first governing level, in database -> collection -> partition
//  order, whose name is KNOWN dropped at or after t (start-up snapshot, or a drop this writer replayed)
//  => skipped successfully; else the object must exist downstream, otherwise the operation fails and
//  stays at the head of its stream; all levels pass => applied (exactly one main call).
//  safety: a main call never lands on a governing object whose downstream incarnation was created after t.

import (
	"context"
	"fmt"
	"os"
	"sort"
	"strings"
	"testing"
	"time"

	"github.com/cockroachdb/errors"
	"github.com/milvus-io/milvus/pkg/util/retry"

	"github.com/zilliztech/milvus-cdc/core/api"
	"github.com/zilliztech/milvus-cdc/core/model"
	"github.com/zilliztech/milvus-cdc/core/reader"
	"github.com/zilliztech/milvus-cdc/core/util"
	"github.com/zilliztech/milvus-cdc/core/verifkit/ev"
	"github.com/zilliztech/milvus-cdc/core/verifkit/fakeetcd"
	"github.com/zilliztech/milvus-cdc/core/verifkit/srccat"
)

const (
	h8DB   = "db1"
	h8Coll = "a"
	h8Part = "p"
)

// one source operation of a history
type h8Op struct {
	Kind   string `json:"k"` // createDB dropDB createColl dropColl gcColl createPart dropPart gcPart | use:<writer op kind>
	TS     uint64 `json:"ts"`
	Stream byte   `json:"-"` // 'M' op message, 'E' api event, 0 = catalog only
	Levels int    `json:"-"` // governing levels
}

// delivery step
type h8Step struct {
	A    string `json:"a"`              // "M" | "E" | "R"
	Snap int    `json:"snap,omitempty"` // R: the snapshot is taken from the catalog after this many source operations
	RewM int    `json:"rew_m,omitempty"`
	RewE int    `json:"rew_e,omitempty"`
}

type h8Replay struct {
	History []string `json:"history"`
	Steps   []h8Step `json:"steps"`
	Mapped  bool     `json:"mapped,omitempty"`
}

// h8Mapped: the task maps the whole source database to another downstream database. The decision of C08 is made on
// the writer's tables, which are keyed by SOURCE names: it must come out the same with and without a mapping (the
// downstream model does not look at names).
var h8Mapped bool

func h8Writer(fd *fakeDown, snap map[string]map[string]uint64) *ChannelWriter {
	w, _ := newVerifWriter(fd, "", snap)
	if h8Mapped {
		w.UpdateNameMappings(map[string]string{h8DB + ".*": "dbm.*"})
	}
	return w
}

func h8Levels(kind string) (byte, int) {
	switch kind {
	case "createDB", "dropDB":
		return 'M', 0
	case "createColl", "dropColl":
		return 'E', 1
	case "createPart", "dropPart":
		return 'E', 2
	case "gcColl", "gcPart":
		return 0, 0
	}
	k := strings.TrimPrefix(kind, "use:")
	return 'M', c08Levels("op", k)
}

// h8Build applies the history to the catalog model; returns nil if it is not a legal source history.
// cats[i] = catalog after i operations.
func h8Build(hist []string) ([]h8Op, []*srccat.Catalog) {
	var ops []h8Op
	apply := func(upto int) (*srccat.Catalog, []h8Op, bool) {
		c := srccat.New()
		var out []h8Op
		for _, k := range hist[:upto] {
			dbID := int64(2)
			for _, d := range c.DBs {
				if d.Name == h8DB && d.State == "live" {
					dbID = d.ID
				}
			}
			ok := true
			switch k {
			case "createDB":
				ok = c.Apply(srccat.Op{Kind: "createDB", DB: dbID, Name: h8DB})
			case "dropDB":
				ok = c.Apply(srccat.Op{Kind: "dropDB", DB: dbID})
			case "createColl", "dropColl", "gcColl", "createPart", "dropPart", "gcPart":
				ok = c.Apply(srccat.Op{Kind: k, DB: dbID, Name: h8Coll})
			default: // use: the governing objects must be alive at the source
				c.NowMs += 10
				_, lv := h8Levels(k)
				d := c.Db(dbID)
				if d == nil || d.State != "live" {
					ok = false
					break
				}
				x := c.LiveColl(dbID, h8Coll)
				if lv >= 2 && (x == nil || x.State != "created") {
					ok = false
				}
				if lv >= 3 && ok && c.LivePart(x.ID, h8Part) == nil {
					ok = false
				}
			}
			if !ok {
				return nil, nil, false
			}
			s, lv := h8Levels(k)
			out = append(out, h8Op{Kind: k, TS: c.Ts(), Stream: s, Levels: lv})
		}
		return c, out, true
	}
	var cats []*srccat.Catalog
	for i := 0; i <= len(hist); i++ {
		c, o, ok := apply(i)
		if !ok {
			return nil, nil
		}
		cats = append(cats, c)
		ops = o
	}
	return ops, cats
}

// downstream model: incarnation = source time of the create that made the object (0 = absent)
type h8Down struct{ DB, Coll, Part uint64 }

var h8ErrDown = retry.Unrecoverable(errors.New("downstream: object not found / not empty"))

type h8Target struct{ d *h8Down }

func (t *h8Target) GetCollectionInfo(ctx context.Context, c, d string) (*model.CollectionInfo, error) {
	return nil, fmt.Errorf("unused")
}
func (t *h8Target) GetPartitionInfo(ctx context.Context, c, d string) (*model.CollectionInfo, error) {
	return nil, fmt.Errorf("unused")
}
func (t *h8Target) GetDatabaseName(ctx context.Context, coll, db string) (string, error) {
	if !reader.IsDroppedObject(db) {
		return db, nil
	}
	if t.d.DB != 0 && t.d.Coll != 0 && coll == h8Coll {
		return h8DB, nil
	}
	return "", util.NotFoundDatabase
}

var _ api.TargetAPI = (*h8Target)(nil)

type h8World struct {
	ops      []h8Op
	cats     []*srccat.Catalog
	stream   map[byte][]int // stream -> indexes into ops
	pos      map[byte]int
	down     h8Down
	fd       *fakeDown
	w        *ChannelWriter
	known    [3]uint64 // per level: latest drop time of the name known to this writer incarnation
	cur      *h8Op     // operation being delivered
	unsafe   string
	unsafeLevel string
	restarts int
	blocked  map[byte]bool // stream whose head failed and nothing changed since
}

func h8NewWorld(ops []h8Op, cats []*srccat.Catalog) *h8World {
	wd := &h8World{ops: ops, cats: cats, stream: map[byte][]int{}, pos: map[byte]int{}, blocked: map[byte]bool{}}
	for i, o := range ops {
		if o.Stream != 0 {
			wd.stream[o.Stream] = append(wd.stream[o.Stream], i)
		}
	}
	wd.fd = &fakeDown{}
	wd.fd.answer = wd.answer
	wd.w = h8Writer(wd.fd, nil)
	return wd
}

func (wd *h8World) mainKind(o *h8Op) string {
	switch o.Kind {
	case "createDB":
		return "CreateDatabase"
	case "dropDB":
		return "DropDatabase"
	case "createColl":
		return "CreateCollection"
	case "dropColl":
		return "DropCollection"
	case "createPart":
		return "CreatePartition"
	case "dropPart":
		return "DropPartition"
	}
	return opCallKind[strings.TrimPrefix(o.Kind, "use:")]
}

func (wd *h8World) answer(kind string, p interface{}) error {
	d := &wd.down
	o := wd.cur
	if kind == wd.mainKind(o) {
		// safety: the governing objects the call lands on must not be newer than the operation
		incs := []uint64{d.DB, d.Coll, d.Part}
		for lv := 0; lv < o.Levels; lv++ {
			if incs[lv] > o.TS {
				wd.unsafeLevel = []string{"database", "collection", "partition"}[lv]
				wd.unsafe = fmt.Sprintf("%s stamped %d landed on the %s incarnation created at %d", kind, o.TS, []string{"database", "collection", "partition"}[lv], incs[lv])
			}
		}
	}
	switch kind {
	case "DescribeDatabase":
		if d.DB == 0 {
			return h8ErrDown
		}
	case "DescribeCollection":
		if d.DB == 0 || d.Coll == 0 {
			return h8ErrDown
		}
	case "DescribePartition":
		if d.DB == 0 || d.Coll == 0 || d.Part == 0 {
			return h8ErrDown
		}
	case "CreateDatabase":
		if d.DB == 0 {
			d.DB = o.TS
		}
	case "DropDatabase":
		if d.DB != 0 && d.Coll != 0 {
			return h8ErrDown // not empty
		}
		d.DB = 0
	case "CreateCollection":
		if d.DB == 0 {
			return h8ErrDown
		}
		if d.Coll == 0 {
			d.Coll = o.TS
		}
	case "DropCollection":
		if d.DB == 0 {
			return h8ErrDown
		}
		d.Coll, d.Part = 0, 0
	case "CreatePartition":
		if d.DB == 0 || d.Coll == 0 {
			return h8ErrDown
		}
		if d.Part == 0 {
			d.Part = o.TS
		}
	case "DropPartition":
		if d.DB == 0 || d.Coll == 0 {
			return h8ErrDown
		}
		d.Part = 0
	case "LoadPartitions", "ReleasePartitions":
		if d.DB == 0 || d.Coll == 0 || d.Part == 0 {
			return h8ErrDown
		}
	default: // collection-level use
		if d.DB == 0 || d.Coll == 0 {
			return h8ErrDown
		}
	}
	return nil
}

func (wd *h8World) dropKeys() [3]string {
	_, a := util.GetDBInfoKeys(h8DB)
	_, b := util.GetCollectionInfoKeys(h8Coll, h8DB)
	_, c := util.GetPartitionInfoKeys(h8Part, h8Coll, h8DB)
	return [3]string{a, b, c}
}

// restart: new writer from the real start-up snapshot of the catalog after snapAt source operations
func (wd *h8World) restart(snapAt, rewM, rewE int) {
	fe := fakeetcd.New()
	wd.cats[snapAt].Write(fe)
	op := reader.NewVerifEtcdOp(fe.Client(), srccat.Root, srccat.Meta, &h8Target{d: &wd.down}, util.NoRetryOption())
	snap := op.GetAllDroppedObj()
	op.VerifClose()
	wd.w = h8Writer(wd.fd, snap)
	keys := wd.dropKeys()
	wd.known = [3]uint64{}
	for lv, kind := range []string{util.DroppedDatabaseKey, util.DroppedCollectionKey, util.DroppedPartitionKey} {
		if v, ok := snap[kind][keys[lv]]; ok {
			wd.known[lv] = v
		}
	}
	wd.pos['M'] -= rewM
	wd.pos['E'] -= rewE
	wd.restarts++
	wd.blocked = map[byte]bool{}
}

// deliver the head of a stream; returns a violation message or "" and the observed outcome
func (wd *h8World) deliver(s byte) (string, string) {
	idx := wd.stream[s][wd.pos[s]]
	o := &wd.ops[idx]
	wd.cur = o
	wd.unsafe = ""
	wd.fd.reset()
	// reference cascade
	present := []bool{wd.down.DB != 0, wd.down.Coll != 0, wd.down.Part != 0}
	want := "apply"
	for lv := 0; lv < o.Levels; lv++ {
		if wd.known[lv] >= o.TS {
			want = "skip"
			break
		}
		if !present[lv] {
			want = "fail"
			break
		}
	}
	v := opVals{DB: h8DB, Coll: h8Coll, Part: h8Part, Parts: []string{h8Part}, Colls: []string{h8Coll}, TS: o.TS, Field: "f", Index: "i"}
	ctx := context.Background()
	var err error
	switch o.Kind {
	case "createColl":
		err = wd.w.HandleReplicateAPIEvent(ctx, buildEvent(api.ReplicateCreateCollection, v))
	case "dropColl":
		err = wd.w.HandleReplicateAPIEvent(ctx, buildEvent(api.ReplicateDropCollection, v))
	case "createPart":
		err = wd.w.HandleReplicateAPIEvent(ctx, buildEvent(api.ReplicateCreatePartition, v))
	case "dropPart":
		err = wd.w.HandleReplicateAPIEvent(ctx, buildEvent(api.ReplicateDropPartition, v))
	case "createDB":
		_, err = wd.w.HandleOpMessagePack(ctx, opPack(o.TS, buildOp("CreateDatabase", v)))
	case "dropDB":
		_, err = wd.w.HandleOpMessagePack(ctx, opPack(o.TS, buildOp("DropDatabase", v)))
	default:
		_, err = wd.w.HandleOpMessagePack(ctx, opPack(o.TS, buildOp(strings.TrimPrefix(o.Kind, "use:"), v)))
	}
	mk := wd.mainKind(o)
	nMain := 0
	for _, c := range wd.fd.calls {
		if c.Kind == mk {
			nMain++
		}
	}
	got := "apply"
	switch {
	case nMain > 1:
		return fmt.Sprintf("count: %s issued %d times for one operation", mk, nMain), ""
	case nMain == 0 && err != nil:
		got = "fail"
	case nMain == 0:
		got = "skip"
	case err != nil:
		got = "apply-failed" // the downstream rejected the main call: the operation stays at the head of its stream
	}
	ok := got == want || (got == "apply-failed" && (want == "fail" || o.Levels == 0))
	if !ok {
		return fmt.Sprintf("decision: %s@%d with known drop times(db,coll,part)=%v downstream(db,coll,part)=%+v: observed %s (err=%v, calls=%v), statement gives %s",
			o.Kind, o.TS, wd.known, wd.down, got, err, wd.fd.kinds(), want), ""
	}
	if wd.unsafe != "" {
		// reached only when no recorded time said so (otherwise the reference demanded a skip above)
		return "newer-incarnation/no-record/" + wd.unsafeLevel + ": " + wd.unsafe, ""
	}
	if err == nil {
		// consumed; a replayed drop is knowledge of this writer incarnation
		wd.pos[s]++
		if got == "apply" {
			switch o.Kind {
			case "dropDB":
				wd.known[0] = maxU(wd.known[0], o.TS)
			case "dropColl":
				wd.known[1] = maxU(wd.known[1], o.TS)
			case "dropPart":
				wd.known[2] = maxU(wd.known[2], o.TS)
			}
		}
		wd.blocked = map[byte]bool{}
	} else {
		wd.blocked[s] = true // retrying in the same state gives the same answer
	}
	return "", o.Kind + ":" + got
}

func maxU(a, b uint64) uint64 {
	if a > b {
		return a
	}
	return b
}

func (wd *h8World) tables() string {
	var parts []string
	for _, m := range []*util.Map[string, uint64]{&wd.w.dbInfos, &wd.w.collectionInfos, &wd.w.partitionInfos} {
		m.Range(func(k string, v uint64) bool {
			parts = append(parts, fmt.Sprintf("%s=%d", k, v))
			return true
		})
	}
	sort.Strings(parts)
	return strings.Join(parts, ",")
}

func (wd *h8World) key() string {
	return fmt.Sprintf("%d/%d/%d/%v/%+v/%v/%s", wd.pos['M'], wd.pos['E'], wd.restarts, wd.blocked, wd.down, wd.known, wd.tables())
}

// h8Run replays a step list on a fresh world; returns the world, a violation (or ""), and the last outcome
func h8Run(ops []h8Op, cats []*srccat.Catalog, steps []h8Step) (*h8World, string, string) {
	wd := h8NewWorld(ops, cats)
	last := ""
	for _, st := range steps {
		switch st.A {
		case "R":
			wd.restart(st.Snap, st.RewM, st.RewE)
			last = "restart"
		default:
			s := st.A[0]
			if wd.pos[s] >= len(wd.stream[s]) {
				return wd, "harness: stream exhausted", ""
			}
			msg, out := wd.deliver(s)
			if msg != "" {
				return wd, msg, ""
			}
			last = out
		}
	}
	return wd, "", last
}

func (wd *h8World) maxDelivered() int {
	m := 0
	for _, s := range []byte{'M', 'E'} {
		if wd.pos[s] > 0 {
			if i := wd.stream[s][wd.pos[s]-1] + 1; i > m {
				m = i
			}
		}
	}
	return m
}

func TestVerifC08Histories(t *testing.T) {
	res := ev.New("C08", "histories")
	defer res.Write()
	if p := os.Getenv("VERIF_REPLAY"); p != "" {
		var f struct {
			Replay h8Replay `json:"replay"`
		}
		b, _ := os.ReadFile(p)
		if err := jsonUnmarshal(b, &f); err != nil {
			t.Fatal(err)
		}
		ops, cats := h8Build(f.Replay.History)
		if ops == nil {
			t.Fatal("illegal history")
		}
		h8Mapped = f.Replay.Mapped
		if _, msg, _ := h8Run(ops, cats, f.Replay.Steps); msg != "" {
			fmt.Println("REPLAY-VIOLATION", msg)
			res.Violate("replay", msg, f.Replay)
			return
		}
		fmt.Println("REPLAY-OK")
		return
	}
	depth, maxRestarts := 6, 1
	uses := []string{"use:Flush", "use:LoadPartitions"}
	if ev.Thorough() {
		depth, maxRestarts = 7, 2
		uses = []string{"use:Flush", "use:LoadPartitions", "use:CreateIndex", "use:ReleasePartitions", "use:LoadCollection"}
	}
	res.Bounds["history_depth"] = depth
	res.Bounds["restarts"] = maxRestarts
	res.Bounds["use_kinds"] = uses
	res.Rule = "every legal source history up to the depth bound over {create/drop database db1, create/drop/gc collection a, create/drop/gc partition p, use operations} is split into the op-message stream and the API-event stream; every merge of the two streams (explicit-state DFS, states deduplicated on stream positions + writer tables + downstream model + known drops) is delivered to the real ChannelWriter (once without and once with a whole-database name mapping configured), with restarts (new writer from the real GetAllDroppedObj snapshot of the catalog, taken at the delivered point or at the end of the history; op-message stream rewound by every amount, event stream by 0..1) at every point; each delivered operation is compared with the reference cascade (known drop at or after t => skipped; else object present downstream => next level, absent => failed and retried later; else applied exactly once) and no call may land on a governing object whose downstream incarnation is newer than the operation; non-trivial = deliveries whose outcome is skip or fail"
	alphabet := append([]string{"createDB", "dropDB", "createColl", "dropColl", "gcColl", "createPart", "dropPart", "gcPart"}, uses...)
	deadline := time.Now().Add(ev.Budget(150 * time.Second))
	nHist := 0
	var hist []string
	var genHist func()
	explore := func(hist []string, ops []h8Op, cats []*srccat.Catalog) bool {
		seen := map[string]bool{}
		var dfs func(steps []h8Step) bool
		dfs = func(steps []h8Step) bool {
			if time.Now().After(deadline) {
				return false
			}
			wd, msg, out := h8Run(ops, cats, steps)
			res.Evaluations++
			res.Traces++
			if msg != "" {
				tag := strings.SplitN(msg, ":", 2)[0]
				kind := ""
				if wd.cur != nil {
					kind = wd.cur.Kind
				}
				rs := "live"
				if wd.restarts > 0 {
					rs = "restarted"
				}
				if strings.HasPrefix(tag, "newer-incarnation") {
					kind = "any" // the finding is the missing record, whatever operation meets it
				}
				mp := ""
				if h8Mapped {
					mp = " (whole-database name mapping)"
				}
				res.Violate(fmt.Sprintf("C08/hist/%s/%s/%s", tag, kind, rs), fmt.Sprintf("history %v steps %+v%s: %s", hist, steps, mp, msg), h8Replay{History: hist, Steps: steps, Mapped: h8Mapped})
				return true
			}
			res.Transitions++
			if out != "" && !strings.HasSuffix(out, ":apply") && out != "restart" {
				res.Nontrivial++
			}
			if out != "" {
				res.Outcome(out)
			}
			k := wd.key()
			if seen[k] {
				return true
			}
			seen[k] = true
			res.States++
			if res.States%50021 == 0 {
				res.Sample(map[string]interface{}{"history": strings.Join(hist, " "), "steps": fmt.Sprint(steps), "outcome": out, "state": k})
			}
			for _, s := range []byte{'M', 'E'} {
				if wd.pos[s] < len(wd.stream[s]) && !wd.blocked[s] {
					if !dfs(append(append([]h8Step{}, steps...), h8Step{A: string(s)})) {
						return false
					}
				}
			}
			if wd.restarts < maxRestarts {
				snaps := []int{len(ops)}
				if md := wd.maxDelivered(); md < len(ops) {
					snaps = append(snaps, md)
				}
				for _, sn := range snaps {
					for rm := 0; rm <= wd.pos['M']; rm++ {
						for re := 0; re <= wd.pos['E'] && re <= 1; re++ {
							if !dfs(append(append([]h8Step{}, steps...), h8Step{A: "R", Snap: sn, RewM: rm, RewE: re})) {
								return false
							}
						}
					}
				}
			}
			return true
		}
		return dfs(nil)
	}
	genHist = func() {
		if !res.Exhaustive {
			return
		}
		if len(hist) > 0 {
			ops, cats := h8Build(hist)
			if ops == nil {
				return
			}
			// a history must end with an operation that is delivered (catalog-only tails add nothing new)
			if ops[len(ops)-1].Stream != 0 {
				nHist++
				if ev.Mine(nHist) {
					for _, mapped := range []bool{false, true} {
						h8Mapped = mapped
						if !explore(append([]string{}, hist...), ops, cats) {
							res.Exhaustive = false
							res.Bounds["stopped_at_history"] = nHist
							return
						}
					}
				}
			}
		}
		if len(hist) == depth {
			return
		}
		for _, a := range alphabet {
			hist = append(hist, a)
			genHist()
			hist = hist[:len(hist)-1]
		}
	}
	genHist()
	res.Bounds["histories"] = nHist
}
