// Package sched is a controlled-schedule explorer for real goroutines running inside a
// testing/synctest bubble: stateless DFS over choice sequences with deviation bounding.
//
// Goroutines of the code under test reach *points* (verif hooks in /repo, calls into fakes, harness
// driver steps). At a point the goroutine registers (key,label) and blocks on a bubble channel.
// The controller loop calls synctest.Wait() (returns when every other goroutine is durably
// blocked), builds the enabled list in canonical order (the goroutine released last first, then
// (key,label) order; each entry expanded by its data alternatives), picks one according to the
// current choice prefix (default: index 0) and releases it. Exactly one goroutine runs repository
// code between two decisions. When nothing is enabled virtual time is advanced.
package sched

import (
	"encoding/json"
	"fmt"
	"os"
	"runtime"
	"runtime/debug"
	"sort"
	"strings"
	"sync"
	"sync/atomic"
	"testing"
	"testing/synctest"
	"time"
)

// ---------------------------------------------------------------------------------------------
// one execution

type parked struct {
	gid   int64
	key   string
	label string
	free  bool // switching away from a goroutine parked here is not a preemption (idle / arrival point)
	alts  int  // number of data alternatives (>=1); alternative k>0 costs altCost
	cost  int  // cost of a non-default alternative
	ch    chan int
	seq   int
}

type entry struct {
	p   *parked
	alt int
	act *Action
}

// Action is a harness-side step executed by the controller itself (e.g. advance the virtual clock).
type Action struct {
	Label string
	Cost  int
	Do    func()
}

type Decision struct {
	Enabled []string // canonical labels
	Costs   []int
	Chosen  int
	At      time.Duration // virtual time since the loop started (diagnostics)
}

type Ctl struct {
	mu       sync.Mutex
	parked   []*parked
	seq      int
	prefix   []int
	Choices  []int
	Trace    []Decision
	cur      int64
	Diverged bool
	divMsg   string
	// expected labels when replaying (from the parent execution), nil otherwise
	expect [][]string
	// Log collects harness observations in order (cheap structured trace for replays)
	Log      []string
	Quantum  time.Duration // virtual time step when nothing is enabled
	Horizon  time.Duration // max idle virtual time
	MaxSteps int
	idle     time.Duration
	stopped  bool
	Steps    int
	HitStepCap bool
	disabled atomic.Bool // after the loop ends points no longer park
	// Actions, when set, lists the harness actions enabled at this decision (appended after the goroutines).
	Actions func() []Action
	// OnIdle, when set, is asked for one more harness step when nothing has been enabled for the whole horizon
	// (quiescence): a non-nil action is executed as a single-choice decision and the idle clock restarts.
	OnIdle func() *Action
	idleSteps int
	t0        time.Time
	wake      chan struct{}
	// IdleResets: the horizon bounds consecutive idle virtual time (reset by every decision) instead of the total
	IdleResets bool
	// Free: points never park (free-running pass under the race detector: the cooperative hand-offs of the controlled
	// mode are happens-before edges that would hide every race)
	Free bool
	// StrictCost: every choice other than the default (first) entry costs one deviation, also when the goroutine
	// that ran last has blocked. For pipelines whose activity moves from goroutine to goroutine, where "the
	// running goroutine" is not a useful notion of the default continuation.
	StrictCost bool
	Arr        []string // arrival log (VERIF_DIVDEBUG)
}

var arrDebug = os.Getenv("VERIF_DIVDEBUG") != ""

// Goid returns the id of the calling goroutine.
func Goid() int64 { return goid() }

func goid() int64 {
	var buf [64]byte
	n := runtime.Stack(buf[:], false)
	// "goroutine 123 ["
	s := string(buf[:n])
	s = strings.TrimPrefix(s, "goroutine ")
	var id int64
	for i := 0; i < len(s) && s[i] >= '0' && s[i] <= '9'; i++ {
		id = id*10 + int64(s[i]-'0')
	}
	return id
}

// Point parks the calling goroutine until the controller releases it. free marks an idle/arrival
// point. Returns immediately when the controller is not running (teardown).
func (c *Ctl) Point(key, label string, free bool) {
	c.Choose(key, label, free, 1, 0)
}

// Choose is a point with n data alternatives; the controller's pick is returned (0 = default).
func (c *Ctl) Choose(key, label string, free bool, n int, altCost int) int {
	if c == nil || c.Free || c.disabled.Load() {
		return 0
	}
	p := &parked{gid: goid(), key: key, label: label, free: free, alts: n, cost: altCost, ch: make(chan int, 1)}
	c.mu.Lock()
	c.seq++
	p.seq = c.seq
	c.parked = append(c.parked, p)
	if arrDebug {
		c.Arr = append(c.Arr, fmt.Sprintf("%d g%d %s@%s t=%v", p.seq, p.gid, key, label, time.Since(c.t0)))
	}
	w := c.wake
	c.mu.Unlock()
	if w != nil {
		select {
		case w <- struct{}{}: // the controller may be idling in virtual time: a parked goroutine must not wait for the quantum to end
		default:
		}
	}
	return <-p.ch
}

func (c *Ctl) Logf(format string, a ...interface{}) {
	c.mu.Lock()
	c.Log = append(c.Log, fmt.Sprintf(format, a...))
	c.mu.Unlock()
}

// DropParked forgets every parked goroutine whose key satisfies pred: it stays blocked for the rest of the
// execution (a crashed incarnation's goroutines never run again) and is no longer offered as a choice.
func (c *Ctl) DropParked(pred func(key string) bool) int {
	c.mu.Lock()
	defer c.mu.Unlock()
	var keep []*parked
	n := 0
	for _, p := range c.parked {
		if pred(p.key) {
			n++
			continue
		}
		keep = append(keep, p)
	}
	c.parked = keep
	return n
}

// Stop ends the scheduling loop after the current decision.
func (c *Ctl) Stop() { c.mu.Lock(); c.stopped = true; c.mu.Unlock() }

func (c *Ctl) enabled() ([]entry, []string, []int) {
	c.mu.Lock()
	ps := append([]*parked{}, c.parked...)
	c.mu.Unlock()
	sort.SliceStable(ps, func(i, j int) bool {
		ci, cj := ps[i].gid == c.cur, ps[j].gid == c.cur
		if ci != cj {
			return ci
		}
		if ps[i].key != ps[j].key {
			return ps[i].key < ps[j].key
		}
		if ps[i].label != ps[j].label {
			return ps[i].label < ps[j].label
		}
		return ps[i].seq < ps[j].seq
	})
	var es []entry
	var labels []string
	var costs []int
	curParked := len(ps) > 0 && ps[0].gid == c.cur
	for i, p := range ps {
		for a := 0; a < p.alts; a++ {
			cost := 0
			if i > 0 && ((curParked && !ps[0].free) || c.StrictCost) {
				cost++ // switching away from a runnable goroutine that did not yield: preemption
			}
			if a > 0 {
				cost += p.cost
			}
			es = append(es, entry{p: p, alt: a})
			l := p.key + "@" + p.label
			if p.alts > 1 {
				l += fmt.Sprintf("#%d", a)
			}
			labels = append(labels, l)
			costs = append(costs, cost)
		}
	}
	if c.Actions != nil {
		for _, a := range c.Actions() {
			a := a
			cost := a.Cost
			if len(es) == 0 && cost > 0 {
				// an action that is a deviation (a pause, an environment event placed early) is never the default: with no
				// goroutine parked the controller idles / lets virtual time pass instead
				continue
			}
			if c.StrictCost {
				// strict model: every non-default choice costs exactly one deviation (an action's own cost is not added on top)
				if len(es) > 0 && cost == 0 {
					cost = 1
				}
			} else if curParked && !ps[0].free {
				cost++
			}
			es = append(es, entry{act: &a})
			labels = append(labels, "action@"+a.Label)
			costs = append(costs, cost)
		}
	}
	return es, labels, costs
}

// Loop runs the scheduling loop until done() reports true, Stop is called, nothing can happen any
// more within the horizon, or MaxSteps decisions were taken.
func (c *Ctl) Loop(done func() bool) {
	defer c.disabled.Store(true)
	defer c.releaseAll()
	c.mu.Lock()
	c.wake = make(chan struct{}, 1) // created inside the bubble
	c.mu.Unlock()
	c.t0 = time.Now()
	for c.Steps = 0; c.Steps < c.MaxSteps; {
		beat()
		synctest.Wait()
		c.mu.Lock()
		stopped := c.stopped
		c.mu.Unlock()
		if stopped || (done != nil && done()) {
			return
		}
		es, labels, costs := c.enabled()
		if len(es) == 0 {
			if c.idle >= c.Horizon {
				if c.OnIdle != nil {
					if a := c.OnIdle(); a != nil {
						c.Choices = append(c.Choices, 0)
						c.Trace = append(c.Trace, Decision{Enabled: []string{"idle@" + a.Label}, Costs: []int{0}, Chosen: 0})
						if k := len(c.Choices) - 1; k < len(c.prefix) && c.prefix[k] != 0 {
							c.Diverged = true
							c.divMsg = fmt.Sprintf("decision %d: idle step %s where the parent chose %d", k, a.Label, c.prefix[k])
							c.prefix = c.prefix[:k]
						}
						c.Steps++
						c.idle, c.idleSteps = 0, 0
						a.Do()
						continue
					}
				}
				return
			}
			q := c.Quantum << uint(c.idleSteps)
			if c.idleSteps < 8 {
				c.idleSteps++
			}
			t0 := time.Now()
			tm := time.NewTimer(q)
			select {
			case <-tm.C:
			case <-c.wake:
				tm.Stop()
			}
			c.idle += time.Since(t0)
			continue
		}
		c.idleSteps = 0
		if c.IdleResets {
			c.idle = 0
		}
		i := 0
		k := len(c.Choices)
		if k < len(c.prefix) {
			i = c.prefix[k]
			if i >= len(es) || (k < len(c.expect) && !sameLabels(c.expect[k], labels)) {
				// the system under test took a different turn than in the parent execution (uncontrolled
				// nondeterminism: map iteration, runtime scheduling of pool workers). The execution is still a
				// real one: finish it with default choices so that the oracle can judge it.
				c.Diverged = true
				c.divMsg = fmt.Sprintf("decision %d: want choice %d of %v, enabled now %v", k, i, expectAt(c.expect, k), labels)
				c.prefix = c.prefix[:k]
				i = 0
			}
		}
		c.Choices = append(c.Choices, i)
		c.Trace = append(c.Trace, Decision{Enabled: labels, Costs: costs, Chosen: i, At: time.Since(c.t0)})
		e := es[i]
		if e.act != nil {
			c.Steps++
			e.act.Do()
			continue
		}
		c.mu.Lock()
		for j, p := range c.parked {
			if p == e.p {
				c.parked = append(c.parked[:j], c.parked[j+1:]...)
				break
			}
		}
		c.mu.Unlock()
		c.cur = e.p.gid
		c.Steps++
		e.p.ch <- e.alt
		// one nanosecond of virtual time per decision: timers armed in different decisions never expire at the same
		// instant, so sleepers wake in the order they went to sleep. (Timers with equal deadlines fire in the order of
		// the runtime's timer heap, which is shared with every earlier execution's leftovers: nondeterminism the
		// explorer does not own.) The sleep returns when every goroutine of the bubble is durably blocked.
		time.Sleep(time.Nanosecond)
	}
	c.HitStepCap = true
}

func expectAt(e [][]string, k int) []string {
	if k < len(e) {
		return e[k]
	}
	return nil
}

func sameLabels(a, b []string) bool {
	if len(a) != len(b) {
		return false
	}
	for i := range a {
		if a[i] != b[i] {
			return false
		}
	}
	return true
}

// releaseAll lets every parked goroutine continue (default alternative) so that teardown can proceed.
func (c *Ctl) releaseAll() {
	c.disabled.Store(true)
	for round := 0; round < 1000; round++ {
		c.mu.Lock()
		ps := c.parked
		c.parked = nil
		c.mu.Unlock()
		if len(ps) == 0 {
			return
		}
		for _, p := range ps {
			p.ch <- 0
		}
		synctest.Wait()
	}
}

// ---------------------------------------------------------------------------------------------
// exploration

type Scenario struct {
	Name string
	// Group, when set, is the key under which executions and outcomes of this scenario are counted (families of
	// generated scenarios: one line per family in the evidence, not one per member)
	Group string
	// Run executes the scenario inside the bubble: build the objects, start goroutines, call ctl.Loop,
	// evaluate the oracle and tear down. It returns the outcome string (for distinct-outcome counting)
	// and violations found in this execution.
	Run func(t *testing.T, ctl *Ctl) Outcome
}

func (sc *Scenario) statKey() string {
	if sc.Group != "" {
		return sc.Group
	}
	return sc.Name
}

type Violation struct{ Sig, Detail string }

type Outcome struct {
	Summary    string
	Nontrivial bool
	Violations []Violation
}

type Stats struct {
	Executions, Divergent, Retries, StepCapped int64
	ByCost                                     map[int]int64
	Outcomes                                   map[string]int64
	PerScenario                                map[string]int64
	DivergeMsgs                                []string
	Nontrivial                                 map[string]bool
	MaxDepth                                   int
	Exhaustive                                 bool
	BoundCompleted                             int
}

type Found struct {
	Scenario string   `json:"scenario"`
	Choices  []int    `json:"choices"`
	Trace    []string `json:"trace"`
	Sig      string   `json:"sig"`
	Detail   string   `json:"detail"`
	Reproduced int    `json:"reproduced"`
}

type Explorer struct {
	T        *testing.T
	Bound    int
	Deadline time.Time
	Quantum  time.Duration
	Horizon  time.Duration
	MaxSteps int
	IdleResets bool
	StrictCost bool
	Free       bool // free-running repetitions instead of the DFS (race detector pass)
	FreeRuns   int
	Shard, NShard int
	Stats    Stats
	Found    []Found
	seenSig  map[string]bool
	branch   int
	OnExec   func(sc *Scenario, choices []int) // e.g. print EXEC line
	// process recycling (see savedState)
	MaxExec      int
	Suspended    bool
	resume       *savedState
	resumeLoaded bool
	done         map[string]bool
}

func NewExplorer(t *testing.T, bound int) *Explorer {
	return &Explorer{T: t, Bound: bound, Quantum: 100 * time.Millisecond, Horizon: 30 * time.Second, MaxSteps: 400, NShard: 1,
		Stats: Stats{PerScenario: map[string]int64{}, ByCost: map[int]int64{}, Outcomes: map[string]int64{}, Nontrivial: map[string]bool{}, Exhaustive: true}, seenSig: map[string]bool{}}
}

type execResult struct {
	ctl *Ctl
	out Outcome
}

// gcBetweenExecutions keeps the garbage collector out of the executions. A collection that starts while a goroutine
// runs between two decisions preempts that goroutine at its next function prologue and requeues it on the GLOBAL run
// queue, behind every goroutine that is runnable on the local one: the order of two goroutines woken by the same
// decision then depends on where the collector happened to start, which is nondeterminism the explorer does not own
// (replayed prefixes diverged a few times per 100k executions, more under machine load). The automatic collector is
// switched off and a full collection is run here, between two executions, whenever the heap has doubled.
var gcState struct {
	off      bool
	n        int
	lastHeap uint64
}

func gcBetweenExecutions() {
	if !gcState.off {
		gcState.off = true
		debug.SetGCPercent(-1)
		gcState.lastHeap = 64 << 20
	}
	gcState.n++
	if gcState.n%8 != 0 {
		return
	}
	var ms runtime.MemStats
	runtime.ReadMemStats(&ms)
	if ms.HeapAlloc > 2*gcState.lastHeap {
		runtime.GC()
		runtime.ReadMemStats(&ms)
		gcState.lastHeap = ms.HeapAlloc
		if gcState.lastHeap < 64<<20 {
			gcState.lastHeap = 64 << 20
		}
	}
}

var currentExec atomic.Value // string

// RunOnce executes one schedule (prefix then defaults) in a fresh bubble.
func (e *Explorer) RunOnce(sc *Scenario, prefix []int, expect [][]string) (res execResult) {
	ctl := &Ctl{prefix: prefix, expect: expect, Quantum: e.Quantum, Horizon: e.Horizon, MaxSteps: e.MaxSteps, IdleResets: e.IdleResets, StrictCost: e.StrictCost, Free: e.Free}
	if !e.Free {
		gcBetweenExecutions()
	}
	ce := fmt.Sprintf("%s %v", sc.Name, prefix)
	currentExec.Store(ce)
	setWatchdogExec(ce)
	if e.OnExec != nil {
		e.OnExec(sc, prefix)
	}
	func() {
		defer func() {
			if r := recover(); r != nil {
				s := fmt.Sprint(r)
				if strings.Contains(s, "blocked goroutines remain") || strings.Contains(s, "deadlock: main bubble goroutine has exited") {
					return // never-ending repository goroutines stay parked; the oracle has already run
				}
				panic(r)
			}
		}()
		synctest.Test(e.T, func(t *testing.T) {
			res.out = sc.Run(t, ctl)
		})
	}()
	res.ctl = ctl
	return res
}

func (e *Explorer) runStable(sc *Scenario, prefix []int, expect [][]string) (execResult, bool) {
	var r execResult
	for attempt := 0; attempt < 12; attempt++ {
		r = e.RunOnce(sc, prefix, expect)
		if !r.ctl.Diverged {
			if attempt > 0 && arrDebug && e.Stats.Retries <= 5 {
				for _, l := range r.ctl.Arr {
					fmt.Printf("  ARR ok   %s\n", l)
				}
			}
			return r, true
		}
		e.Stats.Retries++
		if e.Stats.Retries <= 5 {
			fmt.Printf("RETRY %s %v: %s\n", sc.Name, prefix, r.ctl.divMsg)
			if os.Getenv("VERIF_DIVDEBUG") != "" {
				for i, d := range r.ctl.Trace {
					fmt.Printf("  DIV got  %d @%v: %v -> %d\n", i, d.At, d.Enabled, d.Chosen)
					if i < len(expect) {
						fmt.Printf("  DIV want %d: %v\n", i, expect[i])
					}
				}
				for _, l := range r.ctl.Log {
					fmt.Printf("  DIV log %s\n", l)
				}
				for _, l := range r.ctl.Arr {
					fmt.Printf("  ARR div  %s\n", l)
				}
			}
		}
		// a diverged execution is still a real execution: judge it
		e.judge(sc, r, true)
	}
	e.Stats.Divergent++
	if len(e.Stats.DivergeMsgs) < 5 {
		e.Stats.DivergeMsgs = append(e.Stats.DivergeMsgs, fmt.Sprintf("%s %v: %s", sc.Name, prefix, r.ctl.divMsg))
	}
	return r, false
}

// judge records outcome and violations of one finished execution.
func (e *Explorer) judge(sc *Scenario, r execResult, diverged bool) {
	x := r.ctl
	e.Stats.Executions++
	e.Stats.PerScenario[sc.statKey()]++
	if x.HitStepCap {
		e.Stats.StepCapped++
		e.Stats.Exhaustive = false
	}
	if len(x.Choices) > e.Stats.MaxDepth {
		e.Stats.MaxDepth = len(x.Choices)
	}
	total := 0
	for _, d := range x.Trace {
		total += d.Costs[d.Chosen]
	}
	if !diverged {
		e.Stats.ByCost[total]++
	}
	e.Stats.Outcomes[sc.statKey()+": "+r.out.Summary]++
	if os.Getenv("VERIF_TRACEALL") != "" {
		var tr []string
		for _, d := range x.Trace {
			tr = append(tr, d.Enabled[d.Chosen])
		}
		fmt.Printf("TRACE %s %v cost=%d: %v => %s\n", sc.Name, x.Choices, total, tr, r.out.Summary)
	}
	if r.out.Nontrivial {
		e.Stats.Nontrivial[sc.Name+fmt.Sprint(x.Choices)] = true
	}
	for _, v := range r.out.Violations {
		if e.seenSig[v.Sig] {
			continue
		}
		e.seenSig[v.Sig] = true
		f := Found{Scenario: sc.Name, Choices: append([]int{}, x.Choices...), Sig: v.Sig, Detail: v.Detail}
		for _, d := range x.Trace {
			f.Trace = append(f.Trace, d.Enabled[d.Chosen])
		}
		// replay from the recorded choice list; it has to fail again the same way
		for i := 0; i < 5; i++ {
			rr := e.RunOnce(sc, x.Choices, traceLabels(x.Trace))
			if rr.ctl.Diverged {
				continue
			}
			for _, v2 := range rr.out.Violations {
				if v2.Sig == v.Sig {
					f.Reproduced++
					break
				}
			}
		}
		e.Found = append(e.Found, f)
	}
}

// workItem is one pending node of the DFS: a choice prefix to execute (then defaults) and expand.
type workItem struct {
	Prefix []int      `json:"p"`
	Expect [][]string `json:"-"` // labels of the parent execution along the prefix (divergence check); lost across a process restart
	Cost   int        `json:"c"`
	Level  int        `json:"l"`
}

// savedState lets a fresh process continue the exploration where a recycled one stopped: executions leak parked
// goroutines (the product's never-ending loops), so a worker that has run many of them is replaced.
type savedState struct {
	Done    map[string]bool `json:"done"`
	Current string          `json:"current"`
	Stack   []workItem      `json:"stack"`
	Branch  int             `json:"branch"`
}

func (e *Explorer) loadResume() {
	if e.resumeLoaded {
		return
	}
	e.resumeLoaded = true
	e.done = map[string]bool{}
	e.MaxExec = 25000
	if v := os.Getenv("VERIF_MAX_EXEC"); v != "" {
		fmt.Sscan(v, &e.MaxExec)
	}
	if p := os.Getenv("VERIF_RESUME"); p != "" {
		if b, err := os.ReadFile(p); err == nil {
			var st savedState
			if json.Unmarshal(b, &st) == nil {
				e.resume = &st
				e.branch = st.Branch
				for k := range st.Done {
					e.done[k] = true
				}
			}
		}
	}
}

func (e *Explorer) shouldSuspend() bool {
	if os.Getenv("VERIF_STATE") == "" {
		return false
	}
	if e.MaxExec > 0 && e.Stats.Executions+e.Stats.Retries >= int64(e.MaxExec) {
		return true
	}
	if (e.Stats.Executions+e.Stats.Retries)%500 == 499 {
		var ms runtime.MemStats
		runtime.ReadMemStats(&ms)
		if ms.Sys > 3<<30 {
			return true
		}
	}
	return false
}

func (e *Explorer) saveState(current string, stack []workItem) {
	st := savedState{Done: e.done, Current: current, Stack: stack, Branch: e.branch}
	b, _ := json.Marshal(st)
	_ = os.WriteFile(os.Getenv("VERIF_STATE"), b, 0o644)
}

// Explore runs the deviation-bounded DFS for one scenario (explicit stack, same order as the recursive formulation).
func (e *Explorer) Explore(sc *Scenario) {
	if e.Free {
		// the same scenario body, goroutines scheduled by the Go runtime: the oracle still judges every run
		n := e.FreeRuns
		if n <= 0 {
			n = 3
		}
		for i := 0; i < n; i++ {
			if !e.Deadline.IsZero() && time.Now().After(e.Deadline) {
				return // (a sampling pass has no notion of exhaustive: the budget just ends it)
			}
			e.RunOnce(sc, nil, nil) // (the race detector is the only judge of this pass: a free run cannot be replayed)
			e.Stats.Executions++
			e.Stats.PerScenario[sc.Name]++
		}
		return
	}
	e.loadResume()
	if e.Suspended || e.done[sc.Name] {
		return
	}
	stack := []workItem{{}}
	if e.resume != nil && e.resume.Current == sc.Name {
		stack = e.resume.Stack
		e.resume.Current = ""
	}
	for len(stack) > 0 {
		if !e.Deadline.IsZero() && time.Now().After(e.Deadline) {
			e.Stats.Exhaustive = false
			return
		}
		if e.shouldSuspend() {
			e.saveState(sc.Name, stack)
			e.Suspended = true
			return
		}
		it := stack[len(stack)-1]
		stack = stack[:len(stack)-1]
		children := e.expand(sc, it)
		for i := len(children) - 1; i >= 0; i-- {
			stack = append(stack, children[i])
		}
	}
	e.done[sc.Name] = true
}

// expand executes one node and returns its children in exploration order.
func (e *Explorer) expand(sc *Scenario, it workItem) []workItem {
	r, ok := e.runStable(sc, it.Prefix, it.Expect)
	if !ok {
		e.Stats.Exhaustive = false // a schedule we could not reproduce (uncontrolled nondeterminism); its subtree is not expanded
		return nil
	}
	x := r.ctl
	e.judge(sc, r, false)
	labels := traceLabels(x.Trace)
	cost := it.Cost
	var out []workItem
	for i := len(it.Prefix); i < len(x.Trace); i++ {
		d := x.Trace[i]
		for alt := 1; alt < len(d.Enabled); alt++ {
			if cost+d.Costs[alt] > e.Bound {
				continue
			}
			if it.Level == 0 && e.NShard > 1 {
				// first-level subtrees are dealt to the shards
				e.branch++
				if e.branch%e.NShard != e.Shard {
					continue
				}
			}
			np := append(append([]int{}, x.Choices[:i]...), alt)
			out = append(out, workItem{Prefix: np, Expect: labels[: i+1 : i+1], Cost: cost + d.Costs[alt], Level: it.Level + 1})
		}
		cost += d.Costs[d.Chosen]
	}
	return out
}

func traceLabels(tr []Decision) [][]string {
	out := make([][]string, len(tr))
	for i, d := range tr {
		out[i] = d.Enabled
	}
	return out
}

// (branch counter for sharding)
func init() { _ = os.Getpid }

// ReplayOnce runs one recorded choice list (no exploration).
func (e *Explorer) ReplayOnce(sc *Scenario, choices []int) (Outcome, bool) {
	r, ok := e.runStable(sc, choices, nil)
	if !ok {
		return Outcome{}, false
	}
	return r.out, true
}
