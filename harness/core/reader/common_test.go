package reader

import "encoding/json"

func jsonUnmarshalR(b []byte, v interface{}) error { return json.Unmarshal(b, v) }
