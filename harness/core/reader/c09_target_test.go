package reader

// C09 (target side): TargetClient.mapDBAndCollectionName decides which downstream database/collection the
// reader probes for ids. Total enumeration of mapping shapes x insertion orders x repetitions against
// the reference mapping (collection-level entry, else whole-database entry, else unchanged).

import (
	"fmt"
	"strings"
	"testing"

	"github.com/zilliztech/milvus-cdc/core/verifkit/ev"
)

func c09tRef(entries [][2]string, db, coll string) (string, string) {
	if db == "" {
		db = "default"
	}
	for _, e := range entries {
		if e[0] == db+"."+coll {
			p := strings.SplitN(e[1], ".", 2)
			return p[0], p[1]
		}
	}
	for _, e := range entries {
		if e[0] == db+".*" {
			return strings.SplitN(e[1], ".", 2)[0], coll
		}
	}
	return db, coll
}

func c09tPerms(e [][2]string) [][][2]string {
	if len(e) <= 1 {
		return [][][2]string{e}
	}
	var out [][][2]string
	for i := range e {
		rest := append(append([][2]string{}, e[:i]...), e[i+1:]...)
		for _, p := range c09tPerms(rest) {
			out = append(out, append([][2]string{e[i]}, p...))
		}
	}
	return out
}

func TestVerifC09Target(t *testing.T) {
	res := ev.New("C09", "target")
	defer res.Write()
	reps := 24
	if ev.Thorough() {
		reps = 200
	}
	res.Rule = "total enumeration for TargetClient.mapDBAndCollectionName: source db {default, \"\", other} x collection {a, c} x mapping shape {none, exact, whole-db, unrelated, sibling, exact+whole-db, whole-db+others} x every insertion order, repeated because sync.Map Range order is random"
	for _, db := range []string{"default", "", "other"} {
		s := db
		if s == "" {
			s = "default"
		}
		for _, coll := range []string{"a", "c"} {
			shapes := map[string][][2]string{
				"none": nil, "exact": {{s + ".a", "X.b"}}, "wholedb": {{s + ".*", "Z.*"}},
				"unrelated": {{"nope.*", "R.*"}, {"nope2.a", "R2.q"}}, "sibling": {{s + ".other", "Q.q2"}},
				"exact+whole": {{s + ".a", "X.b"}, {s + ".*", "Z.*"}}, "whole+others": {{s + ".*", "Z.*"}, {"nope.*", "R.*"}, {"nope2.a", "R2.q"}},
			}
			for name, entries := range shapes {
				for _, perm := range c09tPerms(entries) {
					wd, wc := c09tRef(perm, db, coll)
					n := 1
					if len(perm) > 1 {
						n = reps
					}
					ok := true
					for r := 0; r < n && ok; r++ {
						tc := &TargetClient{}
						for _, e := range perm {
							tc.UpdateNameMappings(map[string]string{e[0]: e[1]})
						}
						gd, gc := tc.mapDBAndCollectionName(db, coll)
						res.Evaluations++
						if gd != wd || gc != wc {
							res.Violate("C09/target/"+name, fmt.Sprintf("TargetClient maps (%q,%q) with %v to %s.%s, reference gives %s.%s", db, coll, perm, gd, gc, wd, wc),
								map[string]interface{}{"db": db, "coll": coll, "entries": perm})
							ok = false
						}
					}
					res.States++
					res.Transitions++
					res.Traces++
					if wd != s || wc != coll {
						res.Nontrivial++
					}
					res.Outcome(fmt.Sprintf("%s.%s", wd, wc))
					if name == "exact+whole" {
						res.Sample(map[string]interface{}{"db": db, "coll": coll, "entries": perm, "mapped": wd + "." + wc})
					}
				}
			}
		}
	}
}
