# Per-property configuration of the driver. budget = internal wall-clock budget (s) [quick, thorough];
# shards = worker processes [quick, thorough].
def part(name, mod, pkg, run, shards=(1, 1), budget=(120, 900), gomaxprocs=None, env=None, mem=None, race=False):
    d = dict(name=name, mod=mod, pkg=pkg, run=run, shards=shards, budget=budget)
    if gomaxprocs:
        d["gomaxprocs"] = gomaxprocs
    if env:
        d["env"] = env
    if mem:
        d["mem"] = mem
    if race:
        d["race"] = True
    return d


HOOK_COMMITS = ["de0ef9f", "45f02bf", "e9a40a6"]
NOT_APPLICABLE = {}

CHECKS = {
    "C16": dict(
        level="model_checking", engine="seq+sched",
        technique="explicit-state BFS over all offer sequences on the real ChannelMapping; stateless DFS over goroutine schedules (deviation-bounded) of the real channel manager's concurrent collection starts with the assignment table observed at every scheduling point",
        text="Every offer sequence up to the depth bound, for every channel-count pair up to the size bound, is executed on the real util.ChannelMapping with the channel manager's own call protocol; the invariant (one image per key, images never change, load <= ceil(larger/smaller), injective for equal counts, quota leaves room for every key) is evaluated in every reached state.",
        note="Bounded: channel counts <= 5 (6 thorough), offers <= 6 (8). The protocol driver of the mapping part mirrors startReadChannel/waitChannel; the manager part runs the real channel manager under the schedule explorer (placement scenarios up to 3:2 / 2:3 channels and a 6:3 scenario in which a downstream channel is offered twice while two source channels wait, collections started concurrently, <= 2 (3) deviations) and reads the assignment table at every scheduling point and at the end of every execution.",
        parts=[part("mapping", "core", "util", "TestVerifC16Mapping", shards=(4, 16)),
               part("manager", "core", "reader", "TestVerifC16Manager", shards=(12, 16), budget=(150, 900), gomaxprocs=1)],
    ),
    "C14": dict(
        level="model_checking", engine="seq",
        technique="explicit-state BFS over receive/tick/clear histories on the real Packer + MemoryProtector under virtual time, step-wise comparison with a list reference model",
        text="Every history of receive(size class)/clock-advance/clear operations up to the depth bound over one or two real packers sharing the real global memory protector, for every threshold configuration and failing-flush index, is replayed on fresh objects; each callback batch, each return value, the buffered remainder and the global byte counter are compared with a reference list model after every step.",
        note="Bounded: depth 8 (11 thorough; one less with two packers), three size classes, MaxCount 1..3, callback failure at flush 0..2. Time is testing/synctest virtual time. Assumes single-goroutine use per packer as in startReplicateDMLMsg.",
        parts=[part("packer", "server", "msgpacker", "TestVerifC14Packer", shards=(8, 16), budget=(150, 900))],
    ),
    "C17": dict(
        level="model_checking", engine="seq+sched",
        technique="explicit-state BFS over report/remove/reload histories on the real ReplicateMeteImpl, compared with a reference union after every step; stateless DFS (deviation-bounded) over the schedules of 2-3 concurrent reports",
        text="Every history of shard reports, removals and reloads up to the depth bound over 2 tasks x 2 messages (collection and partition drop) and target sets of 1-3 shards is replayed on a fresh real ReplicateMeteImpl; in-memory maps, store contents, API read-back and the returned ready flag are compared with the reference union after each operation, and a reload is compared with the memory it replaces.",
        note="Bounded: depth 7 (9 thorough), 2 tasks, 2-3 messages (a second drop-collection message for the first task), target lists of 1-3 shards in and out of lexicographic order (dml_9 before dml_10); thorough adds two-shard reports. The sched part runs 2-3 concurrent reports (and 2 reports racing a removal) for one message under the schedule explorer; store calls are scheduling points whenever the implementation's lock is not held. The store is an in-memory api.ReplicateStore that serialises to JSON like both real backends; store faults are not injected (not in the property's quantifier).",
        parts=[part("meta", "core", "meta", "TestVerifC17Meta", shards=(8, 16), budget=(150, 900)),
               part("sched", "core", "meta", "TestVerifC17Sched", shards=(4, 8), budget=(120, 600), gomaxprocs=1)],
    ),
    "C09": dict(
        level="model_checking", engine="seq",
        technique="total enumeration of operation kind x source database x mapping shape x entry order through the real ChannelWriter against a reference mapping function",
        text="Every operation kind (18 op messages, 4 API events, 5 DML kinds, the 3 readiness probes they trigger) is pushed through the real ChannelWriter for every source database, mapping shape, insertion order of mapping entries and downstream answer; every call recorded at the fake DataHandler is compared with the reference mapping (routing database, request db/collection fields) and the writer's bookkeeping keys with source-name keys.",
        note="Finite input space enumerated completely. sync.Map iteration order is random and outside the harness' control: multi-entry mappings are repeated 24x (200x thorough) under every insertion order and all repetitions must agree. RBAC entity fields are C20's business. The histories part interleaves operations with UpdateNameMappings calls on ONE writer (every history of <= 4 steps over 12 letters; the table in force is the table at the time of the operation). Two parts go below the DataHandler interface with the real SDK client against an in-process gRPC Milvus: 'handler' (23 operation kinds x 4 routing databases: dbname header and names of every RPC on the wire) and 'targetcalls' (collection / partition lookups of the real TargetClient under plain and chained mapping tables: the mapping is applied exactly once).",
        parts=[part("names", "core", "writer", "TestVerifC09Names", shards=(8, 16), budget=(150, 900)),
               part("histories", "core", "writer", "TestVerifC09Histories", shards=(8, 16), budget=(150, 900)),
               part("target", "core", "reader", "TestVerifC09Target"),
               part("targetcalls", "core", "reader", "TestVerifC09TargetCalls", shards=(4, 8), budget=(150, 600)),
               part("handler", "core", "writer", "TestVerifC09Handler", shards=(4, 8), budget=(150, 600))],
    ),
    "C20": dict(
        level="model_checking", engine="seq",
        technique="total enumeration of per-kind field-domain products and malformed packs through the real ChannelWriter, deep comparison with an independent reference builder",
        text="For every supported operation message kind and API event the product of small field domains is pushed through the real ChannelWriter; the one request recorded at the fake DataHandler is deep-compared with an independently built expectation (same identity fields, dropped list members removed, schema/shards/consistency/properties for create collection, replication flag, source timestamp); malformed packs must be rejected with no downstream call. Every operation case also runs with a source request that already carries a replicate info (empty, or stamped by an earlier hop of a replication chain).",
        note="Finite alphabet enumerated completely (about 3k cases); field contents outside the alphabets are not covered. Event timestamps produced by the reader (create time / barrier time) are checked in the C04 pipeline harness. The handler part checks the wire request of the real MilvusDataHandler + SDK client (identity fields, exactly one mutating RPC, replication mark and source timestamp); the kinds for which the pinned SDK cannot carry the mark are recorded known findings.",
        parts=[part("requests", "core", "writer", "TestVerifC20Requests", shards=(4, 8), budget=(150, 900)),
               part("handler", "core", "writer", "TestVerifC20Handler", shards=(4, 8), budget=(150, 600))],
    ),
    "C07": dict(
        level="model_checking", engine="seq+sched",
        technique="total enumeration of pack shapes x configurations through the real HandleReplicateMessage; bytes decoded with Milvus' own decoder and compared with the pack",
        text="Every pack of up to 3 (4 thorough) messages over the six message kinds, for every replicate-id / name-mapping / downstream-answer configuration, is sent through the real ChannelWriter and replicate message manager; the serialized messages captured at the fake DataHandler are decoded exactly as the Milvus proxy does (MsgHeader -> type -> ProtoUnmarshalDispatcher) and compared field by field with a pristine copy of the pack, together with the call envelope, the returned checkpoints and the error.",
        note="Field values come from builders (2 rows, int64 pks, one partition name); concurrent calls on different channels are explored by the sched part (each caller gets its own answer; the bytes of every downstream call are decoded when the call is made and again just before it is answered). The fake answers with a synthetic target position. The handler part drives the real MilvusDataHandler + SDK client against an in-process gRPC Milvus (loopback): downstream answer {ok, error status, transport error, unreachable} x pooled client {cached, evicted}; envelope equality on the wire, position handed back, an error is never swallowed.",
        parts=[part("bytes", "core", "writer", "TestVerifC07Bytes", shards=(8, 16), budget=(150, 900)),
               part("sched", "core", "writer", "TestVerifC07Sched", shards=(4, 8), budget=(120, 600), gomaxprocs=1),
               part("handler", "core", "writer", "TestVerifC07Handler", shards=(8, 8), budget=(150, 600))],
    ),
    "C08": dict(
        level="model_checking", engine="seq",
        technique="total enumeration of the (operation time, create time, drop time) order types x presence x level cascade x probe answers x operation kind through the real writer, against a reference decision derived from the statement",
        text="The complete decision table - every weak ordering of operation/create/drop time with each time possibly unknown, on every governing level (database, collection, partition), with every downstream probe answer and for every gated operation kind, plus the rejected-call-while-dropped path - is executed on the real ChannelWriter (tables seeded white-box) and the observed applied/skipped/failed outcome is compared with the statement's rule.",
        note="Quick limits the database level to 6 representative states for the two 3-level kinds; thorough enumerates the full product (about 1.6M cases). The names part checks non-interference between objects whose flat table keys collide or are prefixes of each other (names containing the separator); three collisions of the unchanged tree are recorded findings. The histories part explores stateful create/drop/re-create histories with restarts as sequences, each once without and once with a whole-database name mapping (the decision is made on tables keyed by source names).",
        parts=[part("table", "core", "writer", "TestVerifC08Table", shards=(16, 16), budget=(200, 1500)),
               part("histories", "core", "writer", "TestVerifC08Histories", shards=(16, 16), budget=(150, 1200)),
               part("names", "core", "writer", "TestVerifC08Names", shards=(4, 8), budget=(120, 600))],
    ),
    "C15": dict(
        level="model_checking", engine="seq",
        technique="explicit-state BFS over catalog-generating histories; each reachable catalog is read by the real EtcdOp.GetAllDroppedObj (over fakeetcd) and compared with the model's expectation",
        text="Every source catalog reachable by a history of legal root-coord operations up to the depth bound (two databases, repeated names across incarnations, all object states, tombstones) is written to the in-memory etcd and read by the real GetAllDroppedObj, with and without a Milvus downstream; entry set and horizons are compared with an expectation computed from the catalog model.",
        note="Catalogs come from histories so impossible catalogs cannot raise alarms; depth 7 (7 thorough), one collection name per database (two thorough) plus a second name that exists to be renamed onto the first (collections without user partitions), one partition name. fakeetcd models the etcd Get/prefix semantics used here; key layout and tombstone encoding copied from the reader's own constants.",
        parts=[part("snapshot", "core", "reader", "TestVerifC15Snapshot", shards=(8, 16), budget=(150, 900))],
    ),
    "C01": dict(
        level="exploration", engine="sched",
        technique="stateless DFS over goroutine schedules (deviation-bounded) of the real channel manager inside synctest bubbles, exhaustive over script and schedule space within the bounds",
        text="The real replicateChannelManager (handlers, TS manager, barriers) is driven by fakemq streams; every single-stream script up to the length bound and every schedule of the multi-stream scenarios within the deviation bound is executed and the emitted stream is compared with the source log (complete, duplicate-free, ordered, payload-exact, packs in read order with the right labels).",
        note="A partition whose drop is in flight when the task starts (announced Dropping, downstream still has it, drop message in the backlog) is one of the scenarios; a delete for such a partition is left out on purpose by the handler - recorded finding C01/missing/del/partition-drop-in-flight. Bounds: scripts <= 2 packs (3 thorough) over 13 pack letters; <= 2 deviations (3 thorough); hook-to-hook segments are atomic; source dispatcher and downstream are the models of DESIGN 2.7. Kafka-downstream scenarios (the manager's other start path, identity addressing) are part of C01, C02 and C04.",
        parts=[part("stream", "core", "reader", "TestVerifC01Stream", shards=(12, 16), budget=(150, 900), gomaxprocs=1),
               part("race", "core", "reader", "TestVerifC01Stream", shards=(4, 8), budget=(60, 300), race=True)],
    ),
    "C02": dict(
        level="exploration", engine="sched",
        technique="stateless DFS over goroutine schedules (deviation-bounded) of the real channel manager for every placement scenario",
        text="For every upstream/downstream placement scenario (renamed, differently sorted, crosswise-shared channels with forwarding, lazily learned downstream partition ids, collections created through the event; 2:1 and 1:2 channel counts in thorough) every start order and schedule within the deviation bound is executed on the real channel manager and each emitted message's ids, shard name, arrival channel and positions are compared with an independently computed pairing.",
        note="Placements are the listed scenarios (2 collections x 2 shards at most; channel names in a prefix relation, dml_1 / dml_10, included); <= 2 deviations (3 thorough). Downstream ids come from the fake TargetAPI, which applies create events the way the writer would.",
        parts=[part("routing", "core", "reader", "TestVerifC02Routing", shards=(12, 16), budget=(150, 900), gomaxprocs=1)],
    ),
    "C03": dict(
        level="exploration", engine="sched",
        technique="stateless DFS over goroutine schedules (deviation-bounded) including the computed-vs-enqueued window, on the real channel manager and TS manager",
        text="Streams multiplexed on one downstream channel with clock skew are run through the real handlers and TS manager under every schedule within the deviation bound over the yield points that separate collecting the begin timestamp, taking the channel lock, and enqueueing the computed pack; the emitted sequence per downstream channel is checked for tick-terminated packs, monotone ticks, data strictly after earlier ticks, internal timestamp agreement and preserved per-shard order.",
        note="Bounds: 2 streams x <= 3 packs, skew in {0,+1ms,+1s,-0.5s}, <= 2 deviations (3 thorough). The overtake defect (a pack computed earlier but enqueued later) is a recorded known finding; the resume part judges the C05 full-stack scenarios (hand-written and generated) by the time clauses over what the downstream accepted per channel across incarnations: after a crash or an injected failure the floor is the closing tick of the checkpointed packs, in an undisturbed history (manual pause / resume) it is the last accepted tick.",
        parts=[part("time", "core", "reader", "TestVerifC03Time", shards=(12, 16), budget=(150, 900), gomaxprocs=1),
               part("resume", "server", ".", "TestVerifC03Resume", shards=(16, 16), budget=(150, 1200), gomaxprocs=1)],
    ),
    "C04": dict(
        level="exploration", engine="sched",
        technique="stateless DFS over goroutine schedules (deviation-bounded) of the real channel manager and its barriers for every drop / stop / restart scenario",
        text="Drop-collection and drop-partition scripts over 1-3 shards, partition registration racing stream registration, stop with and without a half-completed drop, and restarts with objects already dropped upstream are executed on the real channel manager under every schedule within the deviation bound; the drop requests observed on the event channel are counted, attributed and placed in time against the per-shard delivery progress.",
        note="Restart scenarios also cover a dropped collection that joins a handler which is at that moment emitting a pack FORWARDED to it by another handler (the defect repaired by /repo 4fadc98 was found there), and a dropped collection without a checkpoint of its own joining the handler of a resumed collection. Bounds: <= 2 shards (3 thorough), <= 2 deviations (3 thorough; 1 for the heaviest scenarios). After a drop the scripts address the dropped object no more (a source never does). Pause and resume on the same channel manager after a replayed drop (partition / collection; downstream has applied the request or still lists the object) must not produce a second request; a resume from the start of the logs racing the announcement of a partition (strict cost model, 3 deviations) must still wait for every shard.",
        parts=[part("drop", "core", "reader", "TestVerifC04Drop", shards=(12, 16), budget=(150, 900), gomaxprocs=1),
               part("race", "core", "reader", "TestVerifC04Drop", shards=(4, 8), budget=(60, 300), race=True)],
    ),
    "C13": dict(
        level="exploration", engine="sched",
        technique="stateless DFS over goroutine schedules (deviation-bounded) with catalog writes placed at every step of the real reader start-up over an in-memory etcd",
        text="The real CollectionReader.StartRead and EtcdOp (watchers, event pool) run over fakeetcd; for every scenario the catalog writes are placed at every decision point among the reader's etcd calls and all schedules within the deviation bound are executed; at quiescence the recorded StartReadCollection / AddPartition / AddDropped* calls are compared with the catalog model.",
        note="Bounds: <= 4 catalog writes per scenario, <= 2 further deviations (3 thorough), two databases. The listing part runs StartRead on every catalog reachable by a history of <= 8 (10) catalog operations (any number of incarnations of a name, in any state, with partitions under old and new ones). Duplicate notifications at the real channel manager (collection / partition announced twice, concurrently and one after the other) are the 'duplicates' part. The fullstack part judges the C05 / C06 full-stack scenarios (task start = create, resume, restart; collections created while the task runs; a connectivity check refused at the start) by: a task that is Running at a quiescent point has a live source subscription for every shard of every collection it selects. fakeetcd models Get/prefix/Watch-with-prev-kv semantics; thorough conformance against embedded etcd is a separate part.",
        parts=[part("start", "core", "reader", "TestVerifC13Start", shards=(12, 16), budget=(150, 900), gomaxprocs=1),
               part("lookup", "core", "reader", "TestVerifC13Lookup", shards=(4, 8), budget=(120, 600)),
               part("listing", "core", "reader", "TestVerifC13Listing", shards=(12, 16), budget=(150, 900), gomaxprocs=1),
               part("duplicates", "core", "reader", "TestVerifC13Duplicates", shards=(12, 16), budget=(150, 900), gomaxprocs=1),
               part("fullstack", "server", ".", "TestVerifC13Fullstack", shards=(16, 16), budget=(150, 1200), gomaxprocs=1)],
    ),
    "C10": dict(
        level="model_checking", engine="seq+sched",
        technique="explicit-state BFS over create/delete/failed-create/pause/restart histories on the real MetaCDC with invariant + differential (fresh reload) oracle in every state; stateless DFS (deviation-bounded) over the interleavings of two overlapping API calls at their store round trips",
        text="Every history of create (13 specification shapes), create with a store fault at the n-th call, delete and restart up to the depth bound is replayed on a fresh real MetaCDC (real etcd stores over fakeetcd); in every reached state the selections made by the real data-path and DDL-path functions are evaluated for a 3x3 universe of (database, collection) pairs against a reference, rejected requests must leave bookkeeping and store byte-identical, and the live bookkeeping must equal a fresh reload of the same store.",
        note="Bounded: depth 4 (5 thorough), one target, <= 3 tasks, universe {default, db1, db2} x {a, b, c}; 15 specification shapes (with user-role flag, name mapping, auto start disabled), pause(task) as an operation. The replication entity is the light one (recording channel manager); connectivity probe skipped through the verif hook. The concurrent part overlaps a create with the delete of another task / a failing create on the same target under the schedule explorer (store round trips are the scheduling points).",
        parts=[part("tasks", "server", ".", "TestVerifC10Tasks", shards=(16, 16), budget=(150, 1200)),
               part("concurrent", "server", ".", "TestVerifC10Concurrent", shards=(10, 10), budget=(120, 600), gomaxprocs=1)],
    ),
    "C19": dict(
        level="model_checking", engine="seq",
        technique="total enumeration of request bodies over a JSON-structural alphabet up to a length bound plus all single-subtree mutations of valid requests, and adversarial creates after every accepted prefix with snapshot comparison",
        text="The real /cdc handler (getCDCHandler + handle_map + MetaCDC) is driven through httptest with every body up to the length bound over a JSON-structural alphabet and every single-subtree mutation of each valid request type; every answer must be one JSON object with a legal code and no handler may panic. Structurally valid creates with adversarial values are sent on the empty server and after every accepted prefix; a rejected request must leave tasks, checkpoints, bookkeeping and the store dump unchanged, an accepted one must not poison later requests.",
        note="Honest limit: 'all byte strings' is covered to 5 bytes (6 thorough) over a 12-symbol alphabet, plus every tail of <= 4 bytes (5 thorough) after five prefixes that have opened a key or value string (bodies cut inside a string; this family reaches the goccy/go-json panic repaired by /repo cec9240), plus structured mutations; prefixes of depth <= 2. Connectivity probe skipped through the verif hook, light replication entity.",
        parts=[part("total", "server", ".", "TestVerifC19Total", shards=(8, 16), budget=(150, 900)),
               part("rejects", "server", ".", "TestVerifC19Rejects", shards=(4, 8), budget=(150, 600))],
    ),
    "C18": dict(
        level="fault_enumeration", engine="seq",
        technique="exhaustive enumeration of request kind x credential field x failure point (validation failure, store fault at every call index of create and of every follow-up operation) with the log core swapped for a buffer",
        text="Canary secrets are placed in every credential field of the three create request kinds; the request is sent through the real HTTP handler plain, with every adversarial validation variant, and with the metadata store failing at each call index of create and of the follow-up get/list/pause/resume/restart/delete/position sequence; every response body and every log line (debug level, process logger swapped for a buffer) is searched for the canaries.",
        note="Failure points are the first 8 store calls of create and the first 5 of each follow-up; one variant per kind runs the real connectivity probe against a closed loopback port. Log lines of third-party libraries that do not go through core/log are not captured.",
        parts=[part("secrets", "server", ".", "TestVerifC18Secrets", shards=(8, 16), budget=(150, 600)),
               part("concurrent", "server", ".", "TestVerifC18Concurrent", shards=(8, 16), budget=(120, 600), gomaxprocs=1)],
    ),
    "C11": dict(
        level="model_checking", engine="seq",
        technique="explicit-state BFS over API call histories with store-fault indexes on the real MetaCDC, invariant + reference state machine in every state",
        text="Every history of create/pause/resume/delete/get/list/restart over two tasks (one or two targets, auto-start on/off), optionally with the metadata store failing at the n-th call of an operation, is replayed on a fresh real MetaCDC; in every reached state the API, the persisted record, the in-memory table and the per-state gauges must agree, only legal transitions may succeed, and reference count, quit functions, replication entity, catalog subscriptions, source stream registrations and store records must match the set of running / existing tasks.",
        note="Bounded: depth 5 (6 thorough), fault at store call 1..3 (1..6; create: 1..7 (1..10), which reaches the store calls of the start that follows the record write), two tasks, ids given by the client or assigned by the server; a failure report of the reader (error event) is one of the operations, and so is a restart whose reload meets a store failure at its n-th call (an internal pause that the store refuses to record is a recorded finding). Light replication entity (recording channel manager) in the lifecycle part; the fullstack part re-judges the C05/C06 full-stack scenarios (real readers, channel manager, writer) for agreement of the four views of the state at every quiescent point. The busy-background-work clause was exercised by the stall watchdog of the pipeline harness (barrier spin, fixed).",
        parts=[part("lifecycle", "server", ".", "TestVerifC11Lifecycle", shards=(16, 16), budget=(150, 1200)),
               part("fullstack", "server", ".", "TestVerifC11Fullstack", shards=(16, 16), budget=(150, 1200), gomaxprocs=1)],
    ),
    "C12": dict(
        level="model_checking", engine="seq",
        technique="explicit-state BFS over store operation histories on both real backends (etcd stores over fakeetcd, MySQL stores over fakesql) with full-dump frame-condition oracle and fault enumeration over DeleteTask round trips",
        text="The real etcd and MySQL metadata stores, driven through the real meta_op.go functions, share one backend between several root paths; every operation history up to the depth bound over prefix-sharing and pattern-character identifiers is executed and the full backend dump is diffed after every operation (only the addressed record may change; inside a checkpoint only the addressed channel; dropped entries never; reads return own records only); DeleteTask is run with a failure injected at every backend round trip and must be all-or-nothing.",
        note="Families: prefix-sharing ids, task ids with SQL pattern characters (t_1 / tx1 / t% / t%2), four tenants on one backend, delete faults. fakesql implements exactly the statement shapes of mysql.go (unknown SQL is an error), LIKE with % and _, binary string comparison (MySQL's case-insensitive default collation is not modelled: the check demands less). fakeetcd is a model of etcd Get/Put/Delete/Txn; conformance against embedded etcd is a thorough-tier part.",
        parts=[part("isolation", "server", "store", "TestVerifC12Isolation", shards=(8, 16), budget=(150, 900)),
               part("etcd-conformance", "core", "verifkit/fakeetcd", "TestVerifEtcdConformance", shards=(4, 16), budget=(150, 900))],
    ),
    "C05": dict(
        level="fault_enumeration", engine="sched",
        technique="stateless DFS over goroutine schedules x crash points x fault answers (deviation-bounded) of the real full stack inside synctest bubbles, with restart on the same durable fakes",
        text="The real MetaCDC with real channel manager, readers, writer, batcher and etcd stores runs over in-memory source logs, downstream and store; every crash point before/after each visible step (downstream acknowledgement, checkpoint write), every single write/store failure and a manual pause are placed at every position of every schedule within the deviation bound; a new incarnation restarts from the persisted state; the event log is checked for checkpoints that run ahead of acknowledgements, gaps, changed dropped checkpoints and rows never delivered.",
        note="Bounds: <= 2 collections x <= 2 shards, hand-written scenarios with scripts <= 6 packs, batch sizes 1..3, deviation bound 2 (3 thorough). Generated family: every one-stream script of <= 3 packs over {ins, del, ins+del, tick-only, ins above the batcher's size threshold} x {same ms, +1 ms, +10 ms} (and scripts of 4-5 packs over {ins, tick-only} for batch sizes 3, 4) x batch size 1..3 x {crash before/after, write failure, store failure, manual pause} at every visible step, one deviation (two thorough). Collections created through the create-collection event (created upstream while the task runs, or absent downstream at task start) are part of the hand-written scenarios. Source seek semantics are fakemq's model of MqTtMsgStream.Seek; 'latest' = everything delivered so far.",
        parts=[part("resume", "server", ".", "TestVerifC05Resume", shards=(16, 16), budget=(150, 1200), gomaxprocs=1),
               part("mq-conformance", "core", "verifkit/fakemq", "TestVerifMqConformance", shards=(12, 16), budget=(150, 900))],
    ),
    "C06": dict(
        level="fault_enumeration", engine="sched",
        technique="stateless DFS over goroutine schedules x failure positions (deviation-bounded) of the real full stack inside synctest bubbles",
        text="For every failure class (downstream rejects a write once or repeatedly, store rejects a checkpoint, two failures, downstream rejects a drop, insert or bulk-insert message for a partition unknown downstream) and task layout (1 task, 2 tasks on one target, 2 tasks on two targets) the failure is placed at every visible step of every schedule within the deviation bound on the real full stack; at every quiescent point the owning task must be Paused with a reason (memory, list API, store), other tasks unchanged, nothing of the failed stream acknowledged past the failed pack, and after resume the failed message is delivered; a panic kills the worker and is attributed to the execution.",
        note="Bounds: scripts of 3-5 packs, one failure per execution (two in the reject-two class), deviation bound 2 (3 thorough). Failure classes also cover: a rejected pack in the middle of a batch (batch sizes 2, 3), the create request / the start positions of a collection created while the task runs being refused, the connectivity check of a new channel handler refused at the task's start (scripted: the n-th check). Two-task layouts also run a second task's own failure after the first task's (doubly reported) failure.",
        parts=[part("failure", "server", ".", "TestVerifC06Failure", shards=(16, 16), budget=(150, 1200), gomaxprocs=1)],
    ),
}
