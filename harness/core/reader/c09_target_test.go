package reader

// C09 (target side): TargetClient.mapDBAndCollectionName decides which downstream database/collection the
// reader probes for ids. Total enumeration of mapping shapes x insertion orders x repetitions against
// the reference mapping (collection-level entry, else whole-database entry, else unchanged).

import (
	"context"
	"fmt"
	"sort"
	"strings"
	"testing"
	"time"

	"github.com/milvus-io/milvus-proto/go-api/v2/milvuspb"

	"github.com/zilliztech/milvus-cdc/core/verifkit/ev"
	"github.com/zilliztech/milvus-cdc/core/verifkit/fakemilvus"
)

func c09tRef(entries [][2]string, db, coll string) (string, string) {
	if db == "" {
		db = "default"
	}
	for _, e := range entries {
		if e[0] == db+"."+coll {
			p := strings.SplitN(e[1], ".", 2)
			return p[0], p[1]
		}
	}
	for _, e := range entries {
		if e[0] == db+".*" {
			return strings.SplitN(e[1], ".", 2)[0], coll
		}
	}
	return db, coll
}

func c09tPerms(e [][2]string) [][][2]string {
	if len(e) <= 1 {
		return [][][2]string{e}
	}
	var out [][][2]string
	for i := range e {
		rest := append(append([][2]string{}, e[:i]...), e[i+1:]...)
		for _, p := range c09tPerms(rest) {
			out = append(out, append([][2]string{e[i]}, p...))
		}
	}
	return out
}

func TestVerifC09Target(t *testing.T) {
	res := ev.New("C09", "target")
	defer res.Write()
	reps := 24
	if ev.Thorough() {
		reps = 200
	}
	res.Rule = "total enumeration for TargetClient.mapDBAndCollectionName: source db {default, \"\", other} x collection {a, c} x mapping shape {none, exact, whole-db, unrelated, sibling, exact+whole-db, whole-db+others} x every insertion order, repeated because sync.Map Range order is random"
	for _, db := range []string{"default", "", "other"} {
		s := db
		if s == "" {
			s = "default"
		}
		for _, coll := range []string{"a", "c"} {
			shapes := map[string][][2]string{
				"none": nil, "exact": {{s + ".a", "X.b"}}, "wholedb": {{s + ".*", "Z.*"}},
				"unrelated": {{"nope.*", "R.*"}, {"nope2.a", "R2.q"}}, "sibling": {{s + ".other", "Q.q2"}},
				"exact+whole": {{s + ".a", "X.b"}, {s + ".*", "Z.*"}}, "whole+others": {{s + ".*", "Z.*"}, {"nope.*", "R.*"}, {"nope2.a", "R2.q"}},
			}
			for name, entries := range shapes {
				for _, perm := range c09tPerms(entries) {
					wd, wc := c09tRef(perm, db, coll)
					n := 1
					if len(perm) > 1 {
						n = reps
					}
					ok := true
					for r := 0; r < n && ok; r++ {
						tc := &TargetClient{}
						for _, e := range perm {
							tc.UpdateNameMappings(map[string]string{e[0]: e[1]})
						}
						gd, gc := tc.mapDBAndCollectionName(db, coll)
						res.Evaluations++
						if gd != wd || gc != wc {
							res.Violate("C09/target/"+name, fmt.Sprintf("TargetClient maps (%q,%q) with %v to %s.%s, reference gives %s.%s", db, coll, perm, gd, gc, wd, wc),
								map[string]interface{}{"db": db, "coll": coll, "entries": perm})
							ok = false
						}
					}
					res.States++
					res.Transitions++
					res.Traces++
					if wd != s || wc != coll {
						res.Nontrivial++
					}
					res.Outcome(fmt.Sprintf("%s.%s", wd, wc))
					if name == "exact+whole" {
						res.Sample(map[string]interface{}{"db": db, "coll": coll, "entries": perm, "mapped": wd + "." + wc})
					}
				}
			}
		}
	}
}

// ------------------------------------------------------------------------------------------------
// the calls themselves: the real TargetClient + Milvus SDK client against an in-process gRPC Milvus. Every RPC of a
// collection / partition lookup must go to mapping(source) - applied exactly once, also when the table is chained
// (the target of one entry is the source of another, as happens when several tasks share one downstream).

var c09tServer *fakemilvus.Server

func TestVerifC09TargetCalls(t *testing.T) {
	res := ev.New("C09", "targetcalls")
	defer res.Write()
	res.Rule = "the real TargetClient.GetCollectionInfo / GetPartitionInfo + SDK client against an in-process gRPC Milvus: source db {default, \"\", other} x collection {a, c} x mapping shape (the shapes of the target part plus chained collection entries, chained whole-database entries and a collection entry chained onto a whole-database entry) x every insertion order; every RPC on the wire (DescribeCollection, ShowPartitions) must be routed to and name mapping(source), the mapping applied exactly once"
	if c09tServer == nil {
		s, err := fakemilvus.Start()
		if err != nil {
			t.Fatal(err)
		}
		c09tServer = s
	}
	srv := c09tServer
	n := 0
	for _, db := range []string{"default", "", "other"} {
		s := db
		if s == "" {
			s = "default"
		}
		for _, coll := range []string{"a", "c"} {
			shapes := map[string][][2]string{
				"none": nil, "exact": {{s + ".a", "X.b"}}, "wholedb": {{s + ".*", "Z.*"}},
				"exact+whole": {{s + ".a", "X.b"}, {s + ".*", "Z.*"}},
				"chained-exact": {{s + ".a", "X.b"}, {"X.b", "Y.c"}},
				"chained-whole": {{s + ".*", "X.*"}, {"X.*", "W.*"}},
				"whole-then-exact": {{s + ".*", "X.*"}, {"X.a", "Y.q"}, {"X.c", "Y.r"}},
				"exact-then-whole": {{s + ".a", "X.b"}, {"X.*", "W.*"}},
			}
			var names []string
			for k := range shapes {
				names = append(names, k)
			}
			sort.Strings(names)
			for _, name := range names {
				entries := shapes[name]
				perms := c09tPerms(entries)
				if len(entries) > 2 {
					perms = perms[:2]
				}
				for _, perm := range perms {
					n++
					if !ev.Mine(n) {
						continue
					}
					wd, wc := c09tRef(entries, db, coll)
					tc := &TargetClient{config: TargetConfig{URI: srv.Addr}}
					for _, e := range perm {
						tc.UpdateNameMappings(map[string]string{e[0]: e[1]})
					}
					for _, entry := range []string{"GetCollectionInfo", "GetPartitionInfo"} {
						srv.Calls()
						ctx, cancel := context.WithTimeout(context.Background(), 10*time.Second)
						var err error
						if entry == "GetCollectionInfo" {
							_, err = tc.GetCollectionInfo(ctx, coll, db)
						} else {
							_, err = tc.GetPartitionInfo(ctx, coll, db)
						}
						cancel()
						calls := srv.Calls()
						res.Evaluations++
						res.States++
						res.Transitions++
						res.Traces++
						if wd != s || wc != coll {
							res.Nontrivial++
						}
						rp := map[string]interface{}{"db": db, "coll": coll, "entries": perm, "entry": entry}
						if err != nil {
							res.Violate("C09/targetcalls/failed/"+name, fmt.Sprintf("%s(%q,%q) with %v failed: %v", entry, coll, db, perm, err), rp)
							continue
						}
						var seq []string
						for _, c := range calls {
							gotDB := c.DB
							if gotDB == "" {
								gotDB = "default"
							}
							gotColl := ""
							switch q := c.Req.(type) {
							case *milvuspb.DescribeCollectionRequest:
								gotColl = q.CollectionName
							case *milvuspb.ShowPartitionsRequest:
								gotColl = q.CollectionName
							default:
								continue
							}
							seq = append(seq, fmt.Sprintf("%s@%s.%s", c.Method, gotDB, gotColl))
							if gotDB != wd || gotColl != wc {
								res.Violate("C09/targetcalls/route/"+name, fmt.Sprintf("%s(%q,%q) with %v: RPC %s went to %s.%s, the mapping gives %s.%s", entry, coll, db, perm, c.Method, gotDB, gotColl, wd, wc), rp)
							}
						}
						if len(seq) == 0 {
							res.Violate("C09/targetcalls/no-call/"+name, fmt.Sprintf("%s(%q,%q): no lookup RPC reached the downstream", entry, coll, db), rp)
						}
						res.Outcome(entry + ": " + strings.Join(seq, ","))
					}
				}
			}
		}
	}
}
