package sched

import "syscall"

func cpuSeconds() float64 {
	var ru syscall.Rusage
	if err := syscall.Getrusage(syscall.RUSAGE_SELF, &ru); err != nil {
		return 0
	}
	return float64(ru.Utime.Sec) + float64(ru.Utime.Usec)/1e6 + float64(ru.Stime.Sec) + float64(ru.Stime.Usec)/1e6
}
