package reader

// The source catalog model lives in kit/srccat (shared with the server harnesses).

import (
	"github.com/milvus-io/milvus/pkg/util/conc"

	"github.com/zilliztech/milvus-cdc/core/api"
	"github.com/zilliztech/milvus-cdc/core/util"
	"github.com/zilliztech/milvus-cdc/core/verifkit/fakeetcd"
	"github.com/zilliztech/milvus-cdc/core/verifkit/srccat"
)

type (
	catalog = srccat.Catalog
	catOp   = srccat.Op
	catColl = srccat.Coll
	catPart = srccat.Part
	catDB   = srccat.DB
)

const (
	catRoot = srccat.Root
	catMeta = srccat.Meta
)

func catSetPartName(f func(db int64) string)    { srccat.PartName = f }
func newCatalog() *catalog                      { return srccat.New() }
func catBuild(hist []catOp) (*catalog, bool)    { return srccat.Build(hist) }

// newVerifEtcdOp builds the real EtcdOp white-box around a fake etcd client (NewEtcdOp dials a server).
func newVerifEtcdOp(fe *fakeetcd.Fake, target api.TargetAPI) *EtcdOp {
	return &EtcdOp{
		endpoints:             []string{"fake"},
		rootPath:              catRoot,
		metaSubPath:           catMeta,
		defaultPartitionName:  "_default",
		etcdClient:            fe.Client(),
		retryOptions:          util.NoRetryOption(),
		handlerWatchEventPool: conc.NewPool[struct{}](16),
		startWatch:            make(chan struct{}),
		targetMilvus:          target,
	}
}
