// Package ev is the result channel between a harness test binary and /verif/bin/check.
// A harness fills a Result and calls Write(); the driver merges shard results, matches
// violations against known_findings.json and writes /verif/evidence/<id>.json.
package ev

import (
	"encoding/json"
	"fmt"
	"os"
	"sort"
	"strconv"
	"strings"
	"sync"
	"time"
)

type Violation struct {
	Sig    string      `json:"sig"`    // stable signature (kind + structural pattern)
	Detail string      `json:"detail"` // human readable
	Replay interface{} `json:"replay"` // scenario + choices / op list, enough to replay without the explorer
}

type Result struct {
	mu          sync.Mutex
	Property    string                 `json:"property"`
	Part        string                 `json:"part"`
	Tier        string                 `json:"tier"`
	Shard       string                 `json:"shard"`
	Evaluations int64                  `json:"evaluations"`
	States      int64                  `json:"states"`
	Transitions int64                  `json:"transitions"`
	Traces      int64                  `json:"traces_validated_against_impl"`
	Nontrivial  int64                  `json:"distinct_nontrivial"`
	Outcomes    map[string]int64       `json:"outcomes"` // distinct observed outcomes -> count
	Rule        string                 `json:"rule"`
	Samples     []interface{}          `json:"samples"`
	Exhaustive  bool                   `json:"exhaustive"`
	Bounds      map[string]interface{} `json:"bounds"`
	Extra       map[string]interface{} `json:"extra"`
	Assumptions []string               `json:"assumptions"`
	Violations  []Violation            `json:"violations"`
	WallS       float64                `json:"wall_s"`
	start       time.Time
	vioSeen     map[string]int
}

func New(property, part string) *Result {
	return &Result{
		Property: property, Part: part, Tier: Tier(), Shard: os.Getenv("VERIF_SHARD"),
		Outcomes: map[string]int64{}, Bounds: map[string]interface{}{}, Extra: map[string]interface{}{},
		Exhaustive: true, start: time.Now(), vioSeen: map[string]int{},
	}
}

func Tier() string {
	t := os.Getenv("VERIF_TIER")
	if t == "" {
		t = "quick"
	}
	return t
}

func Thorough() bool { return Tier() == "thorough" }

// Shard returns (index, count) from VERIF_SHARD="i/n" (default 0/1).
func Shard() (int, int) {
	s := os.Getenv("VERIF_SHARD")
	if s == "" {
		return 0, 1
	}
	p := strings.SplitN(s, "/", 2)
	i, _ := strconv.Atoi(p[0])
	n, _ := strconv.Atoi(p[1])
	if n <= 0 {
		return 0, 1
	}
	return i, n
}

// Mine reports whether work item idx belongs to this shard.
func Mine(idx int) bool {
	i, n := Shard()
	return idx%n == i
}

// Deadline returns the internal wall-clock budget for this run (seconds) from VERIF_BUDGET_S.
func Budget(def time.Duration) time.Duration {
	if s := os.Getenv("VERIF_BUDGET_S"); s != "" {
		if v, err := strconv.Atoi(s); err == nil {
			return time.Duration(v) * time.Second
		}
	}
	return def
}

func (r *Result) Sample(s interface{}) {
	r.mu.Lock()
	defer r.mu.Unlock()
	if len(r.Samples) < 6 {
		r.Samples = append(r.Samples, s)
	}
}

func (r *Result) Outcome(o string) {
	r.mu.Lock()
	r.Outcomes[o]++
	r.mu.Unlock()
}

// Violate records a violation; at most 3 per signature are kept (the count is kept in Extra).
func (r *Result) Violate(sig, detail string, replay interface{}) {
	r.mu.Lock()
	defer r.mu.Unlock()
	r.vioSeen[sig]++
	if r.vioSeen[sig] <= 3 {
		r.Violations = append(r.Violations, Violation{Sig: sig, Detail: detail, Replay: replay})
	}
}

func (r *Result) NViolations() int {
	r.mu.Lock()
	defer r.mu.Unlock()
	n := 0
	for _, c := range r.vioSeen {
		n += c
	}
	return n
}

func (r *Result) Write() {
	r.mu.Lock()
	defer r.mu.Unlock()
	r.WallS = time.Since(r.start).Seconds()
	vc := map[string]int{}
	for k, v := range r.vioSeen {
		vc[k] = v
	}
	r.Extra["violation_counts"] = vc
	// keep outcomes bounded
	if len(r.Outcomes) > 200 {
		keys := make([]string, 0, len(r.Outcomes))
		for k := range r.Outcomes {
			keys = append(keys, k)
		}
		sort.Strings(keys)
		r.Extra["distinct_outcomes"] = len(keys)
		o := map[string]int64{}
		for _, k := range keys[:200] {
			o[k] = r.Outcomes[k]
		}
		r.Outcomes = o
	} else {
		r.Extra["distinct_outcomes"] = len(r.Outcomes)
	}
	out := os.Getenv("VERIF_OUT")
	if out == "" {
		b, _ := json.MarshalIndent(r, "", " ")
		fmt.Println(string(b))
		return
	}
	b, err := json.Marshal(r)
	if err != nil {
		panic(err)
	}
	tmp := out + ".tmp"
	if err := os.WriteFile(tmp, b, 0o644); err != nil {
		panic(err)
	}
	if err := os.Rename(tmp, out); err != nil {
		panic(err)
	}
}
