package writer

// fakedown: recording api.DataHandler + api.ReplicateMeta used by the C07/C08/C09/C20 harnesses.

import (
	"context"
	"encoding/base64"
	"encoding/json"
	"fmt"
	"sync"

	"github.com/milvus-io/milvus-proto/go-api/v2/commonpb"
	"github.com/milvus-io/milvus/pkg/mq/msgstream"
	"google.golang.org/protobuf/proto"
	"google.golang.org/protobuf/reflect/protoreflect"

	"github.com/zilliztech/milvus-cdc/core/api"
	"github.com/zilliztech/milvus-cdc/core/config"
)

func jsonUnmarshal(b []byte, v interface{}) error { return json.Unmarshal(b, v) }

type fdCall struct {
	Kind  string
	Param interface{}
}

type fakeDown struct {
	mu     sync.Mutex
	calls  []fdCall
	answer func(kind string, param interface{}) error // nil => ok
	gate   func(kind string, param interface{})       // optional scheduling hook (called before answering)
}

func (f *fakeDown) rec(kind string, p interface{}) error {
	if f.gate != nil {
		f.gate(kind, p)
	}
	f.mu.Lock()
	f.calls = append(f.calls, fdCall{kind, p})
	f.mu.Unlock()
	if f.answer != nil {
		return f.answer(kind, p)
	}
	return nil
}

func (f *fakeDown) reset() { f.mu.Lock(); f.calls = nil; f.mu.Unlock() }

func (f *fakeDown) kinds() []string {
	var ks []string
	for _, c := range f.calls {
		ks = append(ks, c.Kind)
	}
	return ks
}

func (f *fakeDown) CreateCollection(ctx context.Context, p *api.CreateCollectionParam) error {
	return f.rec("CreateCollection", p)
}
func (f *fakeDown) DropCollection(ctx context.Context, p *api.DropCollectionParam) error {
	return f.rec("DropCollection", p)
}
func (f *fakeDown) CreatePartition(ctx context.Context, p *api.CreatePartitionParam) error {
	return f.rec("CreatePartition", p)
}
func (f *fakeDown) DropPartition(ctx context.Context, p *api.DropPartitionParam) error {
	return f.rec("DropPartition", p)
}
func (f *fakeDown) Insert(ctx context.Context, p *api.InsertParam) error { return f.rec("Insert", p) }
func (f *fakeDown) Delete(ctx context.Context, p *api.DeleteParam) error { return f.rec("Delete", p) }
func (f *fakeDown) Flush(ctx context.Context, p *api.FlushParam) error   { return f.rec("Flush", p) }
func (f *fakeDown) LoadCollection(ctx context.Context, p *api.LoadCollectionParam) error {
	return f.rec("LoadCollection", p)
}
func (f *fakeDown) ReleaseCollection(ctx context.Context, p *api.ReleaseCollectionParam) error {
	return f.rec("ReleaseCollection", p)
}
func (f *fakeDown) LoadPartitions(ctx context.Context, p *api.LoadPartitionsParam) error {
	return f.rec("LoadPartitions", p)
}
func (f *fakeDown) ReleasePartitions(ctx context.Context, p *api.ReleasePartitionsParam) error {
	return f.rec("ReleasePartitions", p)
}
func (f *fakeDown) CreateIndex(ctx context.Context, p *api.CreateIndexParam) error {
	return f.rec("CreateIndex", p)
}
func (f *fakeDown) DropIndex(ctx context.Context, p *api.DropIndexParam) error {
	return f.rec("DropIndex", p)
}
func (f *fakeDown) AlterIndex(ctx context.Context, p *api.AlterIndexParam) error {
	return f.rec("AlterIndex", p)
}
func (f *fakeDown) CreateDatabase(ctx context.Context, p *api.CreateDatabaseParam) error {
	return f.rec("CreateDatabase", p)
}
func (f *fakeDown) DropDatabase(ctx context.Context, p *api.DropDatabaseParam) error {
	return f.rec("DropDatabase", p)
}
func (f *fakeDown) AlterDatabase(ctx context.Context, p *api.AlterDatabaseParam) error {
	return f.rec("AlterDatabase", p)
}
func (f *fakeDown) ReplicateMessage(ctx context.Context, p *api.ReplicateMessageParam) error {
	err := f.rec("ReplicateMessage", p)
	if err == nil {
		// the proxy answers with the downstream position of the last message (base64)
		p.TargetMsgPosition = base64.StdEncoding.EncodeToString([]byte(fmt.Sprintf("tgt:%s:%d", p.ChannelName, p.EndTs)))
	}
	return err
}
func (f *fakeDown) DescribeCollection(ctx context.Context, p *api.DescribeCollectionParam) error {
	return f.rec("DescribeCollection", p)
}
func (f *fakeDown) DescribeDatabase(ctx context.Context, p *api.DescribeDatabaseParam) error {
	return f.rec("DescribeDatabase", p)
}
func (f *fakeDown) DescribePartition(ctx context.Context, p *api.DescribePartitionParam) error {
	return f.rec("DescribePartition", p)
}
func (f *fakeDown) CreateUser(ctx context.Context, p *api.CreateUserParam) error {
	return f.rec("CreateUser", p)
}
func (f *fakeDown) DeleteUser(ctx context.Context, p *api.DeleteUserParam) error {
	return f.rec("DeleteUser", p)
}
func (f *fakeDown) UpdateUser(ctx context.Context, p *api.UpdateUserParam) error {
	return f.rec("UpdateUser", p)
}
func (f *fakeDown) CreateRole(ctx context.Context, p *api.CreateRoleParam) error {
	return f.rec("CreateRole", p)
}
func (f *fakeDown) DropRole(ctx context.Context, p *api.DropRoleParam) error {
	return f.rec("DropRole", p)
}
func (f *fakeDown) OperateUserRole(ctx context.Context, p *api.OperateUserRoleParam) error {
	return f.rec("OperateUserRole", p)
}
func (f *fakeDown) OperatePrivilege(ctx context.Context, p *api.OperatePrivilegeParam) error {
	return f.rec("OperatePrivilege", p)
}

var _ api.DataHandler = (*fakeDown)(nil)

// fakeMeta: api.ReplicateMeta recorder (RemoveTaskMsg is all the writer's DDL paths use).
type fakeMeta struct {
	removed []string
	fail    error
}

func (m *fakeMeta) UpdateTaskDropCollectionMsg(ctx context.Context, msg api.TaskDropCollectionMsg) (bool, error) {
	return false, nil
}
func (m *fakeMeta) GetTaskDropCollectionMsg(ctx context.Context, taskID string, msgID string) ([]api.TaskDropCollectionMsg, error) {
	return nil, nil
}
func (m *fakeMeta) UpdateTaskDropPartitionMsg(ctx context.Context, msg api.TaskDropPartitionMsg) (bool, error) {
	return false, nil
}
func (m *fakeMeta) GetTaskDropPartitionMsg(ctx context.Context, taskID string, msgID string) ([]api.TaskDropPartitionMsg, error) {
	return nil, nil
}
func (m *fakeMeta) RemoveTaskMsg(ctx context.Context, taskID string, msgID string) error {
	m.removed = append(m.removed, taskID+"/"+msgID)
	return m.fail
}

var _ api.ReplicateMeta = (*fakeMeta)(nil)

func newVerifWriter(fd *fakeDown, replicateID string, dropped map[string]map[string]uint64) (*ChannelWriter, *fakeMeta) {
	fm := &fakeMeta{}
	w := NewChannelWriter(fd, fm, config.WriterConfig{
		MessageBufferSize: 4,
		Retry:             config.RetrySettings{RetryTimes: 1, InitBackOff: 1, MaxBackOff: 1},
		ReplicateID:       replicateID,
	}, dropped, "milvus").(*ChannelWriter)
	return w, fm
}

// decodeLikeProxy decodes one serialized message the way the Milvus proxy does:
// header -> msg type -> Milvus' own unmarshal dispatcher.
var fdDispatcher = (&msgstream.ProtoUDFactory{}).NewUnmarshalDispatcher()

func decodeLikeProxy(b []byte) (msgstream.TsMsg, error) {
	header := &commonpb.MsgHeader{}
	if err := proto.Unmarshal(b, header); err != nil {
		return nil, err
	}
	if header.GetBase() == nil {
		return nil, fmt.Errorf("no base in header")
	}
	return fdDispatcher.Unmarshal(b, header.GetBase().GetMsgType())
}

func protoreflectString(s string) protoreflect.Value { return protoreflect.ValueOfString(s) }

// setStrField sets a string field of a proto message by any of its candidate proto names.
func setStrField(m proto.Message, val string, names ...string) bool {
	r := m.ProtoReflect()
	for _, n := range names {
		if f := r.Descriptor().Fields().ByName(protoreflect.Name(n)); f != nil {
			r.Set(f, protoreflect.ValueOfString(val))
			return true
		}
	}
	return false
}

func getStrField(m proto.Message, names ...string) (string, bool) {
	r := m.ProtoReflect()
	for _, n := range names {
		if f := r.Descriptor().Fields().ByName(protoreflect.Name(n)); f != nil {
			return r.Get(f).String(), true
		}
	}
	return "", false
}
