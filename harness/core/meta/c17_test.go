package meta

// C17: explicit-state BFS over report / remove / reload histories on the real ReplicateMeteImpl
// over a JSON-serialising in-memory api.ReplicateStore, compared after every step with a
// reference union (a map of sets).

import (
	"context"
	"encoding/json"
	"fmt"
	"os"
	"sort"
	"strings"
	"testing"
	"time"

	"github.com/zilliztech/milvus-cdc/core/api"
	"github.com/zilliztech/milvus-cdc/core/verifkit/ev"
)

type c17Store struct{ kv map[string]string }

func (s *c17Store) Get(ctx context.Context, key string, withPrefix bool) ([]api.MetaMsg, error) {
	var keys []string
	for k := range s.kv {
		if k == key || (withPrefix && strings.HasPrefix(k, key)) {
			keys = append(keys, k)
		}
	}
	sort.Strings(keys)
	var out []api.MetaMsg
	for _, k := range keys {
		var m api.MetaMsg
		if err := json.Unmarshal([]byte(s.kv[k]), &m); err != nil {
			return nil, err
		}
		out = append(out, m)
	}
	return out, nil
}

func (s *c17Store) Put(ctx context.Context, key string, value api.MetaMsg) error {
	b, err := json.Marshal(value)
	if err != nil {
		return err
	}
	s.kv[key] = string(b)
	return nil
}

func (s *c17Store) Remove(ctx context.Context, key string) error {
	delete(s.kv, key)
	return nil
}

type c17Op struct {
	Kind   string   `json:"k"` // report | remove | reload
	Task   int      `json:"t"`
	Msg    int      `json:"m"` // 0: drop collection, 1: drop partition
	Shards []string `json:"s,omitempty"`
}

func (o c17Op) String() string {
	switch o.Kind {
	case "report":
		return fmt.Sprintf("report(t%d,m%d,%v)", o.Task, o.Msg, o.Shards)
	case "remove":
		return fmt.Sprintf("remove(t%d,m%d)", o.Task, o.Msg)
	}
	return "reload"
}

var c17Tasks = []string{"task1", "task10"}

// messages: 0 = drop of collection 7, 1 = drop of partition 70 of collection 7, 2 = drop of collection 8 (a second
// pending message of the same kind for one task - two collections of a task dropped at about the same time)
func c17MsgID(m int) string {
	switch m {
	case 0:
		return api.GetDropCollectionMsgID(7)
	case 2:
		return api.GetDropCollectionMsgID(8)
	}
	return api.GetDropPartitionMsgID(7, 70)
}

// c17Msgs: the messages a task reports in the BFS (the second same-kind message only for the first task: it doubles
// nothing that the pair of tasks does not already cover)
func c17Msgs(task int) []int {
	if task == 0 {
		return []int{0, 1, 2}
	}
	return []int{0, 1}
}

// c17Targets: the target list of a message in shard order (v0, v1, v2), as the channel manager hands it over. n < 10:
// physical channel names that happen to be in lexicographic order; n = 10 + k: k shards whose physical channels are not
// (dml_9 before dml_10, a collection placed across the wrap-around of the channel pool).
func c17Targets(n int) []string {
	all := []string{"ch1_7v0", "ch2_7v1", "ch3_7v2"}
	if n >= 10 {
		all, n = []string{"ch9_7v0", "ch10_7v1", "ch2_7v2"}, n-10
	}
	return all[:n]
}

func c17Set(xs []string) string {
	ys := append([]string{}, xs...)
	sort.Strings(ys)
	// as a set
	var out []string
	for i, y := range ys {
		if i == 0 || ys[i-1] != y {
			out = append(out, y)
		}
	}
	return strings.Join(out, "+")
}

// memory projection of the real object: "task/msg=set;..."
func c17Mem(r *ReplicateMeteImpl) map[string]string {
	out := map[string]string{}
	for t, ms := range r.dropCollectionMsgs {
		for id, m := range ms {
			out[t+"/"+id] = "C:" + c17Set(m.Base.ReadyChannels)
		}
	}
	for t, ms := range r.dropPartitionMsgs {
		for id, m := range ms {
			out[t+"/"+id] = "P:" + c17Set(m.Base.ReadyChannels)
		}
	}
	return out
}

func c17StoreDump(s *c17Store) map[string]string {
	out := map[string]string{}
	for k, v := range s.kv {
		var m api.MetaMsg
		_ = json.Unmarshal([]byte(v), &m)
		t, id := GetKeyDetail(k)
		kind := "C:"
		if m.Type == api.DropPartitionMetaMsgType {
			kind = "P:"
		}
		out[t+"/"+id] = kind + c17Set(m.Base.ReadyChannels)
	}
	return out
}

func c17Flat(m map[string]string) string {
	var ks []string
	for k, v := range m {
		ks = append(ks, k+"="+v)
	}
	sort.Strings(ks)
	return strings.Join(ks, ";")
}

type c17Run struct {
	viol    string
	key     string
	nontriv bool
}

func c17Exec(nTargets int, hist []c17Op) *c17Run {
	run := &c17Run{}
	ctx := context.Background()
	store := &c17Store{kv: map[string]string{}}
	impl, err := NewReplicateMetaImpl(store)
	if err != nil {
		run.viol = "new: " + err.Error()
		return run
	}
	ref := map[string]map[string]bool{} // task/msg -> set of shards
	refKind := map[string]string{}
	targets := c17Targets(nTargets)
	for step, op := range hist {
		task, id := "", ""
		if op.Kind != "reload" {
			task, id = c17Tasks[op.Task], c17MsgID(op.Msg)
		}
		k := task + "/" + id
		switch op.Kind {
		case "report":
			base := api.BaseTaskMsg{TaskID: task, MsgID: id, TargetChannels: append([]string{}, targets...), ReadyChannels: append([]string{}, op.Shards...)}
			var ready bool
			var err error
			if op.Msg != 1 {
				ready, err = impl.UpdateTaskDropCollectionMsg(ctx, api.TaskDropCollectionMsg{Base: base, DatabaseName: "db", CollectionName: "c", DropTS: 100})
				refKind[k] = "C:"
			} else {
				ready, err = impl.UpdateTaskDropPartitionMsg(ctx, api.TaskDropPartitionMsg{Base: base, DatabaseName: "db", CollectionName: "c", PartitionName: "p", DropTS: 100})
				refKind[k] = "P:"
			}
			if err != nil {
				run.viol = fmt.Sprintf("error: step %d %v: %v", step, op, err)
				return run
			}
			if ref[k] == nil {
				ref[k] = map[string]bool{}
			} else {
				run.nontriv = true // an accumulating report
			}
			for _, s := range op.Shards {
				ref[k][s] = true
			}
			want := len(ref[k]) == len(targets)
			if ready != want {
				run.viol = fmt.Sprintf("ready-answer: step %d %v returned ready=%v, union of reports=%v targets=%v", step, op, ready, c17Keys(ref[k]), targets)
				return run
			}
		case "remove":
			if err := impl.RemoveTaskMsg(ctx, task, id); err != nil {
				run.viol = fmt.Sprintf("error: step %d %v: %v", step, op, err)
				return run
			}
			if ref[k] != nil {
				run.nontriv = true
			}
			delete(ref, k)
		case "reload":
			n, err := NewReplicateMetaImpl(store)
			if err != nil {
				run.viol = fmt.Sprintf("error: step %d reload: %v", step, err)
				return run
			}
			if a, b := c17Flat(c17Mem(impl)), c17Flat(c17Mem(n)); a != b {
				run.viol = fmt.Sprintf("reload-differs: step %d memory before reload {%s}, after reload from the store {%s}", step, a, b)
				return run
			}
			impl = n
		}
		// memory == store == reference after every step
		want := map[string]string{}
		for kk, set := range ref {
			want[kk] = refKind[kk] + c17Set(c17Keys(set))
		}
		w, m, s := c17Flat(want), c17Flat(c17Mem(impl)), c17Flat(c17StoreDump(store))
		if s != w {
			run.viol = fmt.Sprintf("store-union: step %d %v store {%s}, union of reports {%s}", step, op, s, w)
			return run
		}
		if m != w {
			if op.Kind == "remove" {
				run.viol = fmt.Sprintf("memory-remove: step %d %v memory {%s}, expected {%s}", step, op, m, w)
			} else {
				run.viol = fmt.Sprintf("memory-union: step %d %v memory {%s}, union of reports {%s}", step, op, m, w)
			}
			return run
		}
		// and through the public read API
		for kk, set := range ref {
			parts := strings.SplitN(kk, "/", 2)
			var got []string
			var ready bool
			if refKind[kk] == "C:" {
				ms, err := impl.GetTaskDropCollectionMsg(ctx, parts[0], parts[1])
				if err != nil || len(ms) != 1 {
					run.viol = fmt.Sprintf("api-get: step %d GetTaskDropCollectionMsg(%s) = %v, %v", step, kk, ms, err)
					return run
				}
				got, ready = ms[0].Base.ReadyChannels, ms[0].Base.IsReady()
			} else {
				ms, err := impl.GetTaskDropPartitionMsg(ctx, parts[0], parts[1])
				if err != nil || len(ms) != 1 {
					run.viol = fmt.Sprintf("api-get: step %d GetTaskDropPartitionMsg(%s) = %v, %v", step, kk, ms, err)
					return run
				}
				got, ready = ms[0].Base.ReadyChannels, ms[0].Base.IsReady()
			}
			if c17Set(got) != c17Set(c17Keys(set)) || ready != (len(set) == len(targets)) {
				run.viol = fmt.Sprintf("api-get: step %d %s read back %v ready=%v, union %v", step, kk, got, ready, c17Keys(set))
				return run
			}
		}
	}
	run.key = c17Flat(c17Mem(impl)) + "|" + c17Flat(c17StoreDump(store))
	return run
}

func c17Keys(m map[string]bool) []string {
	var ks []string
	for k := range m {
		ks = append(ks, k)
	}
	sort.Strings(ks)
	return ks
}

func c17Ops(nTargets int, multi bool) []c17Op {
	var ops []c17Op
	tg := c17Targets(nTargets)
	for t := range c17Tasks {
		for _, m := range c17Msgs(t) {
			for _, s := range tg {
				ops = append(ops, c17Op{Kind: "report", Task: t, Msg: m, Shards: []string{s}})
			}
			if multi && len(tg) >= 2 {
				ops = append(ops, c17Op{Kind: "report", Task: t, Msg: m, Shards: []string{tg[0], tg[1]}})
			}
		}
	}
	for t := range c17Tasks {
		for _, m := range c17Msgs(t) {
			ops = append(ops, c17Op{Kind: "remove", Task: t, Msg: m})
		}
	}
	ops = append(ops, c17Op{Kind: "reload"})
	return ops
}

func TestVerifC17Meta(t *testing.T) {
	res := ev.New("C17", "meta")
	defer res.Write()
	if p := os.Getenv("VERIF_REPLAY"); p != "" {
		var f struct {
			Replay struct {
				Targets int     `json:"targets"`
				History []c17Op `json:"history"`
			} `json:"replay"`
		}
		b, _ := os.ReadFile(p)
		if err := json.Unmarshal(b, &f); err != nil {
			t.Fatal(err)
		}
		r := c17Exec(f.Replay.Targets, f.Replay.History)
		if r.viol != "" {
			fmt.Println("REPLAY-VIOLATION", r.viol)
			res.Violate("C17/"+strings.SplitN(r.viol, ":", 2)[0], r.viol, f.Replay)
		} else {
			fmt.Println("REPLAY-OK")
		}
		return
	}
	depth := 7
	if ev.Thorough() {
		depth = 9
	}
	res.Bounds["depth"] = depth
	res.Rule = "BFS over histories of {report(task, drop-collection|drop-partition message, shard subset), remove(task, message), reload from the store} for 2 tasks (ids prefix of each other) x 2-3 messages (collection drop, partition drop, a second collection drop) x target lists of 1..3 shards (in and out of lexicographic order); each history replayed on a fresh real ReplicateMeteImpl over a JSON-serialising store; memory (white-box maps), store dump, API read-back and returned ready flag compared with a reference union after every step; states deduplicated on (memory, store) = the entire mutable state; non-trivial = distinct states reached through an accumulating report or a removal of a present message"
	deadline := time.Now().Add(ev.Budget(120 * time.Second))
	idx := 0
	for _, nT := range []int{1, 2, 3, 12, 13} {
		for _, multi := range []bool{false, true} {
			if multi && !ev.Thorough() {
				continue
			}
			idx++
			if !c17BFS(res, nT, multi, depth, deadline) {
				res.Exhaustive = false
			}
		}
	}
}

func c17BFS(res *ev.Result, nT int, multi bool, depth int, deadline time.Time) bool {
	ops := c17Ops(nT, multi)
	seen := map[string]bool{c17Exec(nT, nil).key: true}
	nontriv := map[string]bool{}
	res.States++
	frontier := [][]c17Op{nil}
	work := 0
	for d := 0; d < depth && len(frontier) > 0; d++ {
		var next [][]c17Op
		for _, h := range frontier {
			work++
			if !ev.Mine(work) {
				// sharding by frontier node would break dedup; shard by first op instead
			}
			if time.Now().After(deadline) {
				return false
			}
			for oi, op := range ops {
				if len(h) == 0 && !ev.Mine(oi) {
					continue
				}
				nh := append(append([]c17Op{}, h...), op)
				r := c17Exec(nT, nh)
				res.Transitions++
				res.Evaluations++
				res.Traces++
				if r.viol != "" {
					kind := strings.SplitN(r.viol, ":", 2)[0]
					what := "coll"
					if op.Msg == 1 {
						what = "part"
					}
					res.Violate("C17/"+kind+"/"+op.Kind+"-"+what, fmt.Sprintf("targets=%d history=%v: %s", nT, nh, r.viol), map[string]interface{}{"targets": nT, "history": nh})
					continue
				}
				if r.nontriv {
					nontriv[r.key] = true
				}
				if !seen[r.key] {
					seen[r.key] = true
					res.States++
					next = append(next, nh)
					if len(next)%503 == 1 {
						res.Sample(map[string]interface{}{"targets": nT, "history": fmt.Sprint(nh), "state": r.key})
					}
				}
			}
		}
		frontier = next
	}
	if len(frontier) == 0 {
		res.Extra[fmt.Sprintf("closed_at_fixpoint_T%d_multi%v", nT, multi)] = true
	}
	res.Nontrivial += int64(len(nontriv))
	res.Outcome(fmt.Sprintf("T%d:%d", nT, len(seen)))
	return true
}
