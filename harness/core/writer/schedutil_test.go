package writer

import (
	"fmt"
	"os"
	"testing"

	"github.com/zilliztech/milvus-cdc/core/verifkit/ev"
	"github.com/zilliztech/milvus-cdc/core/verifkit/sched"
)

// schedReport copies the explorer's statistics and findings into the result.
func schedReport(res *ev.Result, e *sched.Explorer, prop string) {
	res.Evaluations += e.Stats.Executions
	res.States += e.Stats.Executions
	res.Transitions += e.Stats.Executions
	res.Traces += e.Stats.Executions
	res.Nontrivial += int64(len(e.Stats.Nontrivial))
	res.Exhaustive = res.Exhaustive && e.Stats.Exhaustive
	res.Bounds["deviation_bound"] = e.Bound
	res.Bounds["max_depth"] = e.Stats.MaxDepth
	res.Extra["executions_by_deviations"] = fmt.Sprint(e.Stats.ByCost)
	res.Extra["divergent_schedules"] = e.Stats.Divergent
	res.Extra["replay_retries"] = e.Stats.Retries
	res.Extra["step_capped"] = e.Stats.StepCapped
	for k, v := range e.Stats.Outcomes {
		res.Outcomes[k] += v
	}
	n := 0
	for k := range e.Stats.Outcomes {
		if n < 4 {
			res.Sample(map[string]interface{}{"outcome": k})
		}
		n++
	}
	for _, f := range e.Found {
		res.Violate(f.Sig, fmt.Sprintf("scenario %s choices %v (reproduced %d/5)\nschedule: %v\n%s", f.Scenario, f.Choices, f.Reproduced, f.Trace, f.Detail), f)
	}
}

func schedReplay(t *testing.T, res *ev.Result, e *sched.Explorer, scs []*sched.Scenario, path string) {
	var f struct {
		Replay sched.Found `json:"replay"`
	}
	b, _ := os.ReadFile(path)
	if err := jsonUnmarshal(b, &f); err != nil {
		t.Fatal(err)
	}
	for _, sc := range scs {
		if sc.Name != f.Replay.Scenario {
			continue
		}
		for i := 0; i < 5; i++ {
			r, ok := e.ReplayOnce(sc, f.Replay.Choices)
			if !ok {
				fmt.Println("REPLAY-DIVERGED")
				continue
			}
			for _, v := range r.Violations {
				fmt.Println("REPLAY-VIOLATION", v.Sig, v.Detail)
				res.Violate(v.Sig, v.Detail, f.Replay)
			}
			if len(r.Violations) == 0 {
				fmt.Println("REPLAY-OK", r.Summary)
			}
			return
		}
	}
	fmt.Println("REPLAY: scenario not found", f.Replay.Scenario)
}
