//go:build verif

package metrics

import "sort"

// VerifResetTaskNum gives the process-wide task gauge a fresh state (harness accessor, overlay only).
func VerifResetTaskNum() {
	TaskNumVec.numLock.Lock()
	defer TaskNumVec.numLock.Unlock()
	TaskNumVec.initialTaskMap = map[string]struct{}{}
	TaskNumVec.runningTaskMap = map[string]struct{}{}
	TaskNumVec.pauseTaskMap = map[string]struct{}{}
}

// VerifTaskNum returns the task ids behind the per-state gauges.
func VerifTaskNum() (initial, running, paused []string) {
	TaskNumVec.numLock.RLock()
	defer TaskNumVec.numLock.RUnlock()
	ks := func(m map[string]struct{}) []string {
		var out []string
		for k := range m {
			out = append(out, k)
		}
		sort.Strings(out)
		return out
	}
	return ks(TaskNumVec.initialTaskMap), ks(TaskNumVec.runningTaskMap), ks(TaskNumVec.pauseTaskMap)
}
