package writer

// C07: pack shapes x configuration through the real HandleReplicateMessage; the bytes recorded at the
// fake DataHandler are decoded the way the Milvus proxy decodes them and compared with the pack.

import (
	"context"
	"errors"
	"fmt"
	"os"
	"strings"
	"testing"

	"github.com/milvus-io/milvus-proto/go-api/v2/commonpb"
	"github.com/milvus-io/milvus-proto/go-api/v2/msgpb"
	"github.com/milvus-io/milvus/pkg/mq/msgstream"
	"google.golang.org/protobuf/proto"

	"github.com/zilliztech/milvus-cdc/core/api"
	"github.com/zilliztech/milvus-cdc/core/verifkit/ev"
)

type c07Case struct {
	Kinds   []string    `json:"kinds"`
	DB      string      `json:"db"`
	Coll    string      `json:"coll"`
	Part    string      `json:"part"`
	ReplID  string      `json:"replicate_id"`
	Entries [][2]string `json:"entries"`
	Fail    bool        `json:"fail"`
	TwoEnds bool        `json:"two_end_positions"`
	SrcRepl string      `json:"source_replicate_info"` // "" none | "unmarked" {false, ""} | "other" {true, "a-to-b"}: the source message already carries one
}

func c07SetSrcRepl(m msgstream.TsMsg, mode string) {
	if mode == "" {
		return
	}
	req := c07Req(m)
	r := req.ProtoReflect()
	base := r.Mutable(r.Descriptor().Fields().ByName("base")).Message().Interface().(*commonpb.MsgBase)
	if mode == "unmarked" {
		base.ReplicateInfo = &commonpb.ReplicateInfo{}
	} else {
		base.ReplicateInfo = &commonpb.ReplicateInfo{IsReplicate: true, ReplicateID: "a-to-b", MsgTimestamp: 77}
	}
}

func c07Req(m msgstream.TsMsg) proto.Message {
	switch x := m.(type) {
	case *msgstream.InsertMsg:
		return x.InsertRequest
	case *msgstream.DeleteMsg:
		return x.DeleteRequest
	case *msgstream.DropPartitionMsg:
		return x.DropPartitionRequest
	case *msgstream.DropCollectionMsg:
		return x.DropCollectionRequest
	case *msgstream.ImportMsg:
		return x.ImportMsg
	case *msgstream.TimeTickMsg:
		return x.TimeTickMsg
	case *msgstream.ReplicateMsg:
		return x.ReplicateMsg
	}
	return nil
}

var c07ErrDown = errors.New("injected downstream failure")

func c07Run(cs c07Case) string {
	fd := &fakeDown{}
	if cs.Fail {
		fd.answer = func(kind string, p interface{}) error { return c07ErrDown }
	}
	w, _ := newVerifWriter(fd, cs.ReplID, nil)
	for _, e := range cs.Entries {
		w.UpdateNameMappings(map[string]string{e[0]: e[1]})
	}
	var msgs, pristine []msgstream.TsMsg
	for i, k := range cs.Kinds {
		v := opVals{DB: cs.DB, Coll: cs.Coll, Part: cs.Part, TS: uint64(5000 + i)}
		msgs = append(msgs, buildDML(k, v, i+1))
		pristine = append(pristine, buildDML(k, v, i+1))
		c07SetSrcRepl(msgs[i], cs.SrcRepl)
		c07SetSrcRepl(pristine[i], cs.SrcRepl)
	}
	endTs := uint64(5000 + len(cs.Kinds))
	pack := dmlPack(endTs, msgs...)
	pack.BeginTs = 4999
	if cs.TwoEnds {
		pack.EndPositions = append([]*msgpb.MsgPosition{{ChannelName: "tgt-ch", MsgID: []byte("first-end"), Timestamp: endTs - 1}}, pack.EndPositions...)
	}
	wantStart, wantEnd := copyMsgPositionsV(pack.StartPositions), copyMsgPositionsV(pack.EndPositions)
	cp, tp, err := w.HandleReplicateMessage(context.Background(), "tgt-ch", pack)
	if len(cs.Kinds) == 0 {
		if err == nil {
			return "empty-accepted: an empty pack was accepted"
		}
		if len(fd.calls) != 0 {
			return "empty-sent: an empty pack reached the downstream"
		}
		return ""
	}
	if len(fd.calls) != 1 || fd.calls[0].Kind != "ReplicateMessage" {
		return fmt.Sprintf("count: downstream calls %v, want exactly one ReplicateMessage", fd.kinds())
	}
	p := fd.calls[0].Param.(*api.ReplicateMessageParam)
	if cs.Fail {
		if !errors.Is(err, c07ErrDown) {
			return fmt.Sprintf("error-swallowed: downstream failed but the caller got %v", err)
		}
		return ""
	}
	if err != nil {
		return fmt.Sprintf("error: %v", err)
	}
	if p.Base == nil || p.Base.ReplicateInfo == nil || !p.Base.ReplicateInfo.IsReplicate {
		return "flag: the call is not flagged as a replication call"
	}
	if p.ChannelName != "tgt-ch" || p.BeginTs != 4999 || p.EndTs != endTs {
		return fmt.Sprintf("envelope: channel %q begin %d end %d, pack had tgt-ch %d %d", p.ChannelName, p.BeginTs, p.EndTs, 4999, endTs)
	}
	if !eqPositions(p.StartPositions, wantStart) || !eqPositions(p.EndPositions, wantEnd) {
		return fmt.Sprintf("envelope: positions %v/%v, pack had %v/%v", p.StartPositions, p.EndPositions, wantStart, wantEnd)
	}
	if string(cp) != string(wantEnd[len(wantEnd)-1].MsgID) {
		return fmt.Sprintf("checkpoint: returned %q, last end position is %q", cp, wantEnd[len(wantEnd)-1].MsgID)
	}
	if string(tp) != fmt.Sprintf("tgt:tgt-ch:%d", endTs) {
		return fmt.Sprintf("target-position: returned %q", tp)
	}
	if len(p.MsgsBytes) != len(pristine) {
		return fmt.Sprintf("count: %d serialized messages for %d pack messages", len(p.MsgsBytes), len(pristine))
	}
	for i, b := range p.MsgsBytes {
		got, err := decodeLikeProxy(b)
		if err != nil {
			return fmt.Sprintf("undecodable: message %d: %v", i, err)
		}
		src := pristine[i]
		want := proto.Clone(c07Req(src))
		wantType := src.Type()
		// expected rewriting
		if g, ok := want.(interface {
			GetDbName() string
			GetCollectionName() string
		}); ok {
			d, c := c09Ref(cs.Entries, g.GetDbName(), g.GetCollectionName())
			if !setStrField(want, d, "db_name", "dbName") || !setStrField(want, c, "collection_name", "collectionName") {
				return fmt.Sprintf("harness: no name fields in %T", want)
			}
		}
		if cs.ReplID != "" {
			if src.Type() == commonpb.MsgType_TimeTick {
				wantType = commonpb.MsgType_Replicate
				want = &msgpb.ReplicateMsg{Base: &commonpb.MsgBase{MsgType: commonpb.MsgType_Replicate, Timestamp: src.EndTs(),
					ReplicateInfo: &commonpb.ReplicateInfo{IsReplicate: true, ReplicateID: cs.ReplID}}}
			} else {
				r := want.ProtoReflect()
				base := r.Mutable(r.Descriptor().Fields().ByName("base")).Message().Interface().(*commonpb.MsgBase)
				// every message carries the configured replicate id and the mark (other fields of an info the source
				// message brought along are left alone)
				if base.ReplicateInfo == nil {
					base.ReplicateInfo = &commonpb.ReplicateInfo{}
				}
				base.ReplicateInfo.IsReplicate, base.ReplicateInfo.ReplicateID = true, cs.ReplID
			}
		}
		if got.Type() != wantType {
			return fmt.Sprintf("type: message %d decodes to %v, pack has %v", i, got.Type(), wantType)
		}
		gr := proto.Clone(c07Req(got))
		// "" and "default" name the same database
		for _, x := range []proto.Message{gr, want} {
			if d, ok := getStrField(x, "db_name", "dbName"); ok {
				setStrField(x, normDB(d), "db_name", "dbName")
			}
		}
		if !proto.Equal(gr, want) {
			return fmt.Sprintf("content: message %d (%v) decodes to %v, pack message (after name mapping / replicate marking) is %v", i, wantType, gr, want)
		}
		if src.Type() != commonpb.MsgType_TimeTick && (got.BeginTs() != src.BeginTs() || got.EndTs() != src.EndTs()) {
			return fmt.Sprintf("timestamps: message %d decodes with ts %d/%d, pack message has %d/%d", i, got.BeginTs(), got.EndTs(), src.BeginTs(), src.EndTs())
		}
	}
	return ""
}

func copyMsgPositionsV(ps []*msgpb.MsgPosition) []*msgpb.MsgPosition {
	out := make([]*msgpb.MsgPosition, len(ps))
	for i, p := range ps {
		out[i] = proto.Clone(p).(*msgpb.MsgPosition)
	}
	return out
}

func eqPositions(a, b []*msgpb.MsgPosition) bool {
	if len(a) != len(b) {
		return false
	}
	for i := range a {
		if !proto.Equal(a[i], b[i]) {
			return false
		}
	}
	return true
}

func c07Cases(maxLen int) []c07Case {
	kinds := []string{"Insert", "Delete", "DropPartition", "DropCollection", "Import", "TimeTick"}
	var seqs [][]string
	var gen func(cur []string, n int)
	gen = func(cur []string, n int) {
		seqs = append(seqs, append([]string{}, cur...))
		if n == 0 {
			return
		}
		for _, k := range kinds {
			gen(append(cur, k), n-1)
		}
	}
	gen(nil, maxLen)
	var cases []c07Case
	for _, s := range seqs {
		for _, db := range []string{"", "db1"} {
			for _, rid := range []string{"", "r"} {
				for _, shape := range []string{"none", "exact", "wholedb"} {
					for _, fail := range []bool{false, true} {
						for _, two := range []bool{false, true} {
							if two && len(s) != 2 {
								continue
							}
							for _, sr := range []string{"", "unmarked", "other"} {
								if sr != "" && (fail || two || len(s) == 0) {
									continue
								}
								cases = append(cases, c07Case{Kinds: s, DB: db, Coll: "a", Part: "p1", ReplID: rid, Entries: c09Shapes(db, "a")[shape], Fail: fail, TwoEnds: two, SrcRepl: sr})
							}
						}
					}
				}
			}
		}
	}
	return cases
}

func TestVerifC07Bytes(t *testing.T) {
	res := ev.New("C07", "bytes")
	defer res.Write()
	if p := os.Getenv("VERIF_REPLAY"); p != "" {
		var f struct {
			Replay c07Case `json:"replay"`
		}
		b, _ := os.ReadFile(p)
		if err := jsonUnmarshal(b, &f); err != nil {
			t.Fatal(err)
		}
		if msg := c07Run(f.Replay); msg != "" {
			fmt.Println("REPLAY-VIOLATION", msg)
			res.Violate("replay", msg, f.Replay)
			return
		}
		fmt.Println("REPLAY-OK")
		return
	}
	maxLen := 3
	if ev.Thorough() {
		maxLen = 4
	}
	res.Bounds["max_messages_per_pack"] = maxLen
	res.Rule = "total enumeration of packs = every sequence of <= N messages over {Insert, Delete, DropPartition, DropCollection, Import, TimeTick} (rows, pks, row ids, partition names, files from builders) x source db {\"\", db1} x replicate id {none, r} x mapping {none, exact, whole-db} x downstream {ok, error} (x one/two end positions) x replicate info already on the source messages {none, unmarked, marked with another id}; the recorded ReplicateMessageParam is decoded with Milvus' own header + unmarshal dispatcher and compared message by message with a pristine copy of the pack; non-trivial = packs with >= 2 messages, a mapping or a replicate id"
	cases := c07Cases(maxLen)
	res.Bounds["cases"] = len(cases)
	for i, cs := range cases {
		if !ev.Mine(i) {
			continue
		}
		msg := c07Run(cs)
		res.Evaluations++
		res.States++
		res.Transitions++
		res.Traces++
		if msg != "" {
			tag := strings.SplitN(msg, ":", 2)[0]
			res.Violate(fmt.Sprintf("C07/%s/rid=%v,map=%d,fail=%v", tag, cs.ReplID != "", len(cs.Entries), cs.Fail), fmt.Sprintf("case %+v: %s", cs, msg), cs)
			continue
		}
		if len(cs.Kinds) >= 2 || len(cs.Entries) > 0 || cs.ReplID != "" {
			res.Nontrivial++
		}
		res.Outcome(fmt.Sprintf("%d/%v/%d/%v", len(cs.Kinds), cs.ReplID != "", len(cs.Entries), cs.Fail))
		if i%997 == 0 {
			res.Sample(cs)
		}
	}
}
