package msgpacker

import "encoding/json"

func jsonUnmarshal(b []byte, v interface{}) error { return json.Unmarshal(b, v) }
