package server

// C10 (overlapping requests): a create is in flight (its names are registered, its record is not written yet) while
// another request on the same target - the delete of another task, or a create that fails at the store - rebuilds or
// reverts the bookkeeping. Every interleaving of the two calls at their store round trips (within the deviation bound)
// is executed by the sched engine; afterwards a second create for the collection of the first one must be refused if
// the first was accepted, and the live bookkeeping must equal a fresh reload of the store.

import (
	"fmt"
	"os"
	"testing"
	"time"

	"github.com/zilliztech/milvus-cdc/core/log"
	cdcreader "github.com/zilliztech/milvus-cdc/core/reader"
	"github.com/zilliztech/milvus-cdc/core/verifkit/ev"
	"github.com/zilliztech/milvus-cdc/core/verifkit/sched"
)

func c10ConcScenario(spec int, other string, faultAt int) *sched.Scenario {
	name := fmt.Sprintf("create(%s)||%s", c10Specs[spec].Name, other)
	if faultAt > 0 {
		name += fmt.Sprintf("!%d", faultAt)
	}
	return &sched.Scenario{Name: name, Run: func(t *testing.T, ctl *sched.Ctl) sched.Outcome {
		env := newVEnv()
		env.maxTasks = 5
		env.cdc.config.MaxTaskNum = 5
		defer env.close()
		var out sched.Outcome
		// a task that is there already (collection b), then the two overlapping calls
		if _, err := env.Create(c10Req(c10Specs[1], "t0")); err != nil {
			out.Violations = append(out.Violations, sched.Violation{Sig: "C10/conc/harness", Detail: "create(b): " + err.Error()})
			return out
		}
		drivers := map[int64]string{}
		calls := map[string]int{}
		env.fe.Hook = func(op, key string) error {
			who, ok := drivers[sched.Goid()]
			if !ok {
				return nil
			}
			calls[who]++
			ctl.Point(who, fmt.Sprintf("%s#%d", op, calls[who]), false)
			if who == "other" && faultAt > 0 && calls[who] == faultAt {
				return errC10Fault
			}
			return nil
		}
		var errA, errB error
		done := 0
		go func() {
			drivers[sched.Goid()] = "create"
			ctl.Point("create", "start", true)
			_, errA = env.Create(c10Req(c10Specs[spec], "t1"))
			done++
		}()
		go func() {
			drivers[sched.Goid()] = "other"
			ctl.Point("other", "start", true)
			switch other {
			case "delete(t0)":
				errB = env.Delete("t0")
			case "create(c)": // a create of an unrelated collection (it fails if faultAt > 0)
				_, errB = env.Create(c10Req(c10Spec{Name: "c", Legacy: "c"}, "t2"))
			}
			done++
		}()
		ctl.Loop(func() bool { return done == 2 })
		env.fe.Hook = nil
		add := func(sig, f string, a ...interface{}) {
			out.Violations = append(out.Violations, sched.Violation{Sig: "C10/conc/" + sig, Detail: fmt.Sprintf(f, a...)})
		}
		// the collection of the first create is taken (if it was accepted): the same specification again must be refused
		if errA == nil {
			if _, err := env.Create(c10Req(c10Specs[spec], "t3")); err == nil {
				add("double-owner", "create(%s) was accepted as t1 while %s ran (other: %v), and the same specification was accepted again as t3: two tasks own the same collections\nbookkeeping: %s", c10Specs[spec].Name, other, errB, c10Sets(env))
			}
		}
		live := c10Sets(env)
		env.Restart()
		if fresh := c10Sets(env); fresh != live {
			add("bookkeeping-drift", "after create(%s) [%v] || %s [%v] the bookkeeping is\n  %s\na fresh reload of the store gives\n  %s", c10Specs[spec].Name, errA, other, errB, live, fresh)
		}
		out.Summary = fmt.Sprintf("%s: create=%v other=%v", name, errA == nil, errB == nil)
		out.Nontrivial = true
		return out
	}}
}

func TestVerifC10Concurrent(t *testing.T) {
	res := ev.New("C10", "concurrent")
	defer res.Write()
	log.Info("warm up the logger outside the bubble")
	sched.StartWatchdog(90 * time.Second)
	cdcreader.VerifReleaseOutsidePools()
	bound := 2
	if ev.Thorough() {
		bound = 3
	}
	var scs []*sched.Scenario
	for _, spec := range []int{0, 6} { // a | db1/*
		scs = append(scs, c10ConcScenario(spec, "delete(t0)", 0))
		for f := 0; f <= 3; f++ {
			scs = append(scs, c10ConcScenario(spec, "create(c)", f))
		}
	}
	e := sched.NewExplorer(t, bound)
	e.Horizon = 5 * time.Second
	e.MaxSteps = 300
	e.Deadline = time.Now().Add(ev.Budget(120 * time.Second))
	e.OnExec = func(sc *sched.Scenario, choices []int) { fmt.Printf("EXEC %s %v\n", sc.Name, choices) }
	if p := os.Getenv("VERIF_REPLAY"); p != "" {
		fsReplay(t, res, e, scs, p)
		return
	}
	for i, sc := range scs {
		if !ev.Mine(i) {
			continue
		}
		e.Explore(sc)
	}
	res.Evaluations += e.Stats.Executions
	res.States += e.Stats.Executions
	res.Transitions += e.Stats.Executions
	res.Traces += e.Stats.Executions
	res.Nontrivial += int64(len(e.Stats.Nontrivial))
	res.Exhaustive = res.Exhaustive && e.Stats.Exhaustive
	res.Bounds["deviation_bound"] = bound
	res.Bounds["scenarios"] = len(scs)
	res.Extra["executions_per_scenario"] = fmt.Sprint(e.Stats.PerScenario)
	for k, v := range e.Stats.Outcomes {
		res.Outcomes[k] += v
	}
	for _, f := range e.Found {
		res.Violate(f.Sig, fmt.Sprintf("scenario %s choices %v (reproduced %d/5)\nschedule: %v\n%s", f.Scenario, f.Choices, f.Reproduced, f.Trace, f.Detail), f)
	}
	res.Rule = "sched engine: with a task for collection b in place, a create (specification a | db1/*) overlaps the delete of that task, or a create of collection c that succeeds or fails at its n-th store call (n = 1..3); scheduling points = every metadata-store round trip of the two callers; all interleavings within the deviation bound; oracle: if the first create was accepted the same specification is refused afterwards, and the live bookkeeping equals a fresh reload of the store"
}
