//go:build verif

package meta

import clientv3 "go.etcd.io/etcd/client/v3"

// NewVerifEtcdReplicateStore builds the real EtcdReplicateStore around an injected client (overlay only).
func NewVerifEtcdReplicateStore(cli *clientv3.Client, rootPath string) *EtcdReplicateStore {
	return &EtcdReplicateStore{client: cli, rootPath: rootPath}
}
