package fakemq

// Conformance of the fakemq seek / delivery rule against the code CDC runs on in production: the REAL
// msgdispatcher.Client over the REAL MqTtMsgStream, fed from an in-memory mqwrapper.Client (kit/memmq)
// instead of Pulsar / Kafka. For every legal physical-channel log up to the length bound (data messages
// of the observed vchannel, data of a foreign vchannel, time ticks; non-decreasing hybrid timestamps) and
// every seek position (message id of any tick x position timestamp from the value grid, and "no position"
// = latest after every published prefix) the sequence of data messages delivered to the registered
// vchannel must be the same in both, and so must the closing time.

import (
	"context"
	"encoding/json"
	"fmt"
	"os"
	"strings"
	"testing"
	"time"

	"github.com/milvus-io/milvus-proto/go-api/v2/commonpb"
	"github.com/milvus-io/milvus-proto/go-api/v2/msgpb"
	"github.com/milvus-io/milvus/pkg/mq/common"
	"github.com/milvus-io/milvus/pkg/mq/msgdispatcher"
	"github.com/milvus-io/milvus/pkg/mq/msgstream"

	"github.com/zilliztech/milvus-cdc/core/util"
	"github.com/zilliztech/milvus-cdc/core/verifkit/ev"
	"github.com/zilliztech/milvus-cdc/core/verifkit/memmq"
)

const (
	cfPCh   = "src-dml_0"
	cfVCh   = "src-dml_0_101v0"
	cfOther = "src-dml_0_202v0"
)

type cfItem struct {
	Kind byte   `json:"k"` // 'D' data of the observed vchannel, 'X' data of another vchannel, 'T' tick
	Ts   uint64 `json:"ts"`
}

type cfCase struct {
	Log    []cfItem `json:"log"`
	Tick   int      `json:"seek_tick"` // index into the log of the tick whose id is the seek position; -1 = no position
	PosTs  uint64   `json:"pos_ts"`
	Prefix int      `json:"published_prefix"` // Tick == -1: number of log items published before the subscription
}

func cfInsert(v string, coll int64, id int64, ts uint64) msgstream.TsMsg {
	return &msgstream.InsertMsg{
		BaseMsg: msgstream.BaseMsg{BeginTimestamp: ts, EndTimestamp: ts, HashValues: []uint32{0}},
		InsertRequest: &msgpb.InsertRequest{
			Base:         &commonpb.MsgBase{MsgType: commonpb.MsgType_Insert, MsgID: id, Timestamp: ts, SourceID: 1},
			ShardName:    v,
			CollectionID: coll, CollectionName: "c", PartitionName: "_default", PartitionID: 1,
			NumRows: 1, RowIDs: []int64{id}, Timestamps: []uint64{ts}, Version: msgpb.InsertDataVersion_ColumnBased,
		},
	}
}

func cfTick(ts uint64) msgstream.TsMsg {
	return &msgstream.TimeTickMsg{
		BaseMsg:     msgstream.BaseMsg{BeginTimestamp: ts, EndTimestamp: ts, HashValues: []uint32{0}},
		TimeTickMsg: &msgpb.TimeTickMsg{Base: &commonpb.MsgBase{MsgType: commonpb.MsgType_TimeTick, MsgID: 0, Timestamp: ts, SourceID: 1}},
	}
}

func cfMsg(i int, it cfItem) msgstream.TsMsg {
	switch it.Kind {
	case 'D':
		return cfInsert(cfVCh, 101, int64(1000+i), it.Ts)
	case 'X':
		return cfInsert(cfOther, 202, int64(2000+i), it.Ts)
	}
	return cfTick(it.Ts)
}

// run the case on the real stack; returns the delivered data ids and the closing time of the last pack read
func cfReal(cs cfCase) ([]int64, uint64, error) {
	cli := memmq.New()
	ids := make([]memmq.ID, len(cs.Log))
	produce := func(from, to int) error {
		for i := from; i < to; i++ {
			id, err := cli.AppendTsMsg(cfPCh, cfMsg(i, cs.Log[i]))
			if err != nil {
				return err
			}
			ids[i] = id
		}
		return nil
	}
	final := cs.Log[len(cs.Log)-1].Ts
	dc := msgdispatcher.NewClient(&memmq.Factory{C: cli}, "verif", 1)
	defer dc.Close()
	ctx, cancel := context.WithTimeout(context.Background(), 20*time.Second)
	defer cancel()
	var ch <-chan *msgstream.MsgPack
	var err error
	if cs.Tick >= 0 {
		if err = produce(0, len(cs.Log)); err != nil {
			return nil, 0, err
		}
		pos := &msgpb.MsgPosition{ChannelName: cfVCh, MsgID: ids[cs.Tick].Serialize(), Timestamp: cs.PosTs}
		ch, err = dc.Register(ctx, msgdispatcher.NewStreamConfig(cfVCh, pos, common.SubscriptionPositionUnknown))
	} else {
		if err = produce(0, cs.Prefix); err != nil {
			return nil, 0, err
		}
		ch, err = dc.Register(ctx, msgdispatcher.NewStreamConfig(cfVCh, nil, common.SubscriptionPositionLatest))
		if err == nil {
			err = produce(cs.Prefix, len(cs.Log))
		}
	}
	if err != nil {
		return nil, 0, err
	}
	defer dc.Deregister(cfVCh)
	var got []int64
	var end uint64
	for end < final {
		select {
		case p, ok := <-ch:
			if !ok {
				return got, end, fmt.Errorf("stream closed at %d", end)
			}
			if p.EndTs < end {
				return got, end, fmt.Errorf("closing time went back from %d to %d", end, p.EndTs)
			}
			end = p.EndTs
			for _, m := range p.Msgs {
				if m.Type() != commonpb.MsgType_TimeTick {
					got = append(got, m.ID())
				}
			}
		case <-ctx.Done():
			return got, end, fmt.Errorf("timeout waiting for the pack that closes at %d (at %d)", final, end)
		}
	}
	return got, end, nil
}

// the same case on fakemq: the pchannel log is cut into packs at the ticks, foreign data left out
func cfFake(cs cfCase) ([]int64, uint64, error) {
	var packs []*msgstream.MsgPack
	tickPack := map[int]int{} // log index of a tick -> pack index
	cur := &msgstream.MsgPack{}
	var begin uint64
	prefixPacks := 0
	for i, it := range cs.Log {
		switch it.Kind {
		case 'D':
			cur.Msgs = append(cur.Msgs, cfInsert(cfVCh, 101, int64(1000+i), it.Ts))
		case 'T':
			cur.BeginTs, cur.EndTs = begin, it.Ts
			cur.Msgs = append(cur.Msgs, cfTick(it.Ts))
			id := memmq.ID(i + 1).Serialize()
			cur.StartPositions = []*msgpb.MsgPosition{{ChannelName: cfPCh, MsgID: id, Timestamp: begin}}
			cur.EndPositions = []*msgpb.MsgPosition{{ChannelName: cfPCh, MsgID: id, Timestamp: it.Ts}}
			tickPack[i] = len(packs)
			packs = append(packs, cur)
			if i < cs.Prefix {
				prefixPacks = len(packs)
			}
			cur = &msgstream.MsgPack{}
			begin = it.Ts
		}
	}
	final := cs.Log[len(cs.Log)-1].Ts
	mq := New(nil)
	mq.SetLog(cfVCh, packs)
	ctx := context.Background()
	var pos *msgpb.MsgPosition
	if cs.Tick >= 0 {
		pos = &msgpb.MsgPosition{ChannelName: cfVCh, MsgID: packs[tickPack[cs.Tick]].EndPositions[0].MsgID, Timestamp: cs.PosTs}
	} else {
		// publish the prefix through an earlier registration of another incarnation
		mq.LatestIsPublished = true
		if prefixPacks > 0 {
			ch0, err := mq.Register(ctx, msgdispatcher.NewStreamConfig(cfVCh, &msgpb.MsgPosition{ChannelName: cfVCh, MsgID: []byte("none")}, common.SubscriptionPositionUnknown))
			if err != nil {
				return nil, 0, err
			}
			for k := 0; k < prefixPacks; k++ {
				<-ch0
			}
			for w := 0; mq.Published(cfVCh) < prefixPacks && w < 5000; w++ {
				time.Sleep(time.Millisecond) // the publication mark is set right after the hand-over
			}
			mq.Deregister(cfVCh)
		}
		mq = mq.Fork(nil)
	}
	ch, err := mq.Register(ctx, msgdispatcher.NewStreamConfig(cfVCh, pos, common.SubscriptionPositionUnknown))
	if err != nil {
		return nil, 0, err
	}
	defer mq.Deregister(cfVCh)
	var got []int64
	var end uint64
	for end < final {
		select {
		case p := <-ch:
			end = p.EndTs
			for _, m := range p.Msgs {
				if m.Type() != commonpb.MsgType_TimeTick {
					got = append(got, m.ID())
				}
			}
		case <-time.After(10 * time.Second):
			return got, end, fmt.Errorf("fakemq: timeout at %d", end)
		}
	}
	return got, end, nil
}

func cfRun(cs cfCase) (string, string) {
	rg, rend, rerr := cfReal(cs)
	fg, fend, ferr := cfFake(cs)
	if rerr != nil || ferr != nil {
		return fmt.Sprintf("error: real stack: %v (delivered %v up to %d); fakemq: %v (delivered %v up to %d)", rerr, rg, rend, ferr, fg, fend), ""
	}
	if fmt.Sprint(rg) != fmt.Sprint(fg) {
		return fmt.Sprintf("delivery: the real dispatcher + MqTtMsgStream delivered %v, fakemq %v", rg, fg), ""
	}
	if rend != fend {
		return fmt.Sprintf("closing-time: real %d, fakemq %d", rend, fend), ""
	}
	return "", fmt.Sprintf("%d delivered", len(rg))
}

func TestVerifMqConformance(t *testing.T) {
	res := ev.New("C05", "mq-conformance")
	defer res.Write()
	util.InitMilvusPkgParam()
	if p := os.Getenv("VERIF_REPLAY"); p != "" {
		var f struct {
			Replay cfCase `json:"replay"`
		}
		b, _ := os.ReadFile(p)
		if err := jsonUnmarshal(b, &f); err != nil {
			t.Fatal(err)
		}
		if msg, _ := cfRun(f.Replay); msg != "" {
			fmt.Println("REPLAY-VIOLATION", msg)
			res.Violate("replay", msg, f.Replay)
			return
		}
		fmt.Println("REPLAY-OK")
		return
	}
	maxLen := 4
	kinds := []byte{'D', 'T'}
	if ev.Thorough() {
		maxLen = 5
		kinds = []byte{'D', 'T', 'X'}
	}
	res.Bounds["log_items"] = maxLen
	res.Rule = "every legal physical-channel log of up to the bound items over {data of the observed vchannel, time tick" + map[bool]string{true: ", data of another vchannel", false: ""}[ev.Thorough()] + "} with hybrid timestamps from a 4-value grid (data newer than the last tick, ticks strictly increasing and not older than the data before them), closed by a final tick; every seek position = message id of any tick x position timestamp in {0, each grid value, each grid value + 1}, and every 'no position' subscription after a published prefix that ends at a tick; the real msgdispatcher.Client over the real MqTtMsgStream (in-memory mqwrapper client) and fakemq must deliver the same sequence of data messages to the vchannel and reach the same closing time"
	grid := []uint64{100, 200, 300, 400}
	deadline := time.Now().Add(ev.Budget(150 * time.Second))
	idx := 0
	var log []cfItem
	var gen func(lastTick, maxTs uint64)
	stop := false
	check := func(cs cfCase) {
		idx++
		if !ev.Mine(idx) || stop {
			return
		}
		if time.Now().After(deadline) {
			stop = true
			res.Exhaustive = false
			return
		}
		msg, out := cfRun(cs)
		res.Evaluations++
		res.States++
		res.Transitions++
		res.Traces++
		if msg != "" {
			mode := "seek"
			if cs.Tick < 0 {
				mode = "latest"
			}
			res.Violate("C05/mq-conformance/"+strings.SplitN(msg, ":", 2)[0]+"/"+mode, fmt.Sprintf("case %+v: %s", cs, msg), cs)
			return
		}
		res.Outcome(out)
		if cs.Tick >= 0 && cs.PosTs != 0 {
			res.Nontrivial++
		}
		if idx%997 == 0 {
			res.Sample(map[string]interface{}{"case": fmt.Sprintf("%+v", cs), "outcome": out})
		}
	}
	finish := func() {
		// two closing ticks: a live source keeps ticking, and the seek itself consumes the first tick at or after the
		// position timestamp
		full := append(append([]cfItem{}, log...), cfItem{'T', 500}, cfItem{'T', 600})
		for i, it := range full {
			if it.Kind != 'T' {
				continue
			}
			if i < len(full)-2 {
				for _, pt := range append([]uint64{0}, gridPlus(grid)...) {
					check(cfCase{Log: full, Tick: i, PosTs: pt})
				}
				check(cfCase{Log: full, Tick: -1, Prefix: i + 1})
			}
		}
		check(cfCase{Log: full, Tick: -1, Prefix: 0})
	}
	gen = func(lastTick, maxTs uint64) {
		if stop {
			return
		}
		if len(log) > 0 {
			finish()
		}
		if len(log) == maxLen {
			return
		}
		for _, k := range kinds {
			for _, ts := range grid {
				if k == 'T' {
					if ts <= lastTick || ts < maxTs {
						continue
					}
					log = append(log, cfItem{k, ts})
					gen(ts, ts)
				} else {
					if ts <= lastTick || ts < maxTs {
						continue // a time-ordered channel
					}
					log = append(log, cfItem{k, ts})
					gen(lastTick, ts)
				}
				log = log[:len(log)-1]
			}
		}
	}
	gen(0, 0)
	res.Bounds["cases"] = idx
}

func jsonUnmarshal(b []byte, v interface{}) error { return json.Unmarshal(b, v) }

func gridPlus(g []uint64) []uint64 {
	var out []uint64
	for _, v := range g {
		out = append(out, v, v+1)
	}
	return out
}
