package server

import (
	"os"

	"go.uber.org/zap"

	"github.com/zilliztech/milvus-cdc/core/log"
)

// schedQuiet silences the process logger for schedule exploration: every log line is a write system call whose
// latency lets the Go scheduler reorder runnable goroutines, i.e. nondeterminism the explorer does not own (and
// most of the run time). VERIF_LOG=1 keeps the log (replays).
func schedQuiet() {
	if os.Getenv("VERIF_LOG") == "" {
		log.VerifSwapLogger(zap.NewNop())
	}
}
