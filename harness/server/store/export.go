//go:build verif

package store

// Harness constructor (overlay only): the real EtcdMetaStore with its real task / position stores and
// its real Txn code, around an injected etcd client (NewEtcdMetaStore dials and checks endpoints).

import (
	clientv3 "go.etcd.io/etcd/client/v3"

	api2 "github.com/zilliztech/milvus-cdc/core/api"
	"github.com/zilliztech/milvus-cdc/core/log"
)

func NewVerifEtcdMetaStore(cli *clientv3.Client, rootPath string, rep api2.ReplicateStore) *EtcdMetaStore {
	txnMap := make(map[any][]clientv3.Op)
	l := log.L()
	return &EtcdMetaStore{
		log:                         l,
		etcdClient:                  cli,
		replicateStore:              rep,
		taskInfoStore:               &TaskInfoEtcdStore{log: l, rootPath: rootPath, etcdClient: cli, txnMap: txnMap},
		taskCollectionPositionStore: &TaskCollectionPositionEtcdStore{log: l, rootPath: rootPath, etcdClient: cli, txnMap: txnMap},
		txnMap:                      txnMap,
	}
}
