package writer

// C09: total enumeration of operation kind x source database x mapping shape x entry insertion order
// (x downstream answer) through the real ChannelWriter; every recorded downstream call is compared
// with a reference mapping function. nameMappings is a sync.Map walked with Range (random order):
// every case with more than one entry is run under every insertion order and repeated, and all
// repetitions must agree.

import (
	"context"
	"fmt"
	"os"
	"sort"
	"strings"
	"testing"

	"github.com/cockroachdb/errors"
	"github.com/milvus-io/milvus/pkg/mq/msgstream"
	"github.com/milvus-io/milvus/pkg/util/retry"

	"github.com/zilliztech/milvus-cdc/core/api"
	"github.com/zilliztech/milvus-cdc/core/pb"
	"github.com/zilliztech/milvus-cdc/core/util"
	"github.com/zilliztech/milvus-cdc/core/verifkit/ev"
)

type c09Case struct {
	Group   string     `json:"group"` // op | event | dml
	Kind    string     `json:"kind"`
	SrcDB   string     `json:"src_db"`
	Coll    string     `json:"coll"`
	Shape   string     `json:"shape"`
	Entries [][2]string `json:"entries"` // mapping entries in insertion order
	Fail    bool       `json:"fail"`    // the main downstream call is rejected
}

func normDB(db string) string {
	if db == "" {
		return util.DefaultDbName
	}
	return db
}

// reference mapping: collection-level entry, else whole-database entry, else unchanged
func c09Ref(entries [][2]string, db, coll string) (string, string) {
	db = normDB(db)
	for _, e := range entries {
		if e[0] == db+"."+coll {
			p := strings.SplitN(e[1], ".", 2)
			return p[0], p[1]
		}
	}
	for _, e := range entries {
		if e[0] == db+".*" {
			return strings.SplitN(e[1], ".", 2)[0], coll
		}
	}
	return db, coll
}

// for database-level operations: any target database of an entry for that source database
func c09RefDBs(entries [][2]string, db string) map[string]bool {
	db = normDB(db)
	out := map[string]bool{}
	for _, e := range entries {
		if strings.HasPrefix(e[0], db+".") {
			out[strings.SplitN(e[1], ".", 2)[0]] = true
		}
	}
	if len(out) == 0 {
		out[db] = true
	}
	return out
}

func c09Shapes(srcDB, coll string) map[string][][2]string {
	s := normDB(srcDB)
	return map[string][][2]string{
		"none":         nil,
		"exact":        {{s + "." + coll, "X.b"}},
		"wholedb":      {{s + ".*", "Z.*"}},
		"unrelated":    {{"nope.*", "R.*"}, {"nope2." + coll, "R2.q"}},
		"sibling":      {{s + ".other", "Q.q2"}},
		"exact+whole":  {{s + "." + coll, "X.b"}, {s + ".*", "Z.*"}},
		"whole+others": {{s + ".*", "Z.*"}, {"nope.*", "R.*"}, {"nope2." + coll, "R2.q"}},
	}
}

type c09Names struct {
	routed  bool
	route   string
	dbField string
	colls   []string
	dbLevel bool
	dbName  string
	skip    bool
}

func c09CallNames(c fdCall) c09Names {
	switch p := c.Param.(type) {
	case *api.CreateCollectionParam:
		return c09Names{routed: true, route: p.Database, colls: []string{p.Schema.CollectionName}}
	case *api.DropCollectionParam:
		return c09Names{routed: true, route: p.Database, colls: []string{p.CollectionName}}
	case *api.CreatePartitionParam:
		return c09Names{routed: true, route: p.Database, colls: []string{p.CollectionName}}
	case *api.DropPartitionParam:
		return c09Names{routed: true, route: p.Database, colls: []string{p.CollectionName}}
	case *api.FlushParam:
		return c09Names{routed: true, route: p.Database, dbField: p.FlushRequest.GetDbName(), colls: p.GetCollectionNames()}
	case *api.LoadCollectionParam:
		return c09Names{routed: true, route: p.Database, dbField: p.LoadCollectionRequest.GetDbName(), colls: []string{p.GetCollectionName()}}
	case *api.ReleaseCollectionParam:
		return c09Names{routed: true, route: p.Database, dbField: p.ReleaseCollectionRequest.GetDbName(), colls: []string{p.GetCollectionName()}}
	case *api.LoadPartitionsParam:
		return c09Names{routed: true, route: p.Database, dbField: p.LoadPartitionsRequest.GetDbName(), colls: []string{p.GetCollectionName()}}
	case *api.ReleasePartitionsParam:
		return c09Names{routed: true, route: p.Database, dbField: p.ReleasePartitionsRequest.GetDbName(), colls: []string{p.GetCollectionName()}}
	case *api.CreateIndexParam:
		return c09Names{routed: true, route: p.Database, dbField: p.CreateIndexRequest.GetDbName(), colls: []string{p.GetCollectionName()}}
	case *api.DropIndexParam:
		return c09Names{routed: true, route: p.Database, dbField: p.DropIndexRequest.GetDbName(), colls: []string{p.GetCollectionName()}}
	case *api.AlterIndexParam:
		return c09Names{routed: true, route: p.Database, dbField: p.AlterIndexRequest.GetDbName(), colls: []string{p.GetCollectionName()}}
	case *api.CreateDatabaseParam:
		return c09Names{dbLevel: true, dbName: p.GetDbName()}
	case *api.DropDatabaseParam:
		return c09Names{dbLevel: true, dbName: p.GetDbName()}
	case *api.AlterDatabaseParam:
		return c09Names{dbLevel: true, dbName: p.GetDbName()}
	case *api.DescribeDatabaseParam:
		return c09Names{dbLevel: true, dbName: p.Name}
	case *api.DescribeCollectionParam:
		return c09Names{routed: true, route: p.Database, colls: []string{p.Name}}
	case *api.DescribePartitionParam:
		return c09Names{routed: true, route: p.Database, colls: []string{p.CollectionName}}
	}
	return c09Names{skip: true}
}

var c09ErrDown = retry.Unrecoverable(errors.New("injected downstream rejection"))

// c09Run executes one case once; returns "" or a violation text, plus the observed outcome string.
func c09Run(cs c09Case) (string, string) {
	fd := &fakeDown{}
	w, _ := newVerifWriter(fd, "", nil)
	for _, e := range cs.Entries {
		w.UpdateNameMappings(map[string]string{e[0]: e[1]})
	}
	return c09Step(w, fd, cs, cs.Entries, [][2]string{{cs.SrcDB, cs.Coll}})
}

// c09Step performs one operation on an existing writer and judges the calls it caused against the mapping table
// `entries` (what has been handed to UpdateNameMappings so far); `seen` lists the (database, collection) pairs the
// writer has operated on so far (bookkeeping keys must derive from them).
func c09Step(w *ChannelWriter, fd *fakeDown, cs c09Case, entries [][2]string, seen [][2]string) (string, string) {
	fd.calls = nil
	mainKind := cs.Kind
	if cs.Group == "op" {
		mainKind = opCallKind[cs.Kind]
	}
	if cs.Group == "event" {
		mainKind = map[string]string{"0": "CreateCollection", "1": "DropCollection", "2": "CreatePartition", "3": "DropPartition"}[cs.Kind]
	}
	if cs.Group == "dml" {
		mainKind = "ReplicateMessage"
	}
	fd.answer = nil
	if cs.Fail {
		fd.answer = func(kind string, p interface{}) error {
			if kind == mainKind {
				return c09ErrDown
			}
			return nil
		}
	}
	v := opVals{DB: cs.SrcDB, Coll: cs.Coll, Part: "p1", Parts: []string{"p1", "p2"}, TS: 1000, Index: "idx", Field: "vec", Replica: 1,
		User: "u", Role: "r", Pwd: "cHdk", OldPwd: "b2xk", Priv: "Insert", Obj: "Collection", ObjName: cs.Coll, Params: map[string]string{"mmap.enabled": "true"}}
	ctx := context.Background()
	var outPack *msgstream.MsgPack
	switch cs.Group {
	case "op":
		_, _ = w.HandleOpMessagePack(ctx, opPack(v.TS, buildOp(cs.Kind, v)))
	case "event":
		e := buildEvent(eventKinds[int(cs.Kind[0]-'0')], v)
		if c09SharedInfo != nil && (cs.Kind == "0" || cs.Kind == "1") {
			// the channel manager puts ONE description of the collection (the pointer StartReadCollection was given) into
			// the create-collection event and, later, into the drop-collection event of that collection
			k := cs.SrcDB + "." + cs.Coll
			if ci, ok := c09SharedInfo[k]; ok {
				e.CollectionInfo = ci
			} else {
				c09SharedInfo[k] = e.CollectionInfo
			}
		}
		_ = w.HandleReplicateAPIEvent(ctx, e)
	case "dml":
		outPack = dmlPack(v.TS, buildDML(cs.Kind, v, 1), buildDML("TimeTick", v, 2))
		_, _, _ = w.HandleReplicateMessage(ctx, "tgt-ch", outPack)
	}
	wantDB, wantColl := c09Ref(entries, cs.SrcDB, cs.Coll)
	dbs := c09RefDBs(entries, cs.SrcDB)
	var obs []string
	for i, c := range fd.calls {
		if c.Kind == "ReplicateMessage" {
			p := c.Param.(*api.ReplicateMessageParam)
			for j, b := range p.MsgsBytes {
				m, err := decodeLikeProxy(b)
				if err != nil {
					return fmt.Sprintf("undecodable: call %d message %d: %v", i, j, err), ""
				}
				g, ok := m.(interface {
					GetDbName() string
					GetCollectionName() string
				})
				if !ok {
					continue
				}
				obs = append(obs, fmt.Sprintf("msg:%s.%s", g.GetDbName(), g.GetCollectionName()))
				if normDB(g.GetDbName()) != wantDB || g.GetCollectionName() != wantColl {
					return fmt.Sprintf("names: replicated %s message names %s.%s, mapping gives %s.%s", m.Type(), g.GetDbName(), g.GetCollectionName(), wantDB, wantColl), ""
				}
			}
			continue
		}
		n := c09CallNames(c)
		if n.skip {
			continue
		}
		if n.dbLevel {
			// any target database of a matching entry is acceptable for a database-level call, so the
			// concrete choice is not part of the order-independence comparison
			obs = append(obs, fmt.Sprintf("%s:db-level", c.Kind))
			if !dbs[normDB(n.dbName)] && !(c.Kind == "DescribeDatabase" && normDB(n.dbName) == wantDB) {
				return fmt.Sprintf("names: %s names database %q, mapping allows %v", c.Kind, n.dbName, keysOf(dbs)), ""
			}
			continue
		}
		obs = append(obs, fmt.Sprintf("%s:route=%s,db=%s,colls=%v", c.Kind, n.route, n.dbField, n.colls))
		if normDB(n.route) != wantDB {
			tag := "route"
			if normDB(n.route) == util.DefaultDbName && wantDB != util.DefaultDbName {
				tag = "route-default"
			}
			return fmt.Sprintf("%s: %s is routed to database %q, mapping gives %q", tag, c.Kind, n.route, wantDB), ""
		}
		if n.dbField != "" && n.dbField != wantDB {
			return fmt.Sprintf("names: %s request names database %q, mapping gives %q", c.Kind, n.dbField, wantDB), ""
		}
		for _, cn := range n.colls {
			if cn != wantColl {
				return fmt.Sprintf("names: %s names collection %q, mapping gives %q", c.Kind, cn, wantColl), ""
			}
		}
	}
	// bookkeeping keyed by source names only
	allowed := map[string]bool{}
	add := func(a, b string) { allowed[a], allowed[b] = true, true }
	for _, dc := range seen {
		add(util.GetDBInfoKeys(dc[0]))
		add(util.GetCollectionInfoKeys(dc[1], dc[0]))
		for _, p := range []string{"p1", "p2"} {
			add(util.GetPartitionInfoKeys(p, dc[1], dc[0]))
		}
	}
	for name, m := range map[string]map[string]uint64{"db": w.dbInfos.GetUnsafeMap(), "collection": w.collectionInfos.GetUnsafeMap(), "partition": w.partitionInfos.GetUnsafeMap()} {
		for k := range m {
			if !allowed[k] {
				return fmt.Sprintf("bookkeeping: %s table holds key %q, not derived from the source names (%s, %s)", name, k, normDB(cs.SrcDB), cs.Coll), ""
			}
		}
	}
	return "", strings.Join(obs, ";")
}

func keysOf(m map[string]bool) []string {
	var ks []string
	for k := range m {
		ks = append(ks, k)
	}
	sort.Strings(ks)
	return ks
}

func c09Perms(e [][2]string) [][][2]string {
	if len(e) <= 1 {
		return [][][2]string{e}
	}
	var out [][][2]string
	for i := range e {
		rest := append(append([][2]string{}, e[:i]...), e[i+1:]...)
		for _, p := range c09Perms(rest) {
			out = append(out, append([][2]string{e[i]}, p...))
		}
	}
	return out
}

func c09Cases() []c09Case {
	var cases []c09Case
	type gk struct{ g, k string }
	var kinds []gk
	for _, k := range opKinds {
		kinds = append(kinds, gk{"op", k})
	}
	for i := range eventKinds {
		kinds = append(kinds, gk{"event", fmt.Sprint(i)})
	}
	for _, k := range dmlKinds {
		kinds = append(kinds, gk{"dml", k})
	}
	shapeNames := []string{"none", "exact", "wholedb", "unrelated", "sibling", "exact+whole", "whole+others"}
	for _, k := range kinds {
		for _, db := range []string{"default", "", "other"} {
			for _, coll := range []string{"a"} {
				shapes := c09Shapes(db, coll)
				for _, sn := range shapeNames {
					for _, perm := range c09Perms(shapes[sn]) {
						for _, fail := range []bool{false, true} {
							cases = append(cases, c09Case{Group: k.g, Kind: k.k, SrcDB: db, Coll: coll, Shape: sn, Entries: perm, Fail: fail})
						}
					}
				}
			}
		}
	}
	return cases
}

func TestVerifC09Names(t *testing.T) {
	res := ev.New("C09", "names")
	defer res.Write()
	if p := os.Getenv("VERIF_REPLAY"); p != "" {
		var f struct {
			Replay c09Case `json:"replay"`
		}
		b, _ := os.ReadFile(p)
		if err := jsonUnmarshal(b, &f); err != nil {
			t.Fatal(err)
		}
		for i := 0; i < 64; i++ {
			if msg, _ := c09Run(f.Replay); msg != "" {
				fmt.Println("REPLAY-VIOLATION", msg)
				res.Violate("replay", msg, f.Replay)
				return
			}
		}
		fmt.Println("REPLAY-OK")
		return
	}
	reps := 24
	if ev.Thorough() {
		reps = 200
	}
	res.Bounds["repetitions_per_multi_entry_case"] = reps
	res.Rule = "total enumeration: {18 op-message kinds, 4 API events, 5 DML message kinds (each triggering the readiness probes it needs)} x source db {default, \"\", other} x mapping shape {none, exact, whole-db, unrelated, sibling-collection, exact+whole-db, whole-db+others} x every insertion order of the entries x downstream {accepts, rejects the main call}; every recorded call's routing database, request database and collection fields compared with the reference mapping; bookkeeping table keys compared with source-name keys; multi-entry cases repeated (sync.Map Range order is random and cannot be controlled) and all repetitions must agree; non-trivial = distinct cases in which the mapping changes a name"
	cases := c09Cases()
	res.Bounds["cases"] = len(cases)
	nontriv := 0
	for i, cs := range cases {
		if !ev.Mine(i) {
			continue
		}
		n := 1
		if len(cs.Entries) > 1 {
			n = reps
		}
		first := ""
		bad := false
		for r := 0; r < n; r++ {
			msg, obs := c09Run(cs)
			res.Evaluations++
			if msg != "" {
				tag := strings.SplitN(msg, ":", 2)[0]
				res.Violate(fmt.Sprintf("C09/%s/%s-%s/%s", tag, cs.Group, c09KindName(cs), cs.Shape), fmt.Sprintf("case %+v: %s", cs, msg), cs)
				bad = true
				break
			}
			if r == 0 {
				first = obs
			} else if obs != first {
				res.Violate(fmt.Sprintf("C09/order-dependent/%s-%s/%s", cs.Group, c09KindName(cs), cs.Shape), fmt.Sprintf("case %+v: repetition %d observed %q, first run %q", cs, r, obs, first), cs)
				bad = true
				break
			}
		}
		res.States++
		res.Transitions++
		res.Traces++
		if !bad {
			res.Outcome(first)
			wd, wc := c09Ref(cs.Entries, cs.SrcDB, cs.Coll)
			if wd != normDB(cs.SrcDB) || wc != cs.Coll {
				nontriv++
			}
			if i%173 == 0 {
				res.Sample(map[string]interface{}{"case": cs, "observed": first})
			}
		}
	}
	res.Nontrivial = int64(nontriv)
}

func c09KindName(cs c09Case) string {
	if cs.Group == "event" {
		return eventKinds[int(cs.Kind[0]-'0')].String()
	}
	return cs.Kind
}

// ------------------------------------------------------------------------------------------------
// histories: one writer lives as long as its downstream and is shared by every task of that downstream; the server
// hands it more mapping entries whenever a task is created (ReplicateEntity.UpdateMapping). The mapping in force for
// an operation is the table at the time of the operation, whatever the writer has seen or resolved before.

type c09HStep struct {
	Op     *c09Case   `json:"op,omitempty"`
	Update *[2]string `json:"update,omitempty"`
}

func c09HAlphabet(thorough bool) []c09HStep {
	var out []c09HStep
	ops := []struct{ g, k string }{{"op", "CreateIndex"}, {"op", "ReleaseCollection"}, {"event", "2"}, {"dml", "Insert"}, {"event", "0"}, {"event", "1"}}
	if thorough {
		ops = append(ops, struct{ g, k string }{"op", "Flush"}, struct{ g, k string }{"event", "3"}, struct{ g, k string }{"dml", "Delete"}, struct{ g, k string }{"op", "DropIndex"})
	}
	for _, o := range ops {
		for _, coll := range []string{"a", "b"} {
			out = append(out, c09HStep{Op: &c09Case{Group: o.g, Kind: o.k, SrcDB: "other", Coll: coll, Shape: "history"}})
		}
	}
	for _, u := range [][2]string{{"other.*", "Z.*"}, {"other.a", "X.b"}, {"other.a", "Y.c"}, {"other.*", "W.*"}} {
		u := u
		out = append(out, c09HStep{Update: &u})
	}
	return out
}

// c09SharedInfo: per history, the collection descriptions shared by the collection-level events (nil outside histories)
var c09SharedInfo map[string]*pb.CollectionInfo

func c09HRun(hist []c09HStep) (string, int) {
	c09SharedInfo = map[string]*pb.CollectionInfo{}
	defer func() { c09SharedInfo = nil }()
	fd := &fakeDown{}
	w, _ := newVerifWriter(fd, "", nil)
	var entries [][2]string
	var seen [][2]string
	mapped := 0
	for i, st := range hist {
		if st.Update != nil {
			w.UpdateNameMappings(map[string]string{st.Update[0]: st.Update[1]})
			done := false
			for j := range entries {
				if entries[j][0] == st.Update[0] {
					entries[j][1] = st.Update[1]
					done = true
				}
			}
			if !done {
				entries = append(entries, *st.Update)
			}
			continue
		}
		seen = append(seen, [2]string{st.Op.SrcDB, st.Op.Coll})
		if msg, _ := c09Step(w, fd, *st.Op, entries, seen); msg != "" {
			return fmt.Sprintf("step %d: %s", i, msg), mapped
		}
		if d, c := c09Ref(entries, st.Op.SrcDB, st.Op.Coll); d != normDB(st.Op.SrcDB) || c != st.Op.Coll {
			mapped++
		}
	}
	return "", mapped
}

func TestVerifC09Histories(t *testing.T) {
	res := ev.New("C09", "histories")
	defer res.Write()
	if p := os.Getenv("VERIF_REPLAY"); p != "" {
		var f struct {
			Replay []c09HStep `json:"replay"`
		}
		b, _ := os.ReadFile(p)
		if err := jsonUnmarshal(b, &f); err != nil {
			t.Fatal(err)
		}
		for i := 0; i < 16; i++ {
			if msg, _ := c09HRun(f.Replay); msg != "" {
				fmt.Println("REPLAY-VIOLATION", msg)
				res.Violate("replay", msg, f.Replay)
				return
			}
		}
		fmt.Println("REPLAY-OK")
		return
	}
	depth, reps := 4, 3
	if ev.Thorough() {
		depth, reps = 4, 8
	}
	alpha := c09HAlphabet(ev.Thorough())
	res.Bounds["history_depth"] = depth
	res.Bounds["alphabet"] = len(alpha)
	res.Bounds["repetitions"] = reps
	res.Rule = "every history of <= depth steps over {operation (create index, release collection, create-partition event, insert, create-collection event, drop-collection event - the two sharing one collection description, as the channel manager's events do; thorough: flush, drop-partition event, delete, drop index) on other.a / other.b, UpdateNameMappings with one entry of {other.*->Z.*, other.a->X.b, other.a->Y.c, other.*->W.*}} on ONE real ChannelWriter; after every operation the routing database and the request names of every recorded call are compared with the reference mapping over the table as it is at that moment (later entry for a key replaces the earlier one), bookkeeping keys with the source names of the operations so far; every history is repeated (sync.Map order) and every repetition judged; non-trivial = histories with at least one operation whose names the table changes"
	idx := make([]int, 0, depth)
	n := 0
	var rec func()
	rec = func() {
		if len(idx) > 0 {
			n++
			if ev.Mine(n) {
				hist := make([]c09HStep, len(idx))
				hasOp := false
				for i, k := range idx {
					hist[i] = alpha[k]
					hasOp = hasOp || alpha[k].Op != nil
				}
				// a history is judged at its operations: one that ends in an update is a prefix of longer ones
				if hasOp && hist[len(hist)-1].Op != nil {
					res.States++
					for r := 0; r < reps; r++ {
						msg, mapped := c09HRun(hist)
						res.Evaluations++
						res.Transitions += int64(len(hist))
						if msg != "" {
							last := hist[len(hist)-1].Op
							tag := strings.SplitN(strings.SplitN(msg, ": ", 2)[1], ":", 2)[0]
							res.Violate(fmt.Sprintf("C09/hist/%s/%s-%s", tag, last.Group, c09KindName(*last)), fmt.Sprintf("history %s: %s", c09HDescribe(hist), msg), hist)
							break
						}
						if r == 0 {
							res.Traces++
							if mapped > 0 {
								res.Nontrivial++
							}
							res.Outcome(fmt.Sprint(mapped))
						}
					}
				}
			}
		}
		if len(idx) == depth {
			return
		}
		for k := range alpha {
			idx = append(idx, k)
			rec()
			idx = idx[:len(idx)-1]
		}
	}
	rec()
}

func c09HDescribe(h []c09HStep) string {
	var out []string
	for _, s := range h {
		if s.Update != nil {
			out = append(out, fmt.Sprintf("map(%s->%s)", s.Update[0], s.Update[1]))
		} else {
			out = append(out, fmt.Sprintf("%s-%s(%s.%s)", s.Op.Group, c09KindName(*s.Op), s.Op.SrcDB, s.Op.Coll))
		}
	}
	return strings.Join(out, " ")
}
