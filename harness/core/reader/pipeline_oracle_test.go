package reader

import (
	"fmt"
	"sort"
	"strings"

	"github.com/milvus-io/milvus-proto/go-api/v2/commonpb"
	"github.com/milvus-io/milvus/pkg/mq/msgstream"
	"github.com/milvus-io/milvus/pkg/util/funcutil"

	"github.com/zilliztech/milvus-cdc/core/api"
	"github.com/zilliztech/milvus-cdc/core/pb"
	"github.com/zilliztech/milvus-cdc/core/verifkit/sched"
)

type plEmitted struct {
	ID      string
	PCh     string // downstream pchannel it arrived on
	PackIdx int    // index of its pack in that channel's output
	MsgIdx  int
	Msg     msgstream.TsMsg
	Pack    *api.ReplicateMsg
	Src     *plSrcMsg
}

type plAnalysis struct {
	r       *plRun
	emitted []*plEmitted
	byID    map[string][]*plEmitted
	viol    []sched.Violation
}

func (a *plAnalysis) v(sig, format string, args ...interface{}) {
	a.viol = append(a.viol, sched.Violation{Sig: sig, Detail: fmt.Sprintf(format, args...)})
}

func isTick(m msgstream.TsMsg) bool { return m.Type() == commonpb.MsgType_TimeTick }

func plAnalyze(r *plRun) *plAnalysis {
	a := &plAnalysis{r: r, byID: map[string][]*plEmitted{}}
	var chans []string
	for pch := range r.outs {
		chans = append(chans, pch)
	}
	sort.Strings(chans)
	for _, pch := range chans {
		for pi, p := range r.outs[pch] {
			for mi, m := range p.MsgPack.Msgs {
				if isTick(m) {
					continue
				}
				id := ""
				if m.Position() != nil {
					id = string(m.Position().MsgID)
				}
				e := &plEmitted{ID: id, PCh: pch, PackIdx: pi, MsgIdx: mi, Msg: m, Pack: p, Src: r.srcByID[id]}
				a.emitted = append(a.emitted, e)
				a.byID[id] = append(a.byID[id], e)
			}
		}
	}
	return a
}

func (r *plRun) collByID(id int64) *plColl {
	for _, c := range r.sc.Colls {
		if c.ID == id {
			return c
		}
	}
	return nil
}

func (r *plRun) shardOf(srcV string) (*plColl, *plShard) {
	for _, c := range r.sc.Colls {
		for _, sh := range c.Shards {
			if sh.SrcV == srcV {
				return c, sh
			}
		}
	}
	return nil, nil
}

// dropInFlight: the message is addressed to a partition that exists downstream and that an addpart driver of the
// scenario announces in state Dropping (its drop message is still to come in the stream)
func (r *plRun) dropInFlight(s *plSrcMsg) bool {
	c := r.collByID(s.Coll)
	if c == nil {
		return false
	}
	if _, ok := c.TgtParts[s.Part]; !ok {
		return false
	}
	for _, d := range r.sc.Drivers {
		if d.Kind == "addpart" && r.sc.Colls[d.Coll] == c && d.Part == s.Part && d.PartState == pb.PartitionState_PartitionDropping && !d.OldPart && !d.NewPart {
			return true
		}
	}
	return false
}

// expectedSrc: the source messages that must be emitted
func (r *plRun) expectedSrc() []*plSrcMsg {
	var out []*plSrcMsg
	for _, s := range r.src {
		switch s.Kind {
		case "ins", "del", "dropPart", "dropColl":
			out = append(out, s)
		}
	}
	return out
}

// ---------------------------------------------------------------------------------------------
// C01: complete, duplicate-free, ordered, payload-exact, packs in read order and labelled

func (a *plAnalysis) checkC01() {
	r := a.r
	// the run must have come to rest with everything delivered
	if n := r.mq.Pending(); n > 0 {
		a.v("C01/stuck", "%d source packs were never taken from their stream (a stream goroutine stopped reading)", n)
	}
	for _, e := range r.events {
		if e.EventType == api.ReplicateError {
			a.v("C01/error-event", "the reader reported an error on a well-formed stream: %v", e.Error)
		}
	}
	for _, e := range a.emitted {
		if e.Src == nil {
			a.v("C01/not-read", "message with id %q (%s) was emitted on %s but never read from the source", e.ID, e.Msg.Type(), e.PCh)
		}
	}
	for id, es := range a.byID {
		if len(es) > 1 {
			a.v("C01/duplicate", "source message %s emitted %d times", id, len(es))
		}
	}
	for _, s := range r.expectedSrc() {
		if len(a.byID[s.ID]) == 0 && r.mq.Pending() == 0 {
			if s.Kind == "del" && s.Part != "" && r.dropInFlight(s) {
				// (own signature: the handler leaves such deletes out on purpose - isDroppingPartition - see known findings)
				a.v("C01/missing/del/partition-drop-in-flight", "source message %s (delete ts=%d, partition %s) of stream %s was read but never emitted: the partition had been announced as Dropping, the downstream still has it and its drop message comes later in the stream", s.ID, s.Ts, s.Part, s.Stream)
				continue
			}
			a.v("C01/missing/"+s.Kind, "source message %s (%s ts=%d) of stream %s was read but never emitted", s.ID, s.Kind, s.Ts, s.Stream)
		}
	}
	// per stream: source-timestamp order with deletes before inserts at equal time; payload
	perStream := map[string][]*plEmitted{}
	for _, e := range a.emitted {
		if e.Src != nil {
			perStream[e.Src.Stream] = append(perStream[e.Src.Stream], e)
		}
	}
	for stream, es := range perStream {
		pch := es[0].PCh
		for i, e := range es {
			if e.PCh != pch {
				a.v("C01/split-stream", "stream %s was emitted on both %s and %s", stream, pch, e.PCh)
			}
			if got := plFinger(e.Msg); got != e.Src.Finger {
				a.v("C01/payload", "message %s payload %q differs from the source %q", e.ID, got, e.Src.Finger)
			}
			if i == 0 {
				continue
			}
			p := es[i-1]
			if p.Src.Ts > e.Src.Ts {
				a.v("C01/order", "stream %s: %s (src ts %d) emitted before %s (src ts %d)", stream, p.ID, p.Src.Ts, e.ID, e.Src.Ts)
			}
			if p.Src.Ts == e.Src.Ts && p.Src.Kind == "ins" && e.Src.Kind == "del" {
				a.v("C01/delete-after-insert", "stream %s: insert %s emitted before delete %s of equal timestamp %d", stream, p.ID, e.ID, e.Src.Ts)
			}
		}
	}
	// packs: labels and read order (tick-only packs included)
	lastIdx := map[string]int{}
	for pch, packs := range r.outs {
		for pi, p := range packs {
			if len(p.MsgPack.EndPositions) == 0 {
				a.v("C01/pack-no-position", "pack %d on %s has no end position", pi, pch)
				continue
			}
			tick := string(p.MsgPack.EndPositions[0].MsgID) // "<srcV>#<i>.tick"
			hash := strings.LastIndex(tick, "#")
			if hash < 0 {
				a.v("C01/pack-position", "pack %d on %s ends at %q which is no source position", pi, pch, tick)
				continue
			}
			srcV := tick[:hash]
			idx := 0
			fmt.Sscanf(tick[hash+1:], "%d.tick", &idx)
			c, sh := r.shardOf(srcV)
			if c == nil {
				a.v("C01/pack-position", "pack %d on %s ends at %q: unknown stream", pi, pch, tick)
				continue
			}
			if prev, ok := lastIdx[srcV]; ok && idx <= prev {
				a.v("C01/pack-order", "stream %s: pack read as #%d handed over after pack #%d", srcV, idx, prev)
			}
			lastIdx[srcV] = idx
			wantP := funcutil.ToPhysicalChannel(sh.SrcV)
			if p.CollectionID != c.ID || p.CollectionName != c.Name || p.PChannelName != wantP || p.TaskID != "task-"+c.Name {
				a.v("C01/pack-label", "pack #%d of stream %s labelled (coll %d/%s, channel %s, task %s), want (%d/%s, %s, task-%s)", idx, srcV, p.CollectionID, p.CollectionName, p.PChannelName, p.TaskID, c.ID, c.Name, wantP, c.Name)
			}
			for _, m := range p.MsgPack.Msgs {
				if isTick(m) || m.Position() == nil {
					continue
				}
				if s := r.srcByID[string(m.Position().MsgID)]; s != nil && s.Stream != srcV {
					a.v("C01/pack-mix", "pack #%d of stream %s carries message %s of stream %s", idx, srcV, s.ID, s.Stream)
				}
			}
		}
	}
}

// ---------------------------------------------------------------------------------------------
// C02: re-addressing and routing

func (a *plAnalysis) checkC02() {
	r := a.r
	for _, e := range a.emitted {
		if e.Src == nil {
			continue
		}
		c, _ := r.shardOf(e.Src.Stream)
		// independent pairing: sorted source vchannels <-> sorted downstream vchannels
		var sv, tv []string
		for _, sh := range c.Shards {
			sv = append(sv, sh.SrcV)
			tv = append(tv, sh.TgtV)
		}
		sort.Strings(sv)
		sort.Strings(tv)
		wantV := ""
		for i := range sv {
			if sv[i] == e.Src.Stream {
				wantV = tv[i]
			}
		}
		wantP := funcutil.ToPhysicalChannel(wantV)
		var gotColl, gotPart int64
		gotShard := ""
		checkPart := false
		switch m := e.Msg.(type) {
		case *msgstream.InsertMsg:
			gotColl, gotPart, gotShard, checkPart = m.CollectionID, m.PartitionID, m.ShardName, true
		case *msgstream.DeleteMsg:
			gotColl, gotPart, gotShard, checkPart = m.CollectionID, m.PartitionID, m.ShardName, m.PartitionName != ""
		case *msgstream.DropPartitionMsg:
			gotColl, gotPart, checkPart = m.CollectionID, m.PartitionID, true
			gotShard = wantV
		case *msgstream.DropCollectionMsg:
			gotColl, gotShard = m.CollectionID, wantV
		}
		if gotColl != c.TgtID {
			a.v("C02/collection-id", "message %s carries collection id %d, downstream id of %s is %d", e.ID, gotColl, c.Name, c.TgtID)
		}
		wantPart := c.tgtPartID(e.Src.Part)
		if e.Src.NewInc {
			wantPart += plNewIncOffset
		}
		if checkPart && gotPart != wantPart {
			sig := "C02/partition-id"
			if e.Src.NewInc && gotPart == c.tgtPartID(e.Src.Part) {
				// the message of a partition that was created again carries the downstream id of the dropped incarnation
				sig = "C02/partition-id/stale-after-recreate"
			}
			a.v(sig, "message %s carries partition id %d, downstream id of partition %q is %d", e.ID, gotPart, e.Src.Part, wantPart)
		}
		if gotShard != wantV {
			a.v("C02/shard-name", "message %s carries shard %q, source shard %s is paired with %s", e.ID, gotShard, e.Src.Stream, wantV)
		}
		if e.PCh != wantP {
			a.v("C02/route", "message %s of shard %s arrived on %s, its downstream vchannel %s lives on %s", e.ID, e.Src.Stream, e.PCh, wantV, wantP)
		}
		if pos := e.Msg.Position(); pos.ChannelName != wantP && pos.ChannelName != wantV {
			a.v("C02/msg-position", "message %s position names channel %q, want %s or %s", e.ID, pos.ChannelName, wantP, wantV)
		}
	}
	for pch, packs := range r.outs {
		for pi, p := range packs {
			for _, pos := range append(append([]*msgstream.MsgPosition{}, p.MsgPack.StartPositions...), p.MsgPack.EndPositions...) {
				if pos.ChannelName != pch {
					a.v("C02/pack-position", "pack %d on %s has a position naming channel %q", pi, pch, pos.ChannelName)
				}
			}
		}
	}
}

// ---------------------------------------------------------------------------------------------
// C03: per downstream channel time is monotone, packs end with a tick, data packs are self-consistent

func (a *plAnalysis) checkC03() {
	r := a.r
	// map output packs to the order in which they passed pack.computed (for the overtake classification)
	computedIdx := map[*api.ReplicateMsg]int{}
	perKeySeen := map[string]int{}
	keyOrder := map[string][]int{}
	for i, k := range r.computed {
		keyOrder[k] = append(keyOrder[k], i)
	}
	for _, packs := range r.outs {
		for _, p := range packs {
			k := p.PChannelName + "/" + p.CollectionName
			n := perKeySeen[k]
			perKeySeen[k]++
			if n < len(keyOrder[k]) {
				computedIdx[p] = keyOrder[k][n]
			} else {
				computedIdx[p] = -1
			}
		}
	}
	for pch, packs := range r.outs {
		type closed struct {
			tick uint64
			p    *api.ReplicateMsg
			i    int
		}
		var earlier []closed
		for pi, p := range packs {
			msgs := p.MsgPack.Msgs
			if len(msgs) == 0 || !isTick(msgs[len(msgs)-1]) {
				a.v("C03/no-closing-tick", "pack %d on %s does not end with a time tick", pi, pch)
				continue
			}
			tick := msgs[len(msgs)-1].EndTs()
			hasData := false
			for mi, m := range msgs {
				if isTick(m) {
					_ = mi // an additional opening tick is not constrained by the statement
					continue
				}
				hasData = true
				if m.EndTs() > tick {
					a.v("C03/data-after-own-tick", "pack %d on %s: message %s has ts %d > its pack's closing tick %d", pi, pch, m.Position().GetMsgID(), m.EndTs(), tick)
				}
				for _, e := range earlier {
					if m.EndTs() <= e.tick {
						sig := "C03/data-not-after-earlier-tick"
						if computedIdx[p] >= 0 && computedIdx[e.p] >= 0 && computedIdx[p] < computedIdx[e.p] {
							sig = "C03/overtake"
						}
						a.v(sig, "channel %s: message %s in pack %d has ts %d <= closing tick %d of earlier pack %d (computed order: pack %d #%d, pack %d #%d)", pch, m.Position().GetMsgID(), pi, m.EndTs(), e.tick, e.i, pi, computedIdx[p], e.i, computedIdx[e.p])
						break
					}
				}
				// self consistency
				if m.BeginTs() != m.EndTs() || m.Position().GetTimestamp() != m.EndTs() {
					a.v("C03/msg-ts-disagree", "pack %d on %s: message %s begin %d end %d position ts %d", pi, pch, m.Position().GetMsgID(), m.BeginTs(), m.EndTs(), m.Position().GetTimestamp())
				}
				// what the downstream decodes: a drop message is serialized without row timestamps, its time on the wire
				// is the timestamp of its request base
				switch x := m.(type) {
				case *msgstream.DropCollectionMsg:
					if x.GetBase().GetTimestamp() != m.EndTs() {
						a.v("C03/wire-ts-disagree/drop-collection", "pack %d on %s: drop-collection message %s is stamped %d but its serialized request base carries %d", pi, pch, m.Position().GetMsgID(), m.EndTs(), x.GetBase().GetTimestamp())
					}
				case *msgstream.DropPartitionMsg:
					if x.GetBase().GetTimestamp() != m.EndTs() {
						a.v("C03/wire-ts-disagree/drop-partition", "pack %d on %s: drop-partition message %s is stamped %d but its serialized request base carries %d", pi, pch, m.Position().GetMsgID(), m.EndTs(), x.GetBase().GetTimestamp())
					}
				}
				var rows []uint64
				switch x := m.(type) {
				case *msgstream.InsertMsg:
					rows = x.Timestamps
				case *msgstream.DeleteMsg:
					rows = x.Timestamps
				}
				for _, rt := range rows {
					if rt != m.EndTs() {
						a.v("C03/row-ts-disagree", "pack %d on %s: message %s has row timestamp %d, message ts %d", pi, pch, m.Position().GetMsgID(), rt, m.EndTs())
						break
					}
				}
			}
			if len(earlier) > 0 && tick < earlier[len(earlier)-1].tick {
				e := earlier[len(earlier)-1]
				sig := "C03/tick-decreases"
				if computedIdx[p] >= 0 && computedIdx[e.p] >= 0 && computedIdx[p] < computedIdx[e.p] {
					sig = "C03/overtake"
				}
				a.v(sig, "channel %s: closing tick %d of pack %d is below closing tick %d of pack %d", pch, tick, pi, e.tick, e.i)
			}
			if hasData {
				var lo, hi uint64
				for _, m := range msgs {
					if isTick(m) {
						continue
					}
					if lo == 0 || m.BeginTs() < lo {
						lo = m.BeginTs()
					}
					if m.EndTs() > hi {
						hi = m.EndTs()
					}
				}
				mp := p.MsgPack
				if mp.BeginTs != lo || mp.EndTs != hi {
					a.v("C03/pack-ts-disagree", "pack %d on %s: begin/end %d/%d, messages span %d..%d, closing tick %d", pi, pch, mp.BeginTs, mp.EndTs, lo, hi, tick)
				}
				for _, pos := range mp.StartPositions {
					if pos.Timestamp != mp.BeginTs {
						a.v("C03/position-ts-disagree", "pack %d on %s: start position ts %d, pack begin %d", pi, pch, pos.Timestamp, mp.BeginTs)
					}
				}
				for _, pos := range mp.EndPositions {
					if pos.Timestamp != mp.EndTs {
						a.v("C03/position-ts-disagree", "pack %d on %s: end position ts %d, pack end %d", pi, pch, pos.Timestamp, mp.EndTs)
					}
				}
			}
			earlier = append(earlier, closed{tick, p, pi})
		}
	}
	// messages of one source shard keep their relative time order
	perStream := map[string][]*plEmitted{}
	for _, e := range a.emitted {
		if e.Src != nil {
			perStream[e.Src.Stream] = append(perStream[e.Src.Stream], e)
		}
	}
	for stream, es := range perStream {
		for i := 0; i < len(es); i++ {
			for j := i + 1; j < len(es); j++ {
				x, y := es[i], es[j]
				switch {
				case x.Src.Ts < y.Src.Ts && !(x.Msg.EndTs() < y.Msg.EndTs()):
					a.v("C03/relative-order", "stream %s: %s (src %d) before %s (src %d) but emitted ts %d / %d", stream, x.ID, x.Src.Ts, y.ID, y.Src.Ts, x.Msg.EndTs(), y.Msg.EndTs())
				case x.Src.Ts == y.Src.Ts && x.Msg.EndTs() != y.Msg.EndTs():
					a.v("C03/equal-split", "stream %s: %s and %s share source ts %d but were emitted with %d / %d", stream, x.ID, y.ID, x.Src.Ts, x.Msg.EndTs(), y.Msg.EndTs())
				case x.Src.Ts > y.Src.Ts && !(x.Msg.EndTs() > y.Msg.EndTs()):
					a.v("C03/relative-order", "stream %s: %s (src %d) after %s (src %d) but emitted ts %d / %d", stream, x.ID, x.Src.Ts, y.ID, y.Src.Ts, x.Msg.EndTs(), y.Msg.EndTs())
				}
			}
		}
	}
}

// ---------------------------------------------------------------------------------------------
// C04: a drop is replayed once, after every shard reached it

type plDrop struct {
	kind    string // coll | part
	coll    *plColl
	part    string
	ts      uint64
	packIdx map[string]int // stream -> index of the pack carrying the drop message
}

func (r *plRun) scriptedDrops() []*plDrop {
	var out []*plDrop
	for _, c := range r.sc.Colls {
		drops := map[string]*plDrop{}
		for _, sh := range c.Shards {
			for pi, p := range sh.Script {
				for _, m := range p.Msgs {
					var key string
					switch m.Kind {
					case "dropColl":
						key = "coll"
					case "dropPart":
						key = "part:" + m.Part
					default:
						continue
					}
					d := drops[key]
					if d == nil {
						d = &plDrop{kind: strings.SplitN(key, ":", 2)[0], coll: c, part: m.Part, ts: plTs(m.Ms, m.Lg), packIdx: map[string]int{}}
						drops[key] = d
					}
					d.packIdx[sh.SrcV] = pi
				}
			}
		}
		for _, d := range drops {
			out = append(out, d)
		}
	}
	return out
}

func (a *plAnalysis) checkC04(expectSynthetic map[string]bool) {
	r := a.r
	count := map[string]int{}
	for i, e := range r.events {
		var key string
		switch e.EventType {
		case api.ReplicateDropCollection:
			key = fmt.Sprintf("coll/%s/%s", e.ReplicateParam.Database, e.CollectionInfo.Schema.Name)
		case api.ReplicateDropPartition:
			key = fmt.Sprintf("part/%s/%s/%s", e.ReplicateParam.Database, e.CollectionInfo.Schema.Name, e.PartitionInfo.PartitionName)
		default:
			continue
		}
		count[key]++
		matched := false
		for _, d := range r.scriptedDrops() {
			dk := fmt.Sprintf("coll/%s/%s", d.coll.DB, d.coll.Name)
			if d.kind == "part" {
				dk = fmt.Sprintf("part/%s/%s/%s", d.coll.DB, d.coll.Name, d.part)
			}
			if dk != key {
				continue
			}
			matched = true
			if expectSynthetic[key] {
				// dropped upstream while CDC was down: the request is generated from the seek position at restart,
				// before (and regardless of) the re-read drop messages
				continue
			}
			if len(d.packIdx) == len(d.coll.Shards) { // a complete drop: every shard carries the message
				for _, sh := range d.coll.Shards {
					if r.evDelivered[i][sh.SrcV] <= d.packIdx[sh.SrcV] {
						a.v("C04/early-drop/"+d.kind, "drop request %s issued when shard %s had only delivered %d packs (its drop message is in pack %d)", key, sh.SrcV, r.evDelivered[i][sh.SrcV], d.packIdx[sh.SrcV])
					}
				}
			} else {
				a.v("C04/partial-drop/"+d.kind, "drop request %s issued although only %d of %d shards carry the drop message", key, len(d.packIdx), len(d.coll.Shards))
			}
			if e.ReplicateInfo == nil || !e.ReplicateInfo.IsReplicate || e.ReplicateInfo.MsgTimestamp != d.ts {
				a.v("C20/event-stamp/drop-"+d.kind, "drop request %s carries replicate info %v, the drop message has begin ts %d", key, e.ReplicateInfo, d.ts)
			}
			if e.TaskID != "task-"+d.coll.Name {
				a.v("C04/drop-task/"+d.kind, "drop request %s attributed to task %q", key, e.TaskID)
			}
		}
		if !matched && !expectSynthetic[key] {
			a.v("C04/spurious-drop", "drop request %s issued but no such drop was read (stop / pause must not produce drops)", key)
		}
	}
	for k, n := range count {
		if n > 1 {
			a.v("C04/duplicate-drop", "drop request %s issued %d times", k, n)
		}
	}
	for _, d := range r.scriptedDrops() {
		key := fmt.Sprintf("coll/%s/%s", d.coll.DB, d.coll.Name)
		if d.kind == "part" {
			key = fmt.Sprintf("part/%s/%s/%s", d.coll.DB, d.coll.Name, d.part)
		}
		if len(d.packIdx) == len(d.coll.Shards) && count[key] == 0 && r.mq.Pending() == 0 && !r.stopped(d.coll) {
			a.v("C04/missing-drop/"+d.kind, "every shard delivered the drop message of %s but no drop request was issued", key)
		}
	}
	for k := range expectSynthetic {
		if count[k] == 0 && r.noCheckpointAnywhere() {
			// (own signature: without any position the handler has nothing to stamp the message with - a TODO in AddCollection)
			a.v("C04/missing-synthetic-drop/no-checkpoint", "object %s was dropped upstream while CDC was down and still exists downstream, but no drop request was issued after restart: neither it nor any collection sharing its channels was started from a checkpoint", k)
			continue
		}
		if count[k] == 0 {
			a.v("C04/missing-synthetic-drop", "object %s was dropped upstream while CDC was down and still exists downstream, but no drop request was issued after restart", k)
		}
	}
}

// noCheckpointAnywhere: no collection of the scenario is started from a seek position
func (r *plRun) noCheckpointAnywhere() bool {
	for _, c := range r.sc.Colls {
		if c.SeekMs != 0 {
			return false
		}
	}
	return true
}

func (r *plRun) stopped(c *plColl) bool {
	for _, d := range r.sc.Drivers {
		if d.Kind == "stop" && r.sc.Colls[d.Coll] == c {
			return true
		}
	}
	return false
}

func plSummary(r *plRun) string {
	var parts []string
	var chans []string
	for pch := range r.outs {
		chans = append(chans, pch)
	}
	sort.Strings(chans)
	for _, pch := range chans {
		s := pch + ":"
		for _, p := range r.outs[pch] {
			s += "["
			for _, m := range p.MsgPack.Msgs {
				if isTick(m) {
					s += "t"
				} else {
					s += string(m.Position().GetMsgID()) + " "
				}
			}
			s += "]"
		}
		parts = append(parts, s)
	}
	for _, e := range r.events {
		parts = append(parts, "ev:"+e.EventType.String())
	}
	return strings.Join(parts, " ")
}
