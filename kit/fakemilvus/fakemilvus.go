// Package fakemilvus is an in-process gRPC Milvus (loopback TCP) for driving the REAL Milvus SDK client that
// milvus-cdc uses downstream (MilvusDataHandler, TargetClient): every RPC is recorded with the database it was
// routed to (the SDK's `dbname` metadata header) and its decoded request; answers are scripted per call.
package fakemilvus

import (
	"context"
	"fmt"
	"net"
	"strings"
	"sync"

	"github.com/milvus-io/milvus-proto/go-api/v2/commonpb"
	"github.com/milvus-io/milvus-proto/go-api/v2/milvuspb"
	"github.com/milvus-io/milvus-proto/go-api/v2/schemapb"
	"google.golang.org/grpc"
	"google.golang.org/grpc/codes"
	"google.golang.org/grpc/metadata"
	"google.golang.org/grpc/status"
	"google.golang.org/protobuf/proto"
)

type Call struct {
	Method string // short method name, e.g. "DropCollection"
	DB     string // database the call was routed to ("" = header absent)
	Req    proto.Message
}

type Server struct {
	milvuspb.UnimplementedMilvusServiceServer
	mu    sync.Mutex
	calls []Call
	// Answer decides the outcome of a call before it is served: nil = serve normally; a gRPC status error is
	// returned as a transport-level error; ErrStatus makes the method answer with a failed commonpb.Status.
	Answer func(method, db string, req proto.Message) error
	// Partitions: db/collection -> partition name -> id (default: {"_default": 1})
	Partitions map[string]map[string]int64
	// Missing: db/collection names that do not exist
	Missing map[string]bool
	// Databases listed by ListDatabases
	Databases []string
	Addr      string
	lis       net.Listener
	srv       *grpc.Server
}

// ErrStatus makes the served method answer with an application-level error status instead of a transport error.
type ErrStatus struct{ Reason string }

func (e ErrStatus) Error() string { return "fakemilvus status error: " + e.Reason }

func Start() (*Server, error) {
	s := &Server{Partitions: map[string]map[string]int64{}, Missing: map[string]bool{}, Databases: []string{"default"}}
	if err := s.listen("127.0.0.1:0"); err != nil {
		return nil, err
	}
	return s, nil
}

func (s *Server) listen(addr string) error {
	lis, err := net.Listen("tcp", addr)
	if err != nil {
		return err
	}
	s.lis = lis
	s.Addr = lis.Addr().String()
	s.srv = grpc.NewServer(grpc.UnaryInterceptor(s.intercept))
	milvuspb.RegisterMilvusServiceServer(s.srv, s)
	go func() { _ = s.srv.Serve(lis) }()
	return nil
}

// Stop makes the downstream unreachable (the port stays reserved by nobody: connections are refused).
func (s *Server) Stop() { s.srv.Stop() }

// Restart brings the server back on the same address.
func (s *Server) Restart() error { return s.listen(s.Addr) }

type failKey struct{}

func (s *Server) intercept(ctx context.Context, req interface{}, info *grpc.UnaryServerInfo, handler grpc.UnaryHandler) (interface{}, error) {
	m := info.FullMethod[strings.LastIndex(info.FullMethod, "/")+1:]
	db := ""
	if md, ok := metadata.FromIncomingContext(ctx); ok {
		if v := md.Get("dbname"); len(v) > 0 {
			db = v[0]
		}
	}
	pm, _ := req.(proto.Message)
	s.mu.Lock()
	if pm != nil {
		s.calls = append(s.calls, Call{Method: m, DB: db, Req: proto.Clone(pm)})
	}
	ans := s.Answer
	s.mu.Unlock()
	if ans != nil && m != "Connect" {
		if err := ans(m, db, pm); err != nil {
			if es, ok := err.(ErrStatus); ok {
				ctx = context.WithValue(ctx, failKey{}, es.Reason)
			} else {
				return nil, err
			}
		}
	}
	return handler(ctx, req)
}

func st(ctx context.Context) *commonpb.Status {
	if r, ok := ctx.Value(failKey{}).(string); ok {
		return &commonpb.Status{ErrorCode: commonpb.ErrorCode_UnexpectedError, Code: 65535, Reason: r}
	}
	return &commonpb.Status{}
}

// Calls returns and clears the recorded calls (Connect handshakes are dropped).
func (s *Server) Calls() []Call {
	s.mu.Lock()
	defer s.mu.Unlock()
	var out []Call
	for _, c := range s.calls {
		if c.Method != "Connect" {
			out = append(out, c)
		}
	}
	s.calls = nil
	return out
}

func key(db, coll string) string {
	if db == "" {
		db = "default"
	}
	return db + "/" + coll
}

func dbOf(ctx context.Context) string {
	if md, ok := metadata.FromIncomingContext(ctx); ok {
		if v := md.Get("dbname"); len(v) > 0 {
			return v[0]
		}
	}
	return ""
}

func (s *Server) Connect(ctx context.Context, r *milvuspb.ConnectRequest) (*milvuspb.ConnectResponse, error) {
	return &milvuspb.ConnectResponse{Status: &commonpb.Status{}, ServerInfo: &commonpb.ServerInfo{BuildTags: "fake", Reserved: map[string]string{}}, Identifier: 1}, nil
}

func (s *Server) notFound(ctx context.Context, coll string) bool {
	s.mu.Lock()
	defer s.mu.Unlock()
	return s.Missing[key(dbOf(ctx), coll)]
}

func (s *Server) DescribeCollection(ctx context.Context, r *milvuspb.DescribeCollectionRequest) (*milvuspb.DescribeCollectionResponse, error) {
	if s.notFound(ctx, r.CollectionName) {
		return &milvuspb.DescribeCollectionResponse{Status: &commonpb.Status{ErrorCode: commonpb.ErrorCode_CollectionNotExists, Code: 100, Reason: "collection not found[collection=" + r.CollectionName + "]"}}, nil
	}
	return &milvuspb.DescribeCollectionResponse{Status: st(ctx), CollectionID: 4242, CollectionName: r.CollectionName, DbName: dbOf(ctx),
		VirtualChannelNames: []string{"tgt-dml_0_4242v0"}, PhysicalChannelNames: []string{"tgt-dml_0"}, ShardsNum: 1,
		Schema: &schemapb.CollectionSchema{Name: r.CollectionName, Fields: []*schemapb.FieldSchema{{FieldID: 100, Name: "pk", IsPrimaryKey: true, DataType: schemapb.DataType_Int64},
			{FieldID: 101, Name: "vec", DataType: schemapb.DataType_FloatVector, TypeParams: []*commonpb.KeyValuePair{{Key: "dim", Value: "4"}}},
			{FieldID: 102, Name: "f2", DataType: schemapb.DataType_FloatVector, TypeParams: []*commonpb.KeyValuePair{{Key: "dim", Value: "4"}}}}}}, nil
}

func (s *Server) HasCollection(ctx context.Context, r *milvuspb.HasCollectionRequest) (*milvuspb.BoolResponse, error) {
	return &milvuspb.BoolResponse{Status: st(ctx), Value: !s.notFound(ctx, r.CollectionName)}, nil
}

func (s *Server) HasPartition(ctx context.Context, r *milvuspb.HasPartitionRequest) (*milvuspb.BoolResponse, error) {
	s.mu.Lock()
	_, ok := s.Partitions[key(dbOf(ctx), r.CollectionName)][r.PartitionName]
	s.mu.Unlock()
	return &milvuspb.BoolResponse{Status: st(ctx), Value: ok || r.PartitionName == "_default"}, nil
}

func (s *Server) ShowPartitions(ctx context.Context, r *milvuspb.ShowPartitionsRequest) (*milvuspb.ShowPartitionsResponse, error) {
	if s.notFound(ctx, r.CollectionName) {
		return &milvuspb.ShowPartitionsResponse{Status: &commonpb.Status{ErrorCode: commonpb.ErrorCode_CollectionNotExists, Code: 100, Reason: "collection not found"}}, nil
	}
	resp := &milvuspb.ShowPartitionsResponse{Status: st(ctx)}
	s.mu.Lock()
	ps := s.Partitions[key(dbOf(ctx), r.CollectionName)]
	if ps == nil {
		ps = map[string]int64{"_default": 1}
	}
	for n, id := range ps {
		resp.PartitionNames = append(resp.PartitionNames, n)
		resp.PartitionIDs = append(resp.PartitionIDs, id)
		resp.CreatedTimestamps = append(resp.CreatedTimestamps, 1)
		resp.CreatedUtcTimestamps = append(resp.CreatedUtcTimestamps, 1)
		resp.InMemoryPercentages = append(resp.InMemoryPercentages, 0)
	}
	s.mu.Unlock()
	return resp, nil
}

func (s *Server) ShowCollections(ctx context.Context, r *milvuspb.ShowCollectionsRequest) (*milvuspb.ShowCollectionsResponse, error) {
	return &milvuspb.ShowCollectionsResponse{Status: st(ctx)}, nil
}

func (s *Server) ListDatabases(ctx context.Context, r *milvuspb.ListDatabasesRequest) (*milvuspb.ListDatabasesResponse, error) {
	s.mu.Lock()
	defer s.mu.Unlock()
	return &milvuspb.ListDatabasesResponse{Status: st(ctx), DbNames: append([]string{}, s.Databases...)}, nil
}

func (s *Server) CreateCollection(ctx context.Context, r *milvuspb.CreateCollectionRequest) (*commonpb.Status, error) {
	return st(ctx), nil
}
func (s *Server) DropCollection(ctx context.Context, r *milvuspb.DropCollectionRequest) (*commonpb.Status, error) {
	return st(ctx), nil
}
func (s *Server) CreatePartition(ctx context.Context, r *milvuspb.CreatePartitionRequest) (*commonpb.Status, error) {
	return st(ctx), nil
}
func (s *Server) DropPartition(ctx context.Context, r *milvuspb.DropPartitionRequest) (*commonpb.Status, error) {
	return st(ctx), nil
}
func (s *Server) CreateIndex(ctx context.Context, r *milvuspb.CreateIndexRequest) (*commonpb.Status, error) {
	return st(ctx), nil
}
func (s *Server) DropIndex(ctx context.Context, r *milvuspb.DropIndexRequest) (*commonpb.Status, error) {
	return st(ctx), nil
}
func (s *Server) AlterIndex(ctx context.Context, r *milvuspb.AlterIndexRequest) (*commonpb.Status, error) {
	return st(ctx), nil
}
func (s *Server) DescribeIndex(ctx context.Context, r *milvuspb.DescribeIndexRequest) (*milvuspb.DescribeIndexResponse, error) {
	return &milvuspb.DescribeIndexResponse{Status: st(ctx), IndexDescriptions: []*milvuspb.IndexDescription{{IndexName: r.IndexName, FieldName: r.FieldName, State: commonpb.IndexState_Finished}}}, nil
}
func (s *Server) LoadCollection(ctx context.Context, r *milvuspb.LoadCollectionRequest) (*commonpb.Status, error) {
	return st(ctx), nil
}
func (s *Server) ReleaseCollection(ctx context.Context, r *milvuspb.ReleaseCollectionRequest) (*commonpb.Status, error) {
	return st(ctx), nil
}
func (s *Server) LoadPartitions(ctx context.Context, r *milvuspb.LoadPartitionsRequest) (*commonpb.Status, error) {
	return st(ctx), nil
}
func (s *Server) ReleasePartitions(ctx context.Context, r *milvuspb.ReleasePartitionsRequest) (*commonpb.Status, error) {
	return st(ctx), nil
}
func (s *Server) GetLoadingProgress(ctx context.Context, r *milvuspb.GetLoadingProgressRequest) (*milvuspb.GetLoadingProgressResponse, error) {
	return &milvuspb.GetLoadingProgressResponse{Status: st(ctx), Progress: 100}, nil
}
func (s *Server) Flush(ctx context.Context, r *milvuspb.FlushRequest) (*milvuspb.FlushResponse, error) {
	return &milvuspb.FlushResponse{Status: st(ctx), DbName: r.DbName}, nil
}
func (s *Server) CreateDatabase(ctx context.Context, r *milvuspb.CreateDatabaseRequest) (*commonpb.Status, error) {
	return st(ctx), nil
}
func (s *Server) DropDatabase(ctx context.Context, r *milvuspb.DropDatabaseRequest) (*commonpb.Status, error) {
	return st(ctx), nil
}
func (s *Server) AlterDatabase(ctx context.Context, r *milvuspb.AlterDatabaseRequest) (*commonpb.Status, error) {
	return st(ctx), nil
}
func (s *Server) CreateCredential(ctx context.Context, r *milvuspb.CreateCredentialRequest) (*commonpb.Status, error) {
	return st(ctx), nil
}
func (s *Server) UpdateCredential(ctx context.Context, r *milvuspb.UpdateCredentialRequest) (*commonpb.Status, error) {
	return st(ctx), nil
}
func (s *Server) DeleteCredential(ctx context.Context, r *milvuspb.DeleteCredentialRequest) (*commonpb.Status, error) {
	return st(ctx), nil
}
func (s *Server) CreateRole(ctx context.Context, r *milvuspb.CreateRoleRequest) (*commonpb.Status, error) {
	return st(ctx), nil
}
func (s *Server) DropRole(ctx context.Context, r *milvuspb.DropRoleRequest) (*commonpb.Status, error) {
	return st(ctx), nil
}
func (s *Server) OperateUserRole(ctx context.Context, r *milvuspb.OperateUserRoleRequest) (*commonpb.Status, error) {
	return st(ctx), nil
}
func (s *Server) OperatePrivilege(ctx context.Context, r *milvuspb.OperatePrivilegeRequest) (*commonpb.Status, error) {
	return st(ctx), nil
}
func (s *Server) Insert(ctx context.Context, r *milvuspb.InsertRequest) (*milvuspb.MutationResult, error) {
	return &milvuspb.MutationResult{Status: st(ctx), IDs: &schemapb.IDs{IdField: &schemapb.IDs_IntId{IntId: &schemapb.LongArray{Data: []int64{1}}}}, InsertCnt: 1}, nil
}
func (s *Server) Delete(ctx context.Context, r *milvuspb.DeleteRequest) (*milvuspb.MutationResult, error) {
	return &milvuspb.MutationResult{Status: st(ctx), DeleteCnt: 1}, nil
}
func (s *Server) ReplicateMessage(ctx context.Context, r *milvuspb.ReplicateMessageRequest) (*milvuspb.ReplicateMessageResponse, error) {
	return &milvuspb.ReplicateMessageResponse{Status: st(ctx), Position: fmt.Sprintf("dGd0OiVz")}, nil
}

// Unavailable is a transport-level failure answer.
func Unavailable() error { return status.Error(codes.Unavailable, "fakemilvus: injected transport failure") }
