package server

// C18: credentials never appear in API responses or logs. The process logger is swapped for a buffer at
// debug level; canary secrets are put into every credential field; create requests (Milvus with token,
// Milvus with user/password, Kafka with SASL) are sent through the real HTTP handler on success, with every
// validation failure, and with the metadata store failing at every call index of create and of the
// follow-up get / list / pause / resume / restart / delete sequence.

import (
	"bytes"
	"sort"
	"encoding/json"
	"errors"
	"fmt"
	"net/http"
	"os"
	"strings"
	"sync"
	"testing"

	"go.uber.org/zap"
	"go.uber.org/zap/zapcore"

	"github.com/zilliztech/milvus-cdc/core/log"
	"github.com/zilliztech/milvus-cdc/core/verifkit/ev"
)

var c18Canaries = []string{"PWCANARYaaa111", "TOKENCANARYbbb222", "SASLUSERCANARYccc333", "SASLPWCANARYddd444"}

type c18Buf struct {
	mu sync.Mutex
	b  bytes.Buffer
}

func (b *c18Buf) Write(p []byte) (int, error) { b.mu.Lock(); defer b.mu.Unlock(); return b.b.Write(p) }
func (b *c18Buf) Sync() error                 { return nil }
func (b *c18Buf) String() string              { b.mu.Lock(); defer b.mu.Unlock(); return b.b.String() }

func c18Capture() (*c18Buf, func()) {
	buf := &c18Buf{}
	enc := zapcore.NewJSONEncoder(zap.NewProductionEncoderConfig())
	l := zap.New(zapcore.NewCore(enc, buf, zapcore.DebugLevel))
	restore := log.VerifSwapLogger(l)
	return buf, restore
}

func c18Creates() map[string]map[string]interface{} {
	base := func() map[string]interface{} {
		return map[string]interface{}{
			"task_id":          "sec",
			"collection_infos": []interface{}{map[string]interface{}{"name": "a"}},
			"buffer_config":    map[string]interface{}{"period": 1, "size": 1},
		}
	}
	tok := base()
	tok["milvus_connect_param"] = map[string]interface{}{"uri": "milvus-a:19530", "token": c18Canaries[1], "connect_timeout": 1, "channel_num": 2}
	up := base()
	up["milvus_connect_param"] = map[string]interface{}{"host": "milvus-b", "port": 19530, "username": "root", "password": c18Canaries[0], "connect_timeout": 1, "channel_num": 2}
	kf := base()
	kf["kafka_connect_param"] = map[string]interface{}{"address": "kafka:9092", "topic": "t", "enable_sasl": true,
		"sasl": map[string]interface{}{"username": c18Canaries[2], "password": c18Canaries[3], "mechanisms": "PLAIN", "security_protocol": "SASL_SSL"}}
	// SASL credentials filled in while the switch that turns SASL on is off (they are secrets all the same)
	kfOff := base()
	kfOff["kafka_connect_param"] = map[string]interface{}{"address": "kafka:9092", "topic": "t", "enable_sasl": false,
		"sasl": map[string]interface{}{"username": c18Canaries[2], "password": c18Canaries[3], "mechanisms": "PLAIN", "security_protocol": "SASL_SSL"}}
	// credentials with characters that are written differently inside JSON text (quote, backslash, & < >): whatever
	// masks on a serialized form has to cope with them (the detector looks for the alphanumeric core of each canary)
	special := "\"q\\z&<>"
	upS := base()
	upS["milvus_connect_param"] = map[string]interface{}{"host": "milvus-b", "port": 19530, "username": "root", "password": c18Canaries[0] + special, "connect_timeout": 1, "channel_num": 2}
	kfS := base()
	kfS["kafka_connect_param"] = map[string]interface{}{"address": "kafka:9092", "topic": "t", "enable_sasl": true,
		"sasl": map[string]interface{}{"username": c18Canaries[2] + special, "password": c18Canaries[3] + special, "mechanisms": "PLAIN", "security_protocol": "SASL_SSL"}}
	return map[string]map[string]interface{}{"milvus-token": tok, "milvus-userpass": up, "kafka-sasl": kf, "kafka-sasl-off": kfOff, "milvus-userpass-special": upS, "kafka-sasl-special": kfS}
}

func c18Leak(where string, text string) string {
	for _, c := range c18Canaries {
		if i := strings.Index(text, c); i >= 0 {
			lo := i - 160
			if lo < 0 {
				lo = 0
			}
			hi := i + len(c) + 60
			if hi > len(text) {
				hi = len(text)
			}
			line := text[lo:hi]
			// log signature: the message of the log line that leaked
			msg := ""
			if j := strings.LastIndex(text[:i], `"msg":"`); j >= 0 {
				msg = text[j+7:]
				if k := strings.Index(msg, `"`); k >= 0 {
					msg = msg[:k]
				}
			}
			return fmt.Sprintf("%s|%s|%s", where, msg, line)
		}
	}
	return ""
}

var errC18Fault = errors.New("injected store failure")

type c18Case struct {
	Kind    string `json:"kind"`
	Adv     string `json:"adversarial,omitempty"`
	FaultAt int    `json:"fault_at,omitempty"`   // store call index during create
	Follow  string `json:"follow,omitempty"`     // follow-up op with a fault
	FFault  int    `json:"follow_fault,omitempty"`
	RealDial bool  `json:"real_dial,omitempty"`
	Mutated string `json:"mutated_request_data,omitempty"` // JSON of the request data with one subtree replaced (type confusion: the decode step fails)
}

func c18Run(cs c18Case) (viol string, sig string) {
	buf, restore := c18Capture()
	defer restore()
	env := newVEnv()
	defer env.close()
	if cs.RealDial {
		verifSkipConnect.Store(false)
		defer verifSkipConnect.Store(true)
	}
	d := c18Creates()[cs.Kind]
	if cs.RealDial {
		if m, ok := d["milvus_connect_param"].(map[string]interface{}); ok {
			delete(m, "host")
			delete(m, "port")
			m["uri"] = "127.0.0.1:1" // closed port: the connectivity probe fails
		}
		if k, ok := d["kafka_connect_param"].(map[string]interface{}); ok {
			k["address"] = "127.0.0.1:1"
		}
	}
	if cs.Adv != "" {
		for _, a := range c19Adversarial() {
			if a.Name == cs.Adv {
				// keep the credential-bearing connect params; only apply mutations that do not replace them
				save1, save2 := d["milvus_connect_param"], d["kafka_connect_param"]
				a.Mut(d)
				if save1 != nil && d["milvus_connect_param"] == nil && a.Name != "no-target" && a.Name != "kafka-no-topic" {
					d["milvus_connect_param"] = save1
				}
				if save2 != nil && d["kafka_connect_param"] == nil {
					d["kafka_connect_param"] = save2
				}
			}
		}
	}
	var bodies []string
	send := func(typ string, data interface{}, faultAt int) {
		if faultAt > 0 {
			n := 0
			env.fe.Hook = func(o, k string) error {
				n++
				if n == faultAt {
					return errC18Fault
				}
				return nil
			}
		}
		a := c19Do(env, http.MethodPost, c19Body(typ, data))
		env.fe.Hook = nil
		bodies = append(bodies, a.Body)
		if a.Panic != "" {
			bodies = append(bodies, "PANIC "+a.Panic)
		}
	}
	if cs.Mutated != "" {
		var md interface{}
		_ = json.Unmarshal([]byte(cs.Mutated), &md)
		send("create", md, 0)
	} else {
		send("create", d, cs.FaultAt)
	}
	id := map[string]interface{}{"task_id": "sec"}
	seq := []string{"get", "list", "pause", "get", "resume", "list", "restart", "get", "position", "delete"}
	for _, op := range seq {
		f := 0
		if op == cs.Follow {
			f = cs.FFault
		}
		switch op {
		case "restart":
			if f > 0 {
				n := 0
				env.fe.Hook = func(o, k string) error {
					n++
					if n == f {
						return errC18Fault
					}
					return nil
				}
			}
			func() {
				defer func() { _ = recover() }() // ReloadTask panics by design when the store cannot be read
				env.Restart()
			}()
			env.fe.Hook = nil
		case "list":
			send("list", map[string]interface{}{}, f)
		default:
			send(op, id, f)
		}
	}
	for _, b := range bodies {
		if l := c18Leak("response", b); l != "" {
			p := strings.SplitN(l, "|", 3)
			return "response: " + p[2], "C18/response/" + cs.Kind
		}
	}
	if l := c18Leak("log", buf.String()); l != "" {
		p := strings.SplitN(l, "|", 3)
		return fmt.Sprintf("log: the log line %q contains a credential: ...%s...", p[1], p[2]), "C18/log/" + p[1]
	}
	return "", ""
}

func TestVerifC18Secrets(t *testing.T) {
	res := ev.New("C18", "secrets")
	defer res.Write()
	if p := os.Getenv("VERIF_REPLAY"); p != "" {
		var f struct {
			Replay c18Case `json:"replay"`
		}
		b, _ := os.ReadFile(p)
		if err := json.Unmarshal(b, &f); err != nil {
			t.Fatal(err)
		}
		if v, sig := c18Run(f.Replay); v != "" {
			fmt.Println("REPLAY-VIOLATION", sig, v)
			res.Violate(sig, v, f.Replay)
		} else {
			fmt.Println("REPLAY-OK")
		}
		return
	}
	var cases []c18Case
	for kind := range c18Creates() {
		cases = append(cases, c18Case{Kind: kind})
		for _, a := range c19Adversarial() {
			cases = append(cases, c18Case{Kind: kind, Adv: a.Name})
		}
		for f := 1; f <= 8; f++ {
			cases = append(cases, c18Case{Kind: kind, FaultAt: f})
		}
		for _, op := range []string{"get", "list", "pause", "resume", "restart", "delete", "position"} {
			for f := 1; f <= 5; f++ {
				cases = append(cases, c18Case{Kind: kind, Follow: op, FFault: f})
			}
		}
		cases = append(cases, c18Case{Kind: kind, RealDial: true})
		// every single-subtree mutation of the request (type confusion, null, nesting, huge number): the decode / validation
		// error paths see a request that still carries the other credential fields
		var muts []string
		for _, m := range c19Mutate(c18Creates()[kind]) {
			b, err := json.Marshal(m)
			if err != nil {
				continue
			}
			muts = append(muts, string(b))
		}
		sort.Strings(muts)
		for i, m := range muts {
			if i > 0 && muts[i-1] == m {
				continue
			}
			cases = append(cases, c18Case{Kind: kind, Mutated: m})
		}
	}
	sort.SliceStable(cases, func(i, j int) bool { return cases[i].Kind < cases[j].Kind })
	res.Bounds["cases"] = len(cases)
	res.Rule = "for each credential-bearing create request kind (Milvus token, Milvus user+password, Kafka SASL user+password; canary secrets in every credential field): the plain request, every adversarial variant of the C19 list, a metadata-store failure at each of the first 8 store calls of create, a store failure at each of the first 5 store calls of each follow-up (get, list, pause, resume, restart, delete, position), one variant where the real connectivity probe runs against a closed loopback port, and every single-subtree mutation of the request data (13 mutant values per field: type confusion, null, nesting, huge number - the decode and validation error paths); all through the real HTTP handler with the process logger swapped for a debug-level buffer; oracle: no canary substring in any response body or log line; non-trivial = cases with a failure injected"
	for i, cs := range cases {
		if !ev.Mine(i) {
			continue
		}
		v, sig := c18Run(cs)
		res.Evaluations++
		res.States++
		res.Transitions++
		res.Traces++
		if v != "" {
			res.Violate(sig, fmt.Sprintf("case %+v: %s", cs, v), cs)
			continue
		}
		if cs.Adv != "" || cs.FaultAt > 0 || cs.FFault > 0 || cs.RealDial || cs.Mutated != "" {
			res.Nontrivial++
		}
		res.Outcome(cs.Kind)
		if i%37 == 0 {
			res.Sample(cs)
		}
	}
}
