package server

import (
	"encoding/base64"
	"encoding/json"

	"github.com/sasha-s/go-deadlock"
)

func jsonUnmarshalS(b []byte, v interface{}) error { return json.Unmarshal(b, v) }

func init() { deadlock.Opts.Disable = true }

func b64(b []byte) string { return base64Std(b) }

func base64Std(b []byte) string { return base64.StdEncoding.EncodeToString(b) }
