// Package memmq is an in-memory mqwrapper.Client (the interface Milvus' msgstream layer puts in front of
// Pulsar / Kafka): topics are append-only logs, a consumer reads from a cursor that Seek positions by
// message id. It exists so that the REAL MqTtMsgStream and the REAL msgdispatcher can be run without a
// broker, to check the seek / delivery rule that kit/fakemq models against the code CDC runs on.
package memmq

import (
	"context"
	"encoding/binary"
	"fmt"
	"strconv"
	"sync"

	"github.com/milvus-io/milvus/pkg/mq/common"
	"github.com/milvus-io/milvus/pkg/mq/msgstream"
	"github.com/milvus-io/milvus/pkg/mq/msgstream/mqwrapper"
)

type ID int64

func (i ID) Serialize() []byte {
	b := make([]byte, 8)
	binary.BigEndian.PutUint64(b, uint64(i))
	return b
}
func (i ID) AtEarliestPosition() bool { return i <= 0 }
func (i ID) LessOrEqualThan(b []byte) (bool, error) {
	o, err := parseID(b)
	return i <= o, err
}
func (i ID) Equal(b []byte) (bool, error) {
	o, err := parseID(b)
	return i == o, err
}

func parseID(b []byte) (ID, error) {
	if len(b) != 8 {
		return 0, fmt.Errorf("memmq: bad message id %q", b)
	}
	return ID(binary.BigEndian.Uint64(b)), nil
}

type message struct {
	topic   string
	id      ID
	payload []byte
	props   map[string]string
}

func (m *message) Topic() string                { return m.topic }
func (m *message) Properties() map[string]string { return m.props }
func (m *message) Payload() []byte              { return m.payload }
func (m *message) ID() common.MessageID         { return m.id }

type topic struct {
	mu      sync.Mutex
	msgs    []*message
	changed chan struct{} // closed and replaced on every append
}

type Client struct {
	mu     sync.Mutex
	topics map[string]*topic
}

func New() *Client { return &Client{topics: map[string]*topic{}} }

func (c *Client) topic(name string) *topic {
	c.mu.Lock()
	defer c.mu.Unlock()
	t, ok := c.topics[name]
	if !ok {
		t = &topic{changed: make(chan struct{})}
		c.topics[name] = t
	}
	return t
}

// Append adds one message to a topic and returns its id (ids start at 1).
func (c *Client) Append(topicName string, payload []byte, props map[string]string) ID {
	t := c.topic(topicName)
	t.mu.Lock()
	defer t.mu.Unlock()
	id := ID(len(t.msgs) + 1)
	t.msgs = append(t.msgs, &message{topic: topicName, id: id, payload: payload, props: props})
	close(t.changed)
	t.changed = make(chan struct{})
	return id
}

// AppendTsMsg marshals a message the way mqMsgStream.Produce does.
func (c *Client) AppendTsMsg(topicName string, m msgstream.TsMsg) (ID, error) {
	mb, err := m.Marshal(m)
	if err != nil {
		return 0, err
	}
	b, ok := mb.([]byte)
	if !ok {
		return 0, fmt.Errorf("memmq: marshal did not return bytes")
	}
	return c.Append(topicName, b, msgstream.GetPorperties(m)), nil
}

func (c *Client) CreateProducer(ctx context.Context, o common.ProducerOptions) (mqwrapper.Producer, error) {
	return &producer{c: c, topic: o.Topic}, nil
}

type producer struct {
	c     *Client
	topic string
}

func (p *producer) Send(ctx context.Context, m *common.ProducerMessage) (common.MessageID, error) {
	return p.c.Append(p.topic, m.Payload, m.Properties), nil
}
func (p *producer) Close() {}

func (c *Client) Subscribe(ctx context.Context, o mqwrapper.ConsumerOptions) (mqwrapper.Consumer, error) {
	t := c.topic(o.Topic)
	t.mu.Lock()
	cur := len(t.msgs) // latest / unknown: behind everything published so far
	if o.SubscriptionInitialPosition == common.SubscriptionPositionEarliest {
		cur = 0
	}
	t.mu.Unlock()
	buf := o.BufSize
	if buf <= 0 {
		buf = 16
	}
	return &consumer{t: t, sub: o.SubscriptionName, cursor: cur, buf: int(buf), closed: make(chan struct{})}, nil
}

func (c *Client) EarliestMessageID() common.MessageID { return ID(0) }
func (c *Client) StringToMsgID(s string) (common.MessageID, error) {
	v, err := strconv.ParseInt(s, 10, 64)
	return ID(v), err
}
func (c *Client) BytesToMsgID(b []byte) (common.MessageID, error) { return parseID(b) }
func (c *Client) Close()                                         {}

type consumer struct {
	t      *topic
	sub    string
	mu     sync.Mutex
	cursor int
	buf    int
	ch     chan common.Message
	once   sync.Once
	closed chan struct{}
	cOnce  sync.Once
}

func (c *consumer) Subscription() string { return c.sub }

func (c *consumer) Chan() <-chan common.Message {
	c.once.Do(func() {
		c.ch = make(chan common.Message, c.buf)
		go func() {
			defer close(c.ch)
			for {
				c.t.mu.Lock()
				c.mu.Lock()
				var m *message
				if c.cursor < len(c.t.msgs) {
					m = c.t.msgs[c.cursor]
					c.cursor++
				}
				c.mu.Unlock()
				changed := c.t.changed
				c.t.mu.Unlock()
				if m == nil {
					select {
					case <-changed:
						continue
					case <-c.closed:
						return
					}
				}
				select {
				case c.ch <- m:
				case <-c.closed:
					return
				}
			}
		}()
	})
	return c.ch
}

func (c *consumer) Seek(id common.MessageID, inclusive bool) error {
	want, ok := id.(ID)
	if !ok {
		return fmt.Errorf("memmq: foreign message id")
	}
	c.mu.Lock()
	defer c.mu.Unlock()
	if c.ch != nil {
		return fmt.Errorf("memmq: seek after Chan")
	}
	// ids are 1-based indexes
	c.cursor = int(want) - 1
	if !inclusive {
		c.cursor++
	}
	if c.cursor < 0 {
		c.cursor = 0
	}
	return nil
}

func (c *consumer) Ack(common.Message) {}
func (c *consumer) Close()             { c.cOnce.Do(func() { close(c.closed) }) }
func (c *consumer) GetLatestMsgID() (common.MessageID, error) {
	c.t.mu.Lock()
	defer c.t.mu.Unlock()
	return ID(len(c.t.msgs)), nil
}
func (c *consumer) CheckTopicValid(string) error { return nil }

// Factory builds the real Milvus message streams over the in-memory client.
type Factory struct {
	C *Client
}

func (f *Factory) NewMsgStream(ctx context.Context) (msgstream.MsgStream, error) {
	return msgstream.NewMqMsgStream(ctx, 1024, 1024, f.C, (&msgstream.ProtoUDFactory{}).NewUnmarshalDispatcher())
}
func (f *Factory) NewTtMsgStream(ctx context.Context) (msgstream.MsgStream, error) {
	return msgstream.NewMqTtMsgStream(ctx, 1024, 1024, f.C, (&msgstream.ProtoUDFactory{}).NewUnmarshalDispatcher())
}
func (f *Factory) NewMsgStreamDisposer(ctx context.Context) func([]string, string) error {
	return func([]string, string) error { return nil }
}

var _ msgstream.Factory = (*Factory)(nil)
var _ mqwrapper.Client = (*Client)(nil)
