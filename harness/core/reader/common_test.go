package reader

import (
	"encoding/json"

	schedpkg "github.com/zilliztech/milvus-cdc/core/verifkit/sched"
)

func jsonUnmarshalR(b []byte, v interface{}) error { return json.Unmarshal(b, v) }

func init() {
	// as cmd/main does by default; the lock-order checker spawns timer goroutines outside the bubble
	deadlockDisable()
}

func schedGoid() int64 { return schedpkg.Goid() }
