// Harness replacement (go build -overlay) for github.com/milvus-io/milvus/pkg/util/lock/key_lock.go in the
// server-level verification builds: the same keyed reader/writer lock, but a goroutine that has to wait blocks
// on a channel instead of inside sync.RWMutex. Inside a testing/synctest bubble a goroutine blocked on a
// bubble channel is durably blocked, so the controlled scheduler can park the lock holder at a scheduling
// point while contenders wait (with sync.Mutex the bubble would never become quiescent).
// Semantics kept: Lock excludes everybody, RLock excludes writers, no fairness promises (the original has none).
package lock

import "sync"

type keyState struct {
	writer  bool
	readers int
	refs    int
	waiters []chan struct{}
}

type KeyLock[K comparable] struct {
	keyLocksMutex sync.Mutex
	refLocks      map[K]*keyState
}

func NewKeyLock[K comparable]() *KeyLock[K] {
	return &KeyLock[K]{refLocks: make(map[K]*keyState)}
}

func (k *KeyLock[K]) acquire(key K, write bool) {
	k.keyLocksMutex.Lock()
	st, ok := k.refLocks[key]
	if !ok {
		st = &keyState{}
		k.refLocks[key] = st
	}
	st.refs++
	for {
		if write && !st.writer && st.readers == 0 {
			st.writer = true
			k.keyLocksMutex.Unlock()
			return
		}
		if !write && !st.writer {
			st.readers++
			k.keyLocksMutex.Unlock()
			return
		}
		ch := make(chan struct{})
		st.waiters = append(st.waiters, ch)
		k.keyLocksMutex.Unlock()
		<-ch
		k.keyLocksMutex.Lock()
	}
}

func (k *KeyLock[K]) release(key K, write bool) {
	k.keyLocksMutex.Lock()
	defer k.keyLocksMutex.Unlock()
	st, ok := k.refLocks[key]
	if !ok {
		return
	}
	if write {
		st.writer = false
	} else if st.readers > 0 {
		st.readers--
	}
	st.refs--
	ws := st.waiters
	st.waiters = nil
	for _, ch := range ws {
		close(ch)
	}
	if st.refs == 0 {
		delete(k.refLocks, key)
	}
}

func (k *KeyLock[K]) Lock(key K)    { k.acquire(key, true) }
func (k *KeyLock[K]) Unlock(key K)  { k.release(key, true) }
func (k *KeyLock[K]) RLock(key K)   { k.acquire(key, false) }
func (k *KeyLock[K]) RUnlock(key K) { k.release(key, false) }

func (k *KeyLock[K]) size() int {
	k.keyLocksMutex.Lock()
	defer k.keyLocksMutex.Unlock()
	return len(k.refLocks)
}
