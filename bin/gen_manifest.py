#!/usr/bin/env python3
"""Regenerates /verif/MANIFEST.json from bin/checks.py (single source of truth)."""
import json, os, sys, subprocess
VERIF = os.path.dirname(os.path.dirname(os.path.abspath(__file__)))
sys.path.insert(0, os.path.join(VERIF, "bin"))
from checks import CHECKS, HOOK_COMMITS, NOT_APPLICABLE  # noqa

props = [json.loads(l)["id"] for l in open(os.path.join(VERIF, "properties.jsonl"))]
baseline = json.load(open("/root/.vp/BASELINE.json"))["cmd"]
checks = []
for pid in props:
    if pid not in CHECKS:
        continue
    c = CHECKS[pid]
    checks.append(dict(
        property_id=pid,
        quick_cmd="bin/check %s quick" % pid,
        thorough_cmd="bin/check %s thorough" % pid,
        evidence_file="/verif/evidence/%s.json" % pid,
        replay_cmd_template="bin/check %s --replay {path}" % pid,
        engine=c.get("engine", "kit"),
        level_claimed=dict(category=c["level"], text=c["text"], design_ref=c.get("design_ref", "DESIGN.md §3 " + pid)),
        level_note=c["note"],
        technique=c["technique"],
    ))
na = [dict(property_id=p, reason=NOT_APPLICABLE.get(p, "check not built yet (work in progress); planned per DESIGN.md §3")) for p in props if p not in CHECKS]
m = dict(
    version=1,
    setup_cmd="bin/check --setup",
    hooks=dict(guard="verif", enable="go test -tags verif (bin/check builds every harness binary with -tags verif -overlay ... from /repo's working tree)",
               baseline_off_cmd=baseline, source_commits=HOOK_COMMITS, add_only=True),
    engines=[
        dict(name="sched", path="kit/sched", serves_properties=[p for p in props if p in CHECKS and "sched" in CHECKS[p].get("engine", "")],
             kind_free_text="stateless DFS over goroutine schedules / fault answers of the real code inside testing/synctest bubbles, deviation-bounded"),
        dict(name="seq", path="kit/seq + per-harness BFS", serves_properties=[p for p in props if p in CHECKS and "seq" in CHECKS[p].get("engine", "")],
             kind_free_text="explicit-state BFS / total enumeration over the real step functions, history replay on fresh objects, canonical state keys"),
    ],
    checks=checks,
    not_applicable=na,
    notes="All checks: bin/check <ID> [quick|thorough]; evidence/<ID>.json rewritten on every run; known findings in known_findings.json.",
)
json.dump(m, open(os.path.join(VERIF, "MANIFEST.json"), "w"), indent=1)
print("wrote MANIFEST.json: %d checks, %d not_applicable" % (len(checks), len(na)))
