//go:build verif

package reader

// Exports for the server-level verification harnesses (package server cannot reach the unexported
// constructors). Compiled only through the /verif overlay with the build tag "verif".

import (
	"sync"

	clientv3 "go.etcd.io/etcd/client/v3"

	"github.com/milvus-io/milvus/pkg/util/conc"
	"github.com/milvus-io/milvus/pkg/util/lock"
	"github.com/milvus-io/milvus/pkg/util/retry"
	"github.com/milvus-io/milvus/pkg/util/typeutil"

	"github.com/zilliztech/milvus-cdc/core/api"
	"github.com/zilliztech/milvus-cdc/core/log"
	"github.com/zilliztech/milvus-cdc/core/util"
)

// NewVerifEtcdOp builds the real EtcdOp around an injected etcd client (NewEtcdOp dials a server).
// Must be called inside the synctest bubble (it creates the event pool).
func NewVerifEtcdOp(cli *clientv3.Client, rootPath, metaSubPath string, target api.TargetAPI, retryOptions []retry.Option) *EtcdOp {
	return &EtcdOp{
		endpoints:             []string{"verif"},
		rootPath:              rootPath,
		metaSubPath:           metaSubPath,
		defaultPartitionName:  "_default",
		etcdClient:            cli,
		retryOptions:          retryOptions,
		handlerWatchEventPool: conc.NewPool[struct{}](16),
		startWatch:            make(chan struct{}),
		targetMilvus:          target,
	}
}

// VerifClose releases the pool of an EtcdOp built by NewVerifEtcdOp.
func (e *EtcdOp) VerifClose() { e.handlerWatchEventPool.Release() }

// VerifResetGlobals gives the process-wide singletons of this package a fresh state created inside the
// current bubble; the returned function releases what can be released.
func VerifResetGlobals() func() {
	tsOnce = sync.Once{}
	tsInstance = nil
	tsOnce.Do(func() {
		tsInstance = &tsManager{
			retryOptions:       util.NoRetryOption(),
			lastTS:             util.NewValue[uint64](0),
			rateLog:            log.NewRateLog(1, log.L()),
			channelTS2:         typeutil.NewConcurrentMap[string, *tsInfo](),
			channelTSLocks:     lock.NewKeyLock[string](),
			targetChannelChans: typeutil.NewConcurrentMap[string, chan string](),
		}
	})
	replicatePool = conc.NewPool[struct{}](10)
	p := replicatePool
	return func() { p.Release() }
}

var verifOutsidePools sync.Once

// VerifReleaseOutsidePools stops the goroutines of the package-level pool that was created at init, outside any
// bubble (its clock goroutine wakes up every 500 ms of real time and perturbs the run queue order of the schedule
// explorer; every harness execution installs its own pool).
func VerifReleaseOutsidePools() {
	verifOutsidePools.Do(func() { replicatePool.Release() })
}
