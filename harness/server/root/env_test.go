package server

// Environment for the server-level harnesses: a real MetaCDC built white-box (NewMetaCDC dials etcd,
// MySQL and the MQ) over
//   - the real etcd task / position stores running on the in-memory fakeetcd,
//   - a ReplicateEntity per target that is either "light" (recording channel manager, empty source:
//     enough for the bookkeeping / lifecycle / HTTP properties) or "full" (real channel manager, real
//     EtcdOp over a fakeetcd source catalog, fakemq, real ChannelWriter over fakedown).
// The harness pre-inserts the entity before every call that may start a task, replicating the tail of
// newReplicateEntity (startReplicateAPIEvent, startReplicateDMLChannel).

import (
	"context"
	"encoding/json"
	"fmt"
	"sort"
	"strings"
	"sync"

	"github.com/milvus-io/milvus-proto/go-api/v2/msgpb"
	"github.com/milvus-io/milvus/pkg/util/typeutil"
	clientv3 "go.etcd.io/etcd/client/v3"

	"github.com/zilliztech/milvus-cdc/core/api"
	"github.com/zilliztech/milvus-cdc/core/config"
	coremodel "github.com/zilliztech/milvus-cdc/core/model"
	"github.com/zilliztech/milvus-cdc/core/pb"
	"github.com/zilliztech/milvus-cdc/core/util"
	"github.com/zilliztech/milvus-cdc/core/verifkit/fakedown"
	"github.com/zilliztech/milvus-cdc/core/verifkit/fakeetcd"
	"github.com/zilliztech/milvus-cdc/core/verifkit/fakemq"
	cdcwriter "github.com/zilliztech/milvus-cdc/core/writer"
	serverapi "github.com/zilliztech/milvus-cdc/server/api"
	"github.com/zilliztech/milvus-cdc/server/metrics"
	"github.com/zilliztech/milvus-cdc/server/model"
	"github.com/zilliztech/milvus-cdc/server/model/meta"
	"github.com/zilliztech/milvus-cdc/server/model/request"
	"github.com/zilliztech/milvus-cdc/server/msgpacker"
	"github.com/zilliztech/milvus-cdc/server/store"
)

const vRoot = "cdc-root"

// ------------------------------------------------------------------------------------------------
// metadata store: the real etcd stores over fakeetcd

type vStore struct {
	*store.EtcdMetaStore
	fe  *fakeetcd.Fake
	cli *clientv3.Client
	ti  serverapi.MetaStore[*meta.TaskInfo]
	tp  serverapi.MetaStore[*meta.TaskCollectionPosition]
}

func newVStore(fe *fakeetcd.Fake) *vStore {
	s := &vStore{fe: fe, cli: fe.Client()}
	s.EtcdMetaStore = store.NewVerifEtcdMetaStore(s.cli, vRoot, &vRepStore{cli: s.cli, root: vRoot})
	s.ti = s.GetTaskInfoMetaStore(context.Background())
	s.tp = s.GetTaskCollectionPositionMetaStore(context.Background())
	return s
}

var _ serverapi.MetaStoreFactory = (*vStore)(nil)

// replicate store (task_msg records) on the same etcd, like meta.EtcdReplicateStore
type vRepStore struct {
	cli  *clientv3.Client
	root string
}

func (r *vRepStore) Get(ctx context.Context, key string, withPrefix bool) ([]api.MetaMsg, error) {
	var opts []clientv3.OpOption
	if withPrefix {
		opts = append(opts, clientv3.WithPrefix())
	}
	resp, err := r.cli.Get(ctx, r.root+"/"+key, opts...)
	if err != nil {
		return nil, err
	}
	var out []api.MetaMsg
	for _, kv := range resp.Kvs {
		var m api.MetaMsg
		if err := json.Unmarshal(kv.Value, &m); err != nil {
			return nil, err
		}
		out = append(out, m)
	}
	return out, nil
}
func (r *vRepStore) Put(ctx context.Context, key string, v api.MetaMsg) error {
	b, err := json.Marshal(v)
	if err != nil {
		return err
	}
	_, err = r.cli.Put(ctx, r.root+"/"+key, string(b))
	return err
}
func (r *vRepStore) Remove(ctx context.Context, key string) error {
	_, err := r.cli.Delete(ctx, r.root+"/"+key)
	return err
}

// ------------------------------------------------------------------------------------------------
// light entity parts

type lightCM struct {
	api.DefaultChannelManager
	mu      sync.Mutex
	started map[int64]int
	stopped map[int64]int
	chanCh  chan string
	eventCh chan *api.ReplicateAPIEvent
}

func newLightCM() *lightCM {
	return &lightCM{started: map[int64]int{}, stopped: map[int64]int{}, chanCh: make(chan string), eventCh: make(chan *api.ReplicateAPIEvent)}
}
func (l *lightCM) StartReadCollection(ctx context.Context, db *coremodel.DatabaseInfo, info *pb.CollectionInfo, s []*msgpb.MsgPosition, m map[string]uint64) error {
	l.mu.Lock()
	l.started[info.ID]++
	l.mu.Unlock()
	return nil
}
func (l *lightCM) StopReadCollection(ctx context.Context, info *pb.CollectionInfo) error {
	l.mu.Lock()
	l.stopped[info.ID]++
	l.mu.Unlock()
	return nil
}
func (l *lightCM) GetChannelChan() <-chan string                 { return l.chanCh }
func (l *lightCM) GetEventChan() <-chan *api.ReplicateAPIEvent   { return l.eventCh }
func (l *lightCM) GetMsgChan(p string) <-chan *api.ReplicateMsg  { return nil }

type lightMetaOp struct {
	api.DefaultMetaOp
	mu    sync.Mutex
	subs  map[string]int
	colls []*pb.CollectionInfo
}

func (m *lightMetaOp) SubscribeCollectionEvent(taskID string, c api.CollectionEventConsumer) {
	m.mu.Lock()
	m.subs[taskID]++
	m.mu.Unlock()
}
func (m *lightMetaOp) SubscribePartitionEvent(taskID string, c api.PartitionEventConsumer) {}
func (m *lightMetaOp) UnsubscribeEvent(taskID string, t api.WatchEventType) {
	m.mu.Lock()
	if t == api.CollectionEventType && m.subs[taskID] > 0 {
		m.subs[taskID]-- // (the real EtcdOp keeps one consumer per task id: removing a missing one is a no-op)
	}
	m.mu.Unlock()
}
func (m *lightMetaOp) GetAllCollection(ctx context.Context, f api.CollectionFilter) ([]*pb.CollectionInfo, error) {
	return m.colls, nil
}
func (m *lightMetaOp) GetAllPartition(ctx context.Context, f api.PartitionFilter) ([]*pb.PartitionInfo, error) {
	return nil, nil
}
func (m *lightMetaOp) GetAllDroppedObj() map[string]map[string]uint64 {
	return map[string]map[string]uint64{}
}
func (m *lightMetaOp) GetDatabaseInfoForCollection(ctx context.Context, id int64) coremodel.DatabaseInfo {
	return coremodel.DatabaseInfo{ID: 1, Name: "default"}
}

// ------------------------------------------------------------------------------------------------
// environment

type vEntity struct {
	uKey   string
	ent    *ReplicateEntity
	cm     *lightCM
	mo     *lightMetaOp
	cancel context.CancelFunc
	ctx    context.Context
}

type vEnv struct {
	fe       *fakeetcd.Fake
	st       *vStore
	mq       *fakemq.MQ
	down     *fakedown.Down
	cdc      *MetaCDC
	entities []*vEntity // every entity the harness created (for leak / cleanup checks)
	maxTasks int
}

func newVEnv() *vEnv {
	verifSkipConnect.Store(true)
	e := &vEnv{fe: fakeetcd.New(), mq: fakemq.New(nil), down: fakedown.New([]string{"tgt-dml_0", "tgt-dml_1"}), maxTasks: 100}
	e.st = newVStore(e.fe)
	metrics.VerifResetTaskNum()
	e.cdc = e.newCDC()
	e.install()
	return e
}

func (e *vEnv) config() *CDCServerConfig {
	return &CDCServerConfig{
		MaxTaskNum:    e.maxTasks,
		MaxNameLength: 256,
		Retry:         config.RetrySettings{RetryTimes: 1, InitBackOff: 1, MaxBackOff: 1},
		SourceConfig:  MilvusSourceConfig{ReplicateChan: "by-dev-replicate-msg", ChannelNum: 2, ReadChanLen: 16, TimeTickInterval: 500, DefaultPartitionName: "_default"},
		MetaStoreConfig: CDCMetaStoreConfig{RootPath: vRoot, StoreType: "etcd"},
		Packer:        msgpacker.PackerConfig{MaxCount: 1},
	}
}

// newCDC builds a fresh MetaCDC incarnation over the same durable store (what NewMetaCDC does minus the dialing).
func (e *vEnv) newCDC() *MetaCDC {
	cdc := &MetaCDC{metaStoreFactory: e.st, config: e.config(), rootPath: vRoot}
	cdc.collectionNames.data = make(map[string][]string)
	cdc.collectionNames.excludeData = make(map[string][]string)
	cdc.collectionNames.extraInfos = make(map[string]model.ExtraInfo)
	cdc.collectionNames.nameMapping = make(map[string]map[string]string)
	cdc.cdcTasks.data = make(map[string]*meta.TaskInfo)
	cdc.replicateEntityMap.data = make(map[string]*ReplicateEntity)
	return cdc
}

// install makes this environment the entity factory of the process (verif hook in newReplicateEntity):
// whenever the real code needs a replication entity for a target it gets a light one, registered and
// started exactly like the tail of newReplicateEntity does.
func (e *vEnv) install() {
	verifEntityFactory.Store(func(cdc *MetaCDC, info *meta.TaskInfo) (*ReplicateEntity, error) {
		return e.newLightEntity(cdc, getTaskUniqueIDFromInfo(info)), nil
	})
}

func (e *vEnv) newLightEntity(cdc *MetaCDC, uKey string) *ReplicateEntity {
	cm := newLightCM()
	mo := &lightMetaOp{subs: map[string]int{}}
	ctx, cancel := context.WithCancel(context.Background())
	w := cdcwriter.NewChannelWriter(e.down, &nopReplicateMeta{}, config.WriterConfig{MessageBufferSize: 4, Retry: config.RetrySettings{RetryTimes: 1, InitBackOff: 1, MaxBackOff: 1}}, map[string]map[string]uint64{}, "milvus")
	cdc.replicateEntityMap.Lock()
	defer cdc.replicateEntityMap.Unlock()
	if ent, ok := cdc.replicateEntityMap.data[uKey]; ok {
		cancel()
		return ent
	}
	ent := &ReplicateEntity{
		targetClient: fakedown.Target{D: e.down}, channelManager: cm, metaOp: mo, writerObj: w,
		entityQuitFunc: cancel, mqDispatcher: e.mq, mqTTDispatcher: e.mq,
		taskQuitFuncs: typeutil.NewConcurrentMap[string, func()](),
	}
	cdc.replicateEntityMap.data[uKey] = ent
	cdc.startReplicateAPIEvent(ctx, ent)
	cdc.startReplicateDMLChannel(ctx, ent)
	e.entities = append(e.entities, &vEntity{uKey: uKey, ent: ent, cm: cm, mo: mo, cancel: cancel, ctx: ctx})
	return ent
}

func (e *vEnv) Create(req *request.CreateRequest) (*request.CreateResponse, error) {
	return e.cdc.Create(req)
}

func (e *vEnv) Resume(taskID string) error {
	_, err := e.cdc.Resume(&request.ResumeRequest{TaskID: taskID})
	return err
}

func (e *vEnv) Pause(taskID string) error {
	_, err := e.cdc.Pause(&request.PauseRequest{TaskID: taskID})
	return err
}

func (e *vEnv) Delete(taskID string) error {
	_, err := e.cdc.Delete(&request.DeleteRequest{TaskID: taskID})
	return err
}

// Restart: the process dies and a new MetaCDC incarnation comes up over the same durable store.
func (e *vEnv) Restart() {
	for _, en := range e.entities {
		en.cancel()
	}
	e.entities = nil // the old incarnation's resources died with the process
	metrics.VerifResetTaskNum()
	e.mq = fakemq.New(nil) // ... and so did its stream registrations
	e.cdc = e.newCDC()
	e.install()
	e.cdc.ReloadTask()
}

func (e *vEnv) close() {
	for _, en := range e.entities {
		en.cancel()
	}
}

// storeDump: the durable state, key -> value, for snapshot comparisons
func (e *vEnv) storeDump() string {
	d := e.fe.Dump()
	var ks []string
	for k := range d {
		ks = append(ks, k)
	}
	sort.Strings(ks)
	var sb strings.Builder
	for _, k := range ks {
		fmt.Fprintf(&sb, "%s=%s\n", k, d[k])
	}
	return sb.String()
}

// bookkeeping: the duplicate-detection tables as canonical text (sets)
func (e *vEnv) bookkeeping() string {
	c := e.cdc
	c.collectionNames.RLock()
	defer c.collectionNames.RUnlock()
	var sb strings.Builder
	dumpSet := func(name string, m map[string][]string) {
		var ks []string
		for k := range m {
			ks = append(ks, k)
		}
		sort.Strings(ks)
		for _, k := range ks {
			v := append([]string{}, m[k]...)
			sort.Strings(v)
			if len(v) == 0 {
				continue
			}
			fmt.Fprintf(&sb, "%s[%s]=%v;", name, k, v)
		}
	}
	dumpSet("data", c.collectionNames.data)
	dumpSet("exclude", c.collectionNames.excludeData)
	var ks []string
	for k, v := range c.collectionNames.extraInfos {
		if v.EnableUserRole {
			ks = append(ks, k)
		}
	}
	sort.Strings(ks)
	fmt.Fprintf(&sb, "userrole=%v;", ks)
	ks = nil
	for k, m := range c.collectionNames.nameMapping {
		for s, t := range m {
			ks = append(ks, k+":"+s+">"+t)
		}
	}
	sort.Strings(ks)
	fmt.Fprintf(&sb, "mapping=%v", ks)
	return sb.String()
}

type nopReplicateMeta struct{}

func (nopReplicateMeta) UpdateTaskDropCollectionMsg(ctx context.Context, msg api.TaskDropCollectionMsg) (bool, error) {
	return false, nil
}
func (nopReplicateMeta) GetTaskDropCollectionMsg(ctx context.Context, taskID string, msgID string) ([]api.TaskDropCollectionMsg, error) {
	return nil, nil
}
func (nopReplicateMeta) UpdateTaskDropPartitionMsg(ctx context.Context, msg api.TaskDropPartitionMsg) (bool, error) {
	return false, nil
}
func (nopReplicateMeta) GetTaskDropPartitionMsg(ctx context.Context, taskID string, msgID string) ([]api.TaskDropPartitionMsg, error) {
	return nil, nil
}
func (nopReplicateMeta) RemoveTaskMsg(ctx context.Context, taskID string, msgID string) error { return nil }

var _ = util.DefaultDbName

// safeUKey: the target key of a request, "" when the request names no usable target (validation rejects it)
func safeUKey(req *request.CreateRequest) (k string) {
	defer func() {
		if recover() != nil {
			k = ""
		}
	}()
	return getTaskUniqueIDFromReq(req)
}
