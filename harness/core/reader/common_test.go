package reader

import "encoding/json"

func jsonUnmarshalR(b []byte, v interface{}) error { return json.Unmarshal(b, v) }

func init() {
	// as cmd/main does by default; the lock-order checker spawns timer goroutines outside the bubble
	deadlockDisable()
}
