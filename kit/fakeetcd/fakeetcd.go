// Package fakeetcd is an in-memory model of the etcd v3 KV + Watch API surface that milvus-cdc uses
// (revisions, sorted prefix ranges taken from the Op's own range end, watch with prev-kv from the
// revision at which the watch was created, transactions with compare on mod/create revision/version/value).
// It is assigned into a clientv3.NewCtxClient: c.KV = f; c.Watcher = f.
package fakeetcd

import (
	"bytes"
	"context"
	"sort"
	"sync"

	"go.etcd.io/etcd/api/v3/etcdserverpb"
	"go.etcd.io/etcd/api/v3/mvccpb"
	clientv3 "go.etcd.io/etcd/client/v3"
)

type item struct {
	val                  []byte
	create, mod, version int64
}

type watcher struct {
	key, end []byte
	ch       chan clientv3.WatchResponse
	ctx      context.Context
	closed   bool
}

type Fake struct {
	mu       sync.Mutex
	rev      int64
	data     map[string]*item
	watchers []*watcher
	// Hook, when set, is called (without the lock) at the start of every client call: op in
	// {"get","put","delete","txn","watch"}. Harnesses park goroutines or inject faults here.
	Hook func(op string, key string) error
	// WatchBuf is the capacity of watch channels (events are pushed synchronously at write time).
	WatchBuf int
}

func New() *Fake { return &Fake{rev: 1, data: map[string]*item{}, WatchBuf: 1024} }

// Client returns a *clientv3.Client whose KV and Watcher are this fake.
func (f *Fake) Client() *clientv3.Client {
	c := clientv3.NewCtxClient(context.Background())
	c.KV = f
	c.Watcher = f
	return c
}

func (f *Fake) hook(op, key string) error {
	if f.Hook != nil {
		return f.Hook(op, key)
	}
	return nil
}

func inRange(k, key, end []byte) bool {
	if len(end) == 0 {
		return bytes.Equal(k, key)
	}
	if len(end) == 1 && end[0] == 0 { // from key
		return bytes.Compare(k, key) >= 0
	}
	return bytes.Compare(k, key) >= 0 && bytes.Compare(k, end) < 0
}

func (f *Fake) header() *etcdserverpb.ResponseHeader {
	return &etcdserverpb.ResponseHeader{Revision: f.rev}
}

func (f *Fake) kvOf(k string, it *item) *mvccpb.KeyValue {
	return &mvccpb.KeyValue{Key: []byte(k), Value: append([]byte{}, it.val...), CreateRevision: it.create, ModRevision: it.mod, Version: it.version}
}

func (f *Fake) rangeLocked(key, end []byte) []*mvccpb.KeyValue {
	var keys []string
	for k := range f.data {
		if inRange([]byte(k), key, end) {
			keys = append(keys, k)
		}
	}
	sort.Strings(keys)
	out := make([]*mvccpb.KeyValue, 0, len(keys))
	for _, k := range keys {
		out = append(out, f.kvOf(k, f.data[k]))
	}
	return out
}

func (f *Fake) notifyLocked(evs []*clientv3.Event) {
	for _, w := range f.watchers {
		if w.closed {
			continue
		}
		var mine []*clientv3.Event
		for _, e := range evs {
			if inRange(e.Kv.Key, w.key, w.end) {
				mine = append(mine, e)
			}
		}
		if len(mine) == 0 {
			continue
		}
		select {
		case w.ch <- clientv3.WatchResponse{Header: *f.header(), Events: mine}:
		default:
			panic("fakeetcd: watch channel full")
		}
	}
}

func (f *Fake) putLocked(key string, val []byte) *clientv3.Event {
	prev, ok := f.data[key]
	var prevKV *mvccpb.KeyValue
	it := &item{val: append([]byte{}, val...), mod: f.rev}
	if ok {
		prevKV = f.kvOf(key, prev)
		it.create, it.version = prev.create, prev.version+1
	} else {
		it.create, it.version = f.rev, 1
	}
	f.data[key] = it
	return &clientv3.Event{Type: clientv3.EventTypePut, Kv: f.kvOf(key, it), PrevKv: prevKV}
}

func (f *Fake) deleteLocked(key, end []byte) (int64, []*clientv3.Event, []*mvccpb.KeyValue) {
	var evs []*clientv3.Event
	var prevs []*mvccpb.KeyValue
	for _, kv := range f.rangeLocked(key, end) {
		prevs = append(prevs, kv)
		delete(f.data, string(kv.Key))
		evs = append(evs, &clientv3.Event{Type: clientv3.EventTypeDelete, Kv: &mvccpb.KeyValue{Key: kv.Key, ModRevision: f.rev}, PrevKv: kv})
	}
	return int64(len(evs)), evs, prevs
}

func (f *Fake) Put(ctx context.Context, key, val string, opts ...clientv3.OpOption) (*clientv3.PutResponse, error) {
	r, err := f.Do(ctx, clientv3.OpPut(key, val, opts...))
	if err != nil {
		return nil, err
	}
	return r.Put(), nil
}

func (f *Fake) Get(ctx context.Context, key string, opts ...clientv3.OpOption) (*clientv3.GetResponse, error) {
	r, err := f.Do(ctx, clientv3.OpGet(key, opts...))
	if err != nil {
		return nil, err
	}
	return r.Get(), nil
}

func (f *Fake) Delete(ctx context.Context, key string, opts ...clientv3.OpOption) (*clientv3.DeleteResponse, error) {
	r, err := f.Do(ctx, clientv3.OpDelete(key, opts...))
	if err != nil {
		return nil, err
	}
	return r.Del(), nil
}

func (f *Fake) Compact(ctx context.Context, rev int64, opts ...clientv3.CompactOption) (*clientv3.CompactResponse, error) {
	return &clientv3.CompactResponse{}, nil
}

func (f *Fake) Do(ctx context.Context, op clientv3.Op) (clientv3.OpResponse, error) {
	name := "get"
	switch {
	case op.IsPut():
		name = "put"
	case op.IsDelete():
		name = "delete"
	case op.IsTxn():
		name = "txn"
	}
	if err := ctx.Err(); err != nil {
		return clientv3.OpResponse{}, err
	}
	if err := f.hook(name, string(op.KeyBytes())); err != nil {
		return clientv3.OpResponse{}, err
	}
	f.mu.Lock()
	defer f.mu.Unlock()
	if op.IsTxn() {
		cmps, thens, elses := op.Txn()
		return f.txnLocked(cmps, thens, elses)
	}
	resp, evs := f.applyLocked(op, true)
	f.notifyLocked(evs)
	return resp, nil
}

// applyLocked applies one non-txn op; bump says whether a write gets its own revision.
func (f *Fake) applyLocked(op clientv3.Op, bump bool) (clientv3.OpResponse, []*clientv3.Event) {
	switch {
	case op.IsPut():
		if bump {
			f.rev++
		}
		ev := f.putLocked(string(op.KeyBytes()), op.ValueBytes())
		r := &clientv3.PutResponse{Header: f.header()}
		return r.OpResponse(), []*clientv3.Event{ev}
	case op.IsDelete():
		if len(f.rangeLocked(op.KeyBytes(), op.RangeBytes())) > 0 && bump {
			f.rev++
		}
		n, evs, _ := f.deleteLocked(op.KeyBytes(), op.RangeBytes())
		r := &clientv3.DeleteResponse{Header: f.header(), Deleted: n}
		return r.OpResponse(), evs
	default:
		kvs := f.rangeLocked(op.KeyBytes(), op.RangeBytes())
		r := &clientv3.GetResponse{Header: f.header(), Count: int64(len(kvs))}
		if !op.IsCountOnly() {
			if op.IsKeysOnly() {
				for _, kv := range kvs {
					kv.Value = nil
				}
			}
			r.Kvs = kvs
		}
		return r.OpResponse(), nil
	}
}

func (f *Fake) txnLocked(cmps []clientv3.Cmp, thens, elses []clientv3.Op) (clientv3.OpResponse, error) {
	ok := true
	for _, cc := range cmps {
		pc := etcdserverpb.Compare(cc)
		c := &pc
		it := f.data[string(c.Key)]
		var cur int64
		var curVal []byte
		if it != nil {
			curVal = it.val
		}
		cmpInt := func(a, b int64) int {
			switch {
			case a < b:
				return -1
			case a > b:
				return 1
			}
			return 0
		}
		var r int
		switch c.Target {
		case etcdserverpb.Compare_VERSION:
			if it != nil {
				cur = it.version
			}
			r = cmpInt(cur, c.GetVersion())
		case etcdserverpb.Compare_CREATE:
			if it != nil {
				cur = it.create
			}
			r = cmpInt(cur, c.GetCreateRevision())
		case etcdserverpb.Compare_MOD:
			if it != nil {
				cur = it.mod
			}
			r = cmpInt(cur, c.GetModRevision())
		case etcdserverpb.Compare_VALUE:
			if it == nil {
				ok = false
				continue
			}
			r = bytes.Compare(curVal, c.GetValue())
		}
		switch c.Result {
		case etcdserverpb.Compare_EQUAL:
			ok = ok && r == 0
		case etcdserverpb.Compare_NOT_EQUAL:
			ok = ok && r != 0
		case etcdserverpb.Compare_GREATER:
			ok = ok && r > 0
		case etcdserverpb.Compare_LESS:
			ok = ok && r < 0
		}
	}
	ops := elses
	if ok {
		ops = thens
	}
	writes := false
	for _, o := range ops {
		if o.IsPut() || (o.IsDelete() && len(f.rangeLocked(o.KeyBytes(), o.RangeBytes())) > 0) {
			writes = true
		}
	}
	if writes {
		f.rev++
	}
	var all []*clientv3.Event
	resp := &clientv3.TxnResponse{Header: f.header(), Succeeded: ok}
	for _, o := range ops {
		_, evs := f.applyLocked(o, false)
		all = append(all, evs...)
		resp.Responses = append(resp.Responses, &etcdserverpb.ResponseOp{})
	}
	resp.Header = f.header()
	f.notifyLocked(all)
	return resp.OpResponse(), nil
}

type txn struct {
	f     *Fake
	ctx   context.Context
	cmps  []clientv3.Cmp
	thens []clientv3.Op
	elses []clientv3.Op
}

func (f *Fake) Txn(ctx context.Context) clientv3.Txn { return &txn{f: f, ctx: ctx} }
func (t *txn) If(cs ...clientv3.Cmp) clientv3.Txn    { t.cmps = append(t.cmps, cs...); return t }
func (t *txn) Then(ops ...clientv3.Op) clientv3.Txn  { t.thens = append(t.thens, ops...); return t }
func (t *txn) Else(ops ...clientv3.Op) clientv3.Txn  { t.elses = append(t.elses, ops...); return t }
func (t *txn) Commit() (*clientv3.TxnResponse, error) {
	if err := t.ctx.Err(); err != nil {
		return nil, err
	}
	if err := t.f.hook("txn", ""); err != nil {
		return nil, err
	}
	t.f.mu.Lock()
	defer t.f.mu.Unlock()
	r, err := t.f.txnLocked(t.cmps, t.thens, t.elses)
	if err != nil {
		return nil, err
	}
	return r.Txn(), nil
}

// Watch: events with revision > the revision at creation time are delivered, always with PrevKv.
func (f *Fake) Watch(ctx context.Context, key string, opts ...clientv3.OpOption) clientv3.WatchChan {
	_ = f.hook("watch", key)
	op := clientv3.OpGet(key, opts...)
	f.mu.Lock()
	w := &watcher{key: op.KeyBytes(), end: op.RangeBytes(), ch: make(chan clientv3.WatchResponse, f.WatchBuf), ctx: ctx}
	f.watchers = append(f.watchers, w)
	f.mu.Unlock()
	return w.ch
}

func (f *Fake) RequestProgress(ctx context.Context) error { return nil }

func (f *Fake) Close() error {
	f.mu.Lock()
	defer f.mu.Unlock()
	for _, w := range f.watchers {
		if !w.closed {
			w.closed = true
			close(w.ch)
		}
	}
	return nil
}

// Dump returns a copy of the whole store (key -> value).
func (f *Fake) Dump() map[string]string {
	f.mu.Lock()
	defer f.mu.Unlock()
	out := make(map[string]string, len(f.data))
	for k, v := range f.data {
		out[k] = string(v.val)
	}
	return out
}

// PutRaw writes without hooks (harness side catalog writes).
func (f *Fake) PutRaw(key string, val []byte) {
	f.mu.Lock()
	defer f.mu.Unlock()
	f.rev++
	ev := f.putLocked(key, val)
	f.notifyLocked([]*clientv3.Event{ev})
}

func (f *Fake) Rev() int64 { f.mu.Lock(); defer f.mu.Unlock(); return f.rev }
