package reader

// C13: real CollectionReader.StartRead + real EtcdOp over fakeetcd, with catalog writes placed at every
// scheduling point of the reader's subscribe / watch / list / start-watch sequence (every fake etcd call
// parks) and a recording ChannelManager. At quiescence every selected live collection / non-default
// partition must have been started; older incarnations and creating->dropped objects must not.

import (
	"encoding/json"
	"context"
	"fmt"
	"os"
	"sort"
	"strings"
	"sync"
	"testing"
	"time"

	"github.com/milvus-io/milvus-proto/go-api/v2/msgpb"

	"github.com/zilliztech/milvus-cdc/core/api"
	"github.com/zilliztech/milvus-cdc/core/config"
	"github.com/zilliztech/milvus-cdc/core/log"
	"github.com/zilliztech/milvus-cdc/core/model"
	"github.com/zilliztech/milvus-cdc/core/pb"
	"github.com/zilliztech/milvus-cdc/core/verifkit/ev"
	"github.com/zilliztech/milvus-cdc/core/verifkit/fakeetcd"
	"github.com/zilliztech/milvus-cdc/core/verifkit/sched"
)

type c13Manager struct {
	api.DefaultChannelManager
	mu          sync.Mutex
	started     map[int64]int    // collection id -> StartReadCollection calls
	startedInfo map[int64]string // state the collection was announced with
	startedDB   map[int64]string // database the collection was announced in (it decides the task's selection and the downstream database)
	parts       map[int64]int    // partition id -> AddPartition calls
	droppedColl map[int64]bool
	droppedPart map[int64]bool
	log         []string
}

func (m *c13Manager) StartReadCollection(ctx context.Context, db *model.DatabaseInfo, info *pb.CollectionInfo, seek []*msgpb.MsgPosition, ts map[string]uint64) error {
	m.mu.Lock()
	defer m.mu.Unlock()
	m.started[info.ID]++
	m.startedInfo[info.ID] = info.State.String()
	if m.startedDB == nil {
		m.startedDB = map[int64]string{}
	}
	m.startedDB[info.ID] = db.Name
	m.log = append(m.log, fmt.Sprintf("start(%d,%s/%s,%s)", info.ID, db.Name, info.Schema.Name, info.State))
	return nil
}

func (m *c13Manager) AddPartition(ctx context.Context, db *model.DatabaseInfo, c *pb.CollectionInfo, p *pb.PartitionInfo) error {
	m.mu.Lock()
	defer m.mu.Unlock()
	m.parts[p.PartitionID]++
	m.log = append(m.log, fmt.Sprintf("addpart(%d,%d,%s)", p.PartitionID, c.ID, c.Schema.Name))
	return nil
}

func (m *c13Manager) AddDroppedCollection(ids []int64) {
	m.mu.Lock()
	defer m.mu.Unlock()
	for _, id := range ids {
		m.droppedColl[id] = true
	}
}

func (m *c13Manager) AddDroppedPartition(ids []int64) {
	m.mu.Lock()
	defer m.mu.Unlock()
	for _, id := range ids {
		m.droppedPart[id] = true
	}
}

type c13Scenario struct {
	Name    string
	Before  []catOp // catalog history before the task starts
	During  []catOp // catalog writes placed anywhere among the reader's steps (in this order)
	TwoTask bool
}

func c13Run(t *testing.T, sc *c13Scenario, ctl *sched.Ctl) sched.Outcome {
	fe := fakeetcd.New()
	cat, ok := catBuild(sc.Before)
	if !ok {
		return sched.Outcome{Summary: "illegal-before"}
	}
	cat.Write(fe)
	// snapshot of what was visible (non-tombstone) before the reader started, per (db,name)
	type inc struct {
		id      int64
		state   string
		create  uint64
		db      int64
		name    string
	}
	visibleAtStart := map[string][]inc{}
	for _, x := range cat.Colls {
		// (an incarnation that is still being created is not part of the listing: GetAllCollection returns created,
		// dropping and dropped records; it is announced by the watch when its creation completes)
		if x.State != "tombstone" && x.State != "creating" {
			k := fmt.Sprintf("%d/%s", x.DB, x.Name)
			visibleAtStart[k] = append(visibleAtStart[k], inc{x.ID, x.State, x.CreateTs, x.DB, x.Name})
		}
	}
	everCreated := map[int64]bool{}
	for _, x := range cat.Colls {
		if x.State == "created" {
			everCreated[x.ID] = true
		}
	}
	everCreatedPart := map[int64]bool{}
	for _, p := range cat.Parts {
		if p.State == "created" {
			everCreatedPart[p.ID] = true
		}
	}
	fe.Hook = func(op, key string) error {
		k := key
		if i := strings.Index(k, "root-coord/"); i >= 0 {
			k = k[i+len("root-coord/"):]
		}
		ctl.Point("etcd:"+op, k, false)
		return nil
	}
	op := newVerifEtcdOp(fe, nil)
	mgr := &c13Manager{started: map[int64]int{}, startedInfo: map[int64]string{}, parts: map[int64]int{}, droppedColl: map[int64]bool{}, droppedPart: map[int64]bool{}}
	should := func(db *model.DatabaseInfo, info *pb.CollectionInfo) (bool, bool) { return false, true }
	rd, err := NewCollectionReader("task1", mgr, op, nil, nil, should, config.ReaderConfig{Retry: config.RetrySettings{RetryTimes: 3, InitBackOff: 1, MaxBackOff: 1}})
	if err != nil {
		t.Fatal(err)
	}
	ctx, cancel := context.WithCancel(context.Background())
	done := false
	go func() {
		ctl.Point("drv:reader", "StartRead", true)
		rd.StartRead(ctx)
		done = true
	}()
	go func() { // nobody may block on the error channel
		for {
			select {
			case <-ctx.Done():
				return
			case <-rd.ErrorChan():
			}
		}
	}()
	next := 0
	illegal := false
	ctl.Actions = func() []sched.Action {
		if next >= len(sc.During) || illegal {
			return nil
		}
		o := sc.During[next]
		return []sched.Action{{Label: "catalog:" + o.String(), Cost: 0, Do: func() {
			next++
			if !cat.Apply(o) {
				illegal = true
				return
			}
			cat.Write(fe)
			for _, x := range cat.Colls {
				if x.State == "created" {
					everCreated[x.ID] = true
				}
			}
			for _, p := range cat.Parts {
				if p.State == "created" {
					everCreatedPart[p.ID] = true
				}
			}
		}}}
	}
	ctl.Loop(nil)
	var out sched.Outcome
	add := func(sig, f string, a ...interface{}) {
		out.Violations = append(out.Violations, sched.Violation{Sig: sig, Detail: fmt.Sprintf(f, a...) + "\nmanager calls: " + strings.Join(mgr.log, " ")})
	}
	if illegal {
		cancel()
		op.handlerWatchEventPool.Release()
		return sched.Outcome{Summary: "illegal-during"}
	}
	if !done {
		add("C13/start-stuck", "StartRead did not return")
	}
	if next < len(sc.During) {
		add("C13/harness-incomplete", "not all catalog writes were placed")
	}
	mgr.mu.Lock()
	// every live collection of a live database, newest incarnation per name, must have been started
	liveColl := map[int64]*catColl{}
	for _, x := range cat.Colls {
		d := cat.Db(x.DB)
		if x.State == "created" && d != nil && d.State == "live" {
			liveColl[x.ID] = x
			if mgr.started[x.ID] == 0 {
				add("C13/missed-collection", "collection %d (%s in db %d, created at %d) is live in the source catalog but was never started", x.ID, x.Name, x.DB, x.CreateTs)
			} else if got := mgr.startedDB[x.ID]; got != d.Name {
				// (a task that selects by database would not have selected it, and its data would go to another database)
				add("C13/started-in-wrong-database", "collection %d (%s) lives in database %d (%s) but its replication was started with database %q", x.ID, x.Name, x.DB, d.Name, got)
			}
		}
	}
	for _, p := range cat.Parts {
		if p.State == "created" && p.Name != "_default" {
			if _, ok := liveColl[p.Coll]; ok && mgr.parts[p.ID] == 0 {
				add("C13/missed-partition", "partition %d (%s of collection %d) is live in the source catalog but was never added", p.ID, p.Name, p.Coll)
			}
		}
	}
	// never-created objects are ignored
	for id := range mgr.started {
		x := cat.CollByID(id)
		if x != nil && !everCreated[id] && mgr.startedInfo[id] == "CollectionCreated" {
			add("C13/started-never-created", "collection %d was started although it never reached state created (final state %s)", id, x.State)
		}
	}
	// incarnations sharing a name at start time: only the newest is replicated, the older are recorded as dropped
	for k, incs := range visibleAtStart {
		if len(incs) < 2 {
			continue
		}
		sort.Slice(incs, func(i, j int) bool { return incs[i].create < incs[j].create })
		for _, old := range incs[:len(incs)-1] {
			if mgr.started[old.id] > 0 {
				add("C13/older-incarnation-started", "%s: incarnation %d (state %s, created %d) was started although %d is newer", k, old.id, old.state, old.create, incs[len(incs)-1].id)
			}
			if !mgr.droppedColl[old.id] {
				add("C13/older-incarnation-not-dropped", "%s: older incarnation %d was not recorded as dropped", k, old.id)
			}
			for _, p := range cat.Parts {
				if p.Coll == old.id && mgr.parts[p.ID] > 0 {
					add("C13/older-incarnation-partition-added", "%s: partition %d (%s) of the older incarnation %d was added although %d is newer", k, p.ID, p.Name, old.id, incs[len(incs)-1].id)
				}
			}
		}
	}
	var sum []string
	for id, n := range mgr.started {
		sum = append(sum, fmt.Sprintf("c%d x%d", id, n))
	}
	for id, n := range mgr.parts {
		sum = append(sum, fmt.Sprintf("p%d x%d", id, n))
	}
	sort.Strings(sum)
	mgr.mu.Unlock()
	out.Summary = strings.Join(sum, ",")
	// non-trivial: at least one catalog write landed strictly between the reader's first and last etcd call
	first, last, write := -1, -1, -1
	for i, d := range ctl.Trace {
		l := d.Enabled[d.Chosen]
		if strings.HasPrefix(l, "etcd:") {
			if first < 0 {
				first = i
			}
			last = i
		}
		if strings.HasPrefix(l, "action@catalog:") && first >= 0 {
			write = i
		}
	}
	out.Nontrivial = write > first && write < last
	cancel()
	op.handlerWatchEventPool.Release()
	return out
}

func c13Scenarios(thorough bool) []*c13Scenario {
	mk := func(name string, before, during []catOp) *c13Scenario {
		return &c13Scenario{Name: name, Before: before, During: during}
	}
	cc := func(db int64, n string) catOp { return catOp{Kind: "createColl", DB: db, Name: n} }
	out := []*c13Scenario{
		mk("create-during", nil, []catOp{cc(1, "a")}),
		mk("create+partition-during", nil, []catOp{cc(1, "a"), {Kind: "createPart", DB: 1, Name: "a"}}),
		mk("existing+partition-during", []catOp{cc(1, "a")}, []catOp{{Kind: "createPart", DB: 1, Name: "a"}}),
		mk("existing-with-partition", []catOp{cc(1, "a"), {Kind: "createPart", DB: 1, Name: "a"}}, []catOp{cc(1, "b")}),
		mk("creating-then-created", []catOp{{Kind: "beginCreateColl", DB: 1, Name: "a"}}, []catOp{{Kind: "finishCreateColl", DB: 1, Name: "a"}}),
		mk("creating-then-aborted", nil, []catOp{{Kind: "beginCreateColl", DB: 1, Name: "a"}, {Kind: "abortCreateColl", DB: 1, Name: "a"}}),
		mk("recreate-before-start", []catOp{cc(1, "a"), {Kind: "dropColl", DB: 1, Name: "a"}, cc(1, "a")}, nil),
		mk("drop+recreate-during", []catOp{cc(1, "a")}, []catOp{{Kind: "dropColl", DB: 1, Name: "a"}, {Kind: "droppedColl", DB: 1, Name: "a"}, cc(1, "a")}),
		mk("two-dbs-partition", []catOp{{Kind: "createDB", DB: 2, Name: "db1"}}, []catOp{cc(1, "a"), {Kind: "createPart", DB: 1, Name: "a"}}),
		mk("two-dbs-other-partition", []catOp{{Kind: "createDB", DB: 2, Name: "db1"}}, []catOp{cc(101, "a"), {Kind: "createPart", DB: 101, Name: "a"}}),
		// a database that is created after the task has started, and a collection in it
		mk("db+collection-during", nil, []catOp{{Kind: "createDB", DB: 2, Name: "db1"}, cc(101, "a"), {Kind: "createPart", DB: 101, Name: "a"}}),
	}
	if thorough {
		out = append(out,
			mk("two-collections-during", nil, []catOp{cc(1, "a"), cc(1, "b"), {Kind: "createPart", DB: 1, Name: "b"}}),
			mk("drop-gc-recreate", []catOp{cc(1, "a")}, []catOp{{Kind: "dropColl", DB: 1, Name: "a"}, {Kind: "gcColl", DB: 1, Name: "a"}, cc(1, "a"), {Kind: "createPart", DB: 1, Name: "a"}}),
		)
	}
	return out
}

func TestVerifC13Start(t *testing.T) {
	res := ev.New("C13", "start")
	defer res.Write()
	log.Info("warm up the logger outside the bubble")
	schedQuiet()
	sched.StartWatchdog(90 * time.Second)
	VerifReleaseOutsidePools()
	bound := 2
	if ev.Thorough() {
		bound = 3
	}
	scs := c13Scenarios(ev.Thorough())
	e := sched.NewExplorer(t, bound)
	e.Horizon = 15 * time.Second
	e.MaxSteps = 500
	e.Deadline = time.Now().Add(ev.Budget(150 * time.Second))
	e.OnExec = func(sc *sched.Scenario, choices []int) { fmt.Printf("EXEC %s %v\n", sc.Name, choices) }
	var wrapped []*sched.Scenario
	for _, sc := range scs {
		sc := sc
		wrapped = append(wrapped, &sched.Scenario{Name: sc.Name, Run: func(t *testing.T, ctl *sched.Ctl) sched.Outcome { return c13Run(t, sc, ctl) }})
	}
	if p := os.Getenv("VERIF_REPLAY"); p != "" {
		plReplay(t, res, e, wrapped, p)
		return
	}
	shard, nshard := ev.Shard()
	for _, sc := range wrapped {
		e.Shard, e.NShard = shard, nshard
		e.Explore(sc)
	}
	plReport(res, e, "C13")
	res.Bounds["scenarios"] = len(scs)
	res.Rule = "sched engine: the real CollectionReader.StartRead and the real EtcdOp (watch goroutines, event pool) over fakeetcd with a recording ChannelManager; source catalog = history before the task start + up to 4 catalog writes (create collection in one of two databases, creating->created, creating->tombstone, drop->dropped->tombstone and re-create of the same name, create partition, create database) each placed at every decision point among the reader's subscribe / open-watch / list / per-object / start-watch steps (every etcd Get and Watch call of the reader is a scheduling point; catalog writes cost no deviation); all schedules within the deviation bound; oracle at quiescence against the catalog model: every live collection and non-default partition started at least once, objects that never reached state created not started, of several incarnations visible at start only the newest started and the older recorded as dropped; non-trivial = executions in which a catalog write landed between the reader's first and last etcd call"
}

// C13 (listing part): every source catalog reachable by a bounded history is what the reader finds at task start (no
// concurrent catalog writes): explicit-state search over the histories, one real StartRead per distinct catalog, every
// zero-cost schedule of the reader's own goroutines; the oracle of the start part judges what reached the channel manager
// (any number of incarnations of a name, in any state, in either database, with partitions under old and new ones).
func TestVerifC13Listing(t *testing.T) {
	res := ev.New("C13", "listing")
	defer res.Write()
	log.Info("warm up the logger outside the bubble")
	schedQuiet()
	sched.StartWatchdog(90 * time.Second)
	VerifReleaseOutsidePools()
	depth := 8
	if ev.Thorough() {
		depth = 10
	}
	res.Bounds["history_depth"] = depth
	var ops []catOp
	ops = append(ops, catOp{Kind: "createDB", DB: 2, Name: "db1"})
	for _, db := range []int64{1, 101} {
		for _, k := range []string{"createColl", "beginCreateColl", "dropColl", "droppedColl", "gcColl", "createPart", "dropPart"} {
			ops = append(ops, catOp{Kind: k, DB: db, Name: "a"})
		}
	}
	e := sched.NewExplorer(t, 0)
	e.Horizon = 15 * time.Second
	e.MaxSteps = 500
	e.Deadline = time.Now().Add(ev.Budget(150 * time.Second))
	e.OnExec = func(sc *sched.Scenario, choices []int) { fmt.Printf("EXEC %s %v\n", sc.Name, choices) }
	if p := os.Getenv("VERIF_REPLAY"); p != "" {
		var f struct {
			Replay struct {
				Scenario string `json:"scenario"`
			} `json:"replay"`
		}
		b, _ := os.ReadFile(p)
		_ = jsonUnmarshalR(b, &f)
		var hist []catOp
		_ = jsonUnmarshalR([]byte(strings.TrimPrefix(f.Replay.Scenario, "listing:")), &hist)
		sc := &c13Scenario{Name: f.Replay.Scenario, Before: hist}
		plReplay(t, res, e, []*sched.Scenario{{Name: sc.Name, Run: func(t *testing.T, ctl *sched.Ctl) sched.Outcome { return c13Run(t, sc, ctl) }}}, p)
		return
	}
	seen := map[string]bool{newCatalog().Canon(): true}
	frontier := [][]catOp{nil}
	states, n := 1, 0
	for d := 0; d < depth && len(frontier) > 0; d++ {
		var next [][]catOp
		for _, h := range frontier {
			for _, o := range ops {
				nh := append(append([]catOp{}, h...), o)
				c, ok := catBuild(nh)
				if !ok {
					continue
				}
				k := c.Canon()
				if seen[k] {
					continue
				}
				seen[k] = true
				states++
				next = append(next, nh)
				n++
				if !ev.Mine(n) {
					continue
				}
				if time.Now().After(e.Deadline) {
					e.Stats.Exhaustive = false
					continue
				}
				hb, _ := json.Marshal(nh)
				sc := &c13Scenario{Name: "listing:" + string(hb), Before: nh}
				e.Explore(&sched.Scenario{Name: sc.Name, Group: "listing", Run: func(t *testing.T, ctl *sched.Ctl) sched.Outcome {
					out := c13Run(t, sc, ctl)
					out.Nontrivial = strings.Count(k, ":a:") >= 2
					return out
				}})
			}
		}
		frontier = next
	}
	plReport(res, e, "C13")
	res.Bounds["catalogs"] = states
	res.Rule = fmt.Sprintf("explicit-state search over source catalog histories of <= %d operations {create database db1; per database in {default, db1}: create / begin-create / drop(->dropping) / dropped / gc collection a, create / drop partition p}, catalogs deduplicated on content; each distinct catalog is the state the real CollectionReader.StartRead + EtcdOp find at task start (fakeetcd, recording channel manager), run under every zero-cost schedule of the reader's goroutines; oracle of the start part (live newest incarnations and their partitions started, never-created objects ignored, every older visible incarnation not started, recorded as dropped, its partitions not added); non-trivial = catalogs with at least two incarnations of the name in one listing", depth)
}

// C13 (lookup part): the watch-event consumers resolve a partition's collection and a collection's
// database through EtcdOp.GetCollectionNameByID / GetDatabaseInfoForCollection when the caches are cold.
// For every catalog reachable by a bounded history and every collection id, a fresh EtcdOp must answer
// like the catalog model.
func TestVerifC13Lookup(t *testing.T) {
	res := ev.New("C13", "lookup")
	defer res.Write()
	depth := 4
	if ev.Thorough() {
		depth = 5
	}
	res.Bounds["depth"] = depth
	res.Rule = "BFS over catalog histories (same generator as C15, two databases); for every reachable catalog and every collection incarnation a fresh real EtcdOp over fakeetcd (cold caches) is asked GetCollectionNameByID and GetDatabaseInfoForCollection; answers compared with the catalog model; non-trivial = lookups of a collection that does not live in the database listed last"
	ops := c15Ops(false)
	seen := map[string]bool{newCatalog().Canon(): true}
	frontier := [][]catOp{nil}
	res.States = 1
	check := func(h []catOp, c *catalog) {
		fe := fakeetcd.New()
		c.Write(fe)
		nLive := 0
		for _, d := range c.DBs {
			if d.State == "live" {
				nLive++
			}
		}
		for _, x := range c.Colls {
			op := newVerifEtcdOp(fe, nil)
			got := op.GetCollectionNameByID(context.Background(), x.ID)
			want := x.Name
			if x.State == "tombstone" {
				want = TomeObject
			}
			res.Evaluations++
			res.Traces++
			last := c.DBs[len(c.DBs)-1]
			if x.DB != last.ID {
				res.Nontrivial++
			}
			if got != want {
				res.Violate("C13/lookup/name", fmt.Sprintf("history %v: GetCollectionNameByID(%d) = %q, the catalog has collection %q (state %s) in database %d; databases %d", h, x.ID, got, want, x.State, x.DB, len(c.DBs)),
					map[string]interface{}{"history": h, "collection": x.ID})
				continue
			}
			op2 := newVerifEtcdOp(fe, nil)
			di := op2.GetDatabaseInfoForCollection(context.Background(), x.ID)
			d := c.Db(x.DB)
			wantDB, wantDropped := d.Name, false
			if d.State == "tombstone" {
				wantDB, wantDropped = TomeObject, true
			}
			if di.Name != wantDB || di.Dropped != wantDropped || (!wantDropped && di.ID != d.ID) {
				res.Violate("C13/lookup/database", fmt.Sprintf("history %v: GetDatabaseInfoForCollection(%d) = %+v, the catalog has it in database %d (%s, %s)", h, x.ID, di, d.ID, d.Name, d.State),
					map[string]interface{}{"history": h, "collection": x.ID})
			}
			op.handlerWatchEventPool.Release()
			op2.handlerWatchEventPool.Release()
		}
		res.Outcome(fmt.Sprintf("dbs=%d colls=%d", len(c.DBs), len(c.Colls)))
	}
	for d := 0; d < depth && len(frontier) > 0; d++ {
		var next [][]catOp
		for _, h := range frontier {
			for oi, o := range ops {
				if len(h) == 0 && !ev.Mine(oi) {
					continue
				}
				nh := append(append([]catOp{}, h...), o)
				c, ok := catBuild(nh)
				if !ok {
					continue
				}
				res.Transitions++
				k := c.Canon()
				if seen[k] {
					continue
				}
				seen[k] = true
				res.States++
				next = append(next, nh)
				check(nh, c)
				if res.States%97 == 0 {
					res.Sample(map[string]interface{}{"history": fmt.Sprint(nh)})
				}
			}
		}
		frontier = next
	}
}
