package store

// C12: non-interference of the metadata records on both backends. The real etcd stores run over fakeetcd,
// the real MySQL stores over fakesql; several tenants (root paths) share one backend. BFS over operation
// histories through the real meta_op.go functions; after every operation the full backend dump is compared
// with the dump before it: only the addressed record may change, reads return exactly the addressed
// records, dropped entries are never overwritten, DeleteTask is all-or-nothing under a fault at any round trip.

import (
	"context"
	"database/sql"
	"encoding/json"
	"errors"
	"fmt"
	"os"
	"path"
	"sort"
	"strings"
	"testing"
	"time"

	"github.com/milvus-io/milvus-proto/go-api/v2/commonpb"

	coreapi "github.com/zilliztech/milvus-cdc/core/api"
	coremeta "github.com/zilliztech/milvus-cdc/core/meta"
	"github.com/zilliztech/milvus-cdc/core/verifkit/ev"
	"github.com/zilliztech/milvus-cdc/core/verifkit/fakeetcd"
	"github.com/zilliztech/milvus-cdc/core/verifkit/fakesql"
	"github.com/zilliztech/milvus-cdc/server/api"
	"github.com/zilliztech/milvus-cdc/server/model/meta"
)

type c12Backend struct {
	kind    string
	fe      *fakeetcd.Fake
	sqlDB   *sql.DB
	sqlRaw  *fakesql.DB
	stores  map[string]api.MetaStoreFactory
	faultAt int
	calls   int
}

var errC12Fault = errors.New("injected backend failure")

func newC12Backend(kind string, roots []string) *c12Backend {
	b := &c12Backend{kind: kind, stores: map[string]api.MetaStoreFactory{}}
	ctx := context.Background()
	hook := func() error {
		b.calls++
		if b.faultAt > 0 && b.calls == b.faultAt {
			return errC12Fault
		}
		return nil
	}
	if kind == "etcd" {
		b.fe = fakeetcd.New()
		b.fe.Hook = func(op, key string) error { return hook() }
		for _, r := range roots {
			cli := b.fe.Client()
			b.stores[r] = NewVerifEtcdMetaStore(cli, r, coremeta.NewVerifEtcdReplicateStore(cli, r))
		}
	} else {
		b.sqlDB, b.sqlRaw = fakesql.Open()
		for _, r := range roots {
			s, err := NewVerifMySQLMetaStore(ctx, b.sqlDB, r)
			if err != nil {
				panic(err)
			}
			b.stores[r] = s
		}
		b.sqlRaw.Fault = func(k, q string) error { return hook() }
	}
	return b
}

// dump: key -> value of every record in the backend (for MySQL: table/pk -> all columns)
func (b *c12Backend) dump() map[string]string {
	if b.kind == "etcd" {
		return b.fe.Dump()
	}
	out := map[string]string{}
	for _, l := range b.sqlRaw.Dump() {
		p := strings.SplitN(l, "|", 3)
		out[p[0]+"|"+p[1]] = p[2]
	}
	return out
}

// owner of a raw record: root / kind / task / collection, parsed from its key (both backends use the same key text)
type c12Owner struct{ Root, Kind, Task, Coll string }

func c12OwnerOf(rawKey string) c12Owner {
	k := rawKey
	if i := strings.Index(k, "|"); i >= 0 {
		k = k[i+1:]
	}
	for _, kind := range []string{"task_info", "task_position", "task_msg"} {
		if i := strings.Index(k, "/"+kind+"/"); i >= 0 {
			rest := strings.Split(k[i+len(kind)+2:], "/")
			o := c12Owner{Root: k[:i], Kind: kind, Task: rest[0]}
			if len(rest) > 1 {
				o.Coll = strings.Join(rest[1:], "/")
			}
			return o
		}
	}
	return c12Owner{Root: "?", Kind: "?", Task: k}
}

// c12SameRoot: a root path names a tenant up to its spelling ("r/" and "r" are one configuration value apart, the keys
// are the same)
func c12SameRoot(a, b string) bool { return path.Clean(a) == path.Clean(b) }

type c12Op struct {
	Kind  string `json:"k"` // putTask | updPos | markDropped | delTask | setState | putMsg | rmMsg
	Root  string `json:"r"`
	Task  string `json:"t"`
	Coll  int64  `json:"c,omitempty"`
	Chan  string `json:"ch,omitempty"`
	Fault int    `json:"f,omitempty"`
}

func (o c12Op) String() string {
	s := fmt.Sprintf("%s(%s,%s", o.Kind, o.Root, o.Task)
	if o.Coll != 0 {
		s += fmt.Sprintf(",%d", o.Coll)
	}
	if o.Chan != "" {
		s += "," + o.Chan
	}
	s += ")"
	if o.Fault > 0 {
		s += fmt.Sprintf("!%d", o.Fault)
	}
	return s
}

type c12Result struct {
	viol, key  string
	nontrivial bool
}

func c12Pos(stamp int, ch string) *meta.PositionInfo {
	return &meta.PositionInfo{Time: int64(1000 + stamp), DataPair: &commonpb.KeyDataPair{Key: ch, Data: []byte(fmt.Sprintf("pos-%d", stamp))}}
}

// the logical view through the public read functions, per root
func c12Reads(b *c12Backend, roots, tasks []string) (string, string) {
	ctx := context.Background()
	var sb strings.Builder
	for _, r := range roots {
		f := b.stores[r]
		all, err := f.GetTaskInfoMetaStore(ctx).Get(ctx, &meta.TaskInfo{}, nil)
		if err != nil {
			return "", fmt.Sprintf("read: list(%s): %v", r, err)
		}
		var ids []string
		for _, t := range all {
			ids = append(ids, t.TaskID)
			// a record listed under root r must be a record of root r (its Reason carries the root it was written under)
			if !strings.HasPrefix(t.Reason, r+"#") {
				return "", fmt.Sprintf("%s: list under root %q returned task %s written under %q", c12ForeignTag(b.kind, "list", r), r, t.TaskID, strings.SplitN(t.Reason, "#", 2)[0])
			}
		}
		sort.Strings(ids)
		fmt.Fprintf(&sb, "%s:tasks=%v;", r, ids)
		for _, t := range tasks {
			one, err := f.GetTaskInfoMetaStore(ctx).Get(ctx, &meta.TaskInfo{TaskID: t}, nil)
			if err != nil {
				return "", fmt.Sprintf("read: get(%s,%s): %v", r, t, err)
			}
			for _, x := range one {
				if x.TaskID != t {
					return "", fmt.Sprintf("foreign-read/other-task: get(%s,%s) returned task %s", r, t, x.TaskID)
				}
				if !strings.HasPrefix(x.Reason, r+"#") {
					return "", fmt.Sprintf("%s: get(%s,%s) returned task %s written under %q", c12ForeignTag(b.kind, "get", r), r, t, x.TaskID, strings.SplitN(x.Reason, "#", 2)[0])
				}
			}
			ps, err := f.GetTaskCollectionPositionMetaStore(ctx).Get(ctx, &meta.TaskCollectionPosition{TaskID: t}, nil)
			if err != nil {
				return "", fmt.Sprintf("read: positions(%s,%s): %v", r, t, err)
			}
			var cs []string
			for _, p := range ps {
				if p.TaskID != t {
					return "", fmt.Sprintf("foreign-read/other-task: positions(%s,%s) returned a record of task %s collection %d", r, t, p.TaskID, p.CollectionID)
				}
				if !strings.HasPrefix(p.CollectionName, r+"#") {
					return "", fmt.Sprintf("%s: positions(%s,%s) returned a record of task %s collection %d written under %q", c12ForeignTag(b.kind, "positions", r), r, t, p.TaskID, p.CollectionID, strings.SplitN(p.CollectionName, "#", 2)[0])
				}
				cs = append(cs, fmt.Sprint(p.CollectionID))
			}
			sort.Strings(cs)
			fmt.Fprintf(&sb, "%s/%s:pos=%v;", r, t, cs)
		}
		msgs, err := f.GetReplicateStore(ctx).Get(ctx, "", true)
		if err != nil {
			return "", fmt.Sprintf("read: msgs(%s): %v", r, err)
		}
		nMsg := 0
		for _, m := range msgs {
			if m.Type == 0 {
				continue // the etcd reload lists every key under the root; records that are no task messages carry no type and are ignored by Reload
			}
			nMsg++
			if len(m.Base.TargetChannels) == 0 || !c12SameRoot(m.Base.TargetChannels[0], r) {
				return "", fmt.Sprintf("%s: task-msg reload under root %q returned message %s/%s written under %v", c12ForeignTag(b.kind, "msgs", r), r, m.Base.TaskID, m.Base.MsgID, m.Base.TargetChannels)
			}
		}
		msgs = msgs[:nMsg]
		fmt.Fprintf(&sb, "%s:msgs=%d;", r, len(msgs))
	}
	return sb.String(), ""
}

// c12ForeignTag classifies a read that returned another tenant's record by its structural cause.
func c12ForeignTag(backend, reader, readerRoot string) string {
	if backend == "mysql" {
		if reader == "msgs" {
			return "foreign-read/mysql-msg-prefix" // LIKE '<root>%' without a separator (and with the root's own wildcards)
		}
		if strings.ContainsAny(readerRoot, "_%") {
			return "foreign-read/mysql-like-wildcard-root" // the root path is pasted into a LIKE pattern unescaped
		}
	}
	return "foreign-read/" + reader
}

func c12Exec(kind string, roots, tasks []string, hist []c12Op) *c12Result {
	res := &c12Result{}
	b := newC12Backend(kind, roots)
	ctx := context.Background()
	stamp := 0
	for step, op := range hist {
		stamp++
		before := b.dump()
		f := b.stores[op.Root]
		b.calls, b.faultAt = 0, op.Fault
		var err error
		switch op.Kind {
		case "putTask":
			err = f.GetTaskInfoMetaStore(ctx).Put(ctx, &meta.TaskInfo{TaskID: op.Task, State: meta.TaskStateRunning, Reason: fmt.Sprintf("%s#%d", op.Root, stamp)}, nil)
		case "setState":
			err = UpdateTaskState(f.GetTaskInfoMetaStore(ctx), op.Task, meta.TaskStatePaused, nil, fmt.Sprintf("%s#%d", op.Root, stamp))
		case "updPos":
			err = UpdateTaskCollectionPosition(f.GetTaskCollectionPositionMetaStore(ctx), op.Task, op.Coll, op.Root+"#coll", op.Chan, c12Pos(stamp, op.Chan), c12Pos(stamp, op.Chan), c12Pos(stamp, "tgt-"+op.Chan))
		case "markDropped":
			err = UpdateDropStateTaskCollectionPosition(f.GetTaskCollectionPositionMetaStore(ctx), op.Task, op.Coll)
		case "delTask":
			_, err = DeleteTask(f, op.Task)
		case "delPos":
			err = DeleteTaskCollectionPosition(f.GetTaskCollectionPositionMetaStore(ctx), op.Task, op.Coll)
		case "putMsg":
			err = f.GetReplicateStore(ctx).Put(ctx, coremeta.GetMetaKey(op.Task, "m1"), coreapi.MetaMsg{Base: coreapi.BaseTaskMsg{TaskID: op.Task, MsgID: "m1", TargetChannels: []string{op.Root}, ReadyChannels: []string{fmt.Sprint(stamp)}}, Type: coreapi.DropCollectionMetaMsgType})
		case "rmMsg":
			err = f.GetReplicateStore(ctx).Remove(ctx, coremeta.GetMetaKey(op.Task, "m1"))
		}
		b.faultAt = 0
		after := b.dump()
		// frame condition on the raw records
		changed := map[string]bool{}
		for k, v := range after {
			if before[k] != v {
				changed[k] = true
			}
		}
		for k := range before {
			if _, ok := after[k]; !ok {
				changed[k] = true
			}
		}
		for k := range changed {
			o := c12OwnerOf(k)
			okOwner := c12SameRoot(o.Root, op.Root) && o.Task == op.Task
			switch op.Kind {
			case "putTask", "setState":
				okOwner = okOwner && o.Kind == "task_info"
			case "updPos", "markDropped", "delPos":
				okOwner = okOwner && o.Kind == "task_position" && o.Coll == fmt.Sprint(op.Coll)
			case "delTask":
				okOwner = okOwner && (o.Kind == "task_info" || o.Kind == "task_position")
			case "putMsg", "rmMsg":
				okOwner = okOwner && o.Kind == "task_msg"
			}
			if !okOwner {
				tag := "interference"
				if !c12SameRoot(o.Root, op.Root) {
					tag = "cross-root"
				} else if o.Task != op.Task {
					tag = "cross-task"
				} else if o.Coll != fmt.Sprint(op.Coll) {
					tag = "cross-collection"
				}
				res.viol = fmt.Sprintf("%s: step %d %v (err=%v) changed record %s (root %q task %q collection %q): %q -> %q", tag, step, op, err, k, o.Root, o.Task, o.Coll, before[k], after[k])
				return res
			}
		}
		// inside the addressed checkpoint record only the addressed channel may change; dropped entries are frozen
		if op.Kind == "updPos" {
			for k := range changed {
				if msg := c12ChannelFrame(b.kind, before[k], after[k], op.Chan); msg != "" {
					res.viol = fmt.Sprintf("%s: step %d %v on record %s", msg, step, op, k)
					return res
				}
			}
		}
		// all or nothing
		if op.Kind == "delTask" {
			infoGone, posGone, infoWas, posWas := true, true, false, false
			for k := range before {
				o := c12OwnerOf(k)
				if c12SameRoot(o.Root, op.Root) && o.Task == op.Task {
					_, still := after[k]
					if o.Kind == "task_info" {
						infoWas = true
						infoGone = infoGone && !still
					}
					if o.Kind == "task_position" {
						posWas = true
						posGone = posGone && !still
					}
				}
			}
			if infoWas && posWas && infoGone != posGone {
				res.viol = fmt.Sprintf("partial-delete: step %d %v (err=%v): task record removed=%v, checkpoint records removed=%v", step, op, err, infoGone, posGone)
				return res
			}
			if err == nil && infoWas && (!infoGone || (posWas && !posGone)) {
				res.viol = fmt.Sprintf("delete-incomplete: step %d %v reported success but records remain", step, op)
				return res
			}
			// a partially removed checkpoint set
			nLeft := 0
			for k := range after {
				o := c12OwnerOf(k)
				if c12SameRoot(o.Root, op.Root) && o.Task == op.Task && o.Kind == "task_position" {
					nLeft++
				}
			}
			if posWas && !posGone && len(changed) > 0 && err != nil {
				res.viol = fmt.Sprintf("partial-delete: step %d %v failed (%v) but removed some records: %v", step, op, err, keysOf(changed))
				return res
			}
			_ = nLeft
		}
		if op.Fault > 0 {
			res.nontrivial = true
		}
		// reads
		view, rv := c12Reads(b, roots, tasks)
		if rv != "" {
			res.viol = fmt.Sprintf("%s (after step %d %v)", rv, step, op)
			return res
		}
		_ = view
	}
	d := b.dump()
	var ks []string
	for k, v := range d {
		// the state key abstracts the stamps away: which records exist, which channels, which are dropped
		ks = append(ks, k+"="+c12Shape(v))
	}
	sort.Strings(ks)
	res.key = strings.Join(ks, ";")
	if b.sqlDB != nil {
		b.sqlDB.Close()
	}
	return res
}

func keysOf(m map[string]bool) []string {
	var ks []string
	for k := range m {
		ks = append(ks, k)
	}
	sort.Strings(ks)
	return ks
}

// c12Shape: value with stamps removed (structure only)
func c12Shape(v string) string {
	out := []byte{}
	for i := 0; i < len(v); i++ {
		c := v[i]
		if c >= '0' && c <= '9' {
			continue
		}
		out = append(out, c)
	}
	s := string(out)
	if len(s) > 400 {
		s = s[:400]
	}
	return s
}

// c12ChannelFrame compares the per-channel maps of a checkpoint record before and after an update of channel ch.
func c12ChannelFrame(kind, before, after, ch string) string {
	decode := func(v string) map[string]map[string]*meta.PositionInfo {
		out := map[string]map[string]*meta.PositionInfo{}
		if v == "" {
			return out
		}
		if kind == "etcd" {
			var p meta.TaskCollectionPosition
			if json.Unmarshal([]byte(v), &p) != nil {
				return out
			}
			out["pos"], out["op"], out["tgt"] = p.Positions, p.OpPositions, p.TargetPositions
			return out
		}
		for _, col := range strings.Split(v, ";") {
			kv := strings.SplitN(col, "=", 2)
			if len(kv) != 2 {
				continue
			}
			name := map[string]string{"task_position_value": "pos", "op_position_value": "op", "target_position_value": "tgt"}[kv[0]]
			if name == "" {
				continue
			}
			m := map[string]*meta.PositionInfo{}
			_ = json.Unmarshal([]byte(kv[1]), &m)
			out[name] = m
		}
		return out
	}
	b, a := decode(before), decode(after)
	for _, part := range []string{"pos", "op", "tgt"} {
		want := ch
		if part == "tgt" {
			want = "tgt-" + ch
		}
		for c, pb := range b[part] {
			pa := a[part][c]
			if pa == nil {
				return fmt.Sprintf("channel-lost: entry of channel %s (%s) disappeared", c, part)
			}
			jb, _ := json.Marshal(pb)
			ja, _ := json.Marshal(pa)
			if c != want && string(jb) != string(ja) {
				return fmt.Sprintf("cross-channel: entry of channel %s (%s) changed %s -> %s", c, part, jb, ja)
			}
			if c == want && pb.Dropped && string(jb) != string(ja) {
				return fmt.Sprintf("dropped-overwritten: dropped entry of channel %s (%s) changed %s -> %s", c, part, jb, ja)
			}
		}
	}
	return ""
}

type c12Family struct {
	Name  string
	Roots []string
	Tasks []string
	Ops   []c12Op
}

func c12Families(thorough bool) []c12Family {
	var fams []c12Family
	// prefix-sharing task / collection / channel ids under one root
	{
		f := c12Family{Name: "ids", Roots: []string{"r"}, Tasks: []string{"t1", "t10"}}
		for _, t := range f.Tasks {
			f.Ops = append(f.Ops, c12Op{Kind: "putTask", Root: "r", Task: t}, c12Op{Kind: "delTask", Root: "r", Task: t}, c12Op{Kind: "setState", Root: "r", Task: t})
			for _, c := range []int64{1, 10, -10} {
				f.Ops = append(f.Ops, c12Op{Kind: "markDropped", Root: "r", Task: t, Coll: c}, c12Op{Kind: "delPos", Root: "r", Task: t, Coll: c})
				for _, ch := range []string{"c", "c2"} {
					f.Ops = append(f.Ops, c12Op{Kind: "updPos", Root: "r", Task: t, Coll: c, Chan: ch})
				}
			}
		}
		fams = append(fams, f)
	}
	// task ids that contain SQL pattern characters (the create API takes any task id): "t_1" read as a LIKE pattern
	// matches "tx1", "t%" matches every id; the prefix relation of "t%" / "t%2" on top
	{
		f := c12Family{Name: "pattern-ids", Roots: []string{"r"}, Tasks: []string{"t_1", "tx1", "t%", "t%2"}}
		for _, t := range f.Tasks {
			f.Ops = append(f.Ops, c12Op{Kind: "putTask", Root: "r", Task: t}, c12Op{Kind: "delTask", Root: "r", Task: t}, c12Op{Kind: "setState", Root: "r", Task: t},
				c12Op{Kind: "updPos", Root: "r", Task: t, Coll: 1, Chan: "c"}, c12Op{Kind: "markDropped", Root: "r", Task: t, Coll: 1}, c12Op{Kind: "delPos", Root: "r", Task: t, Coll: 1},
				c12Op{Kind: "putMsg", Root: "r", Task: t}, c12Op{Kind: "rmMsg", Root: "r", Task: t})
		}
		fams = append(fams, f)
	}
	// several tenants (root paths) on one backend, ids equal across tenants
	{
		f := c12Family{Name: "roots", Roots: []string{"r", "r2", "r_", "rX"}, Tasks: []string{"t1"}}
		for _, r := range f.Roots {
			f.Ops = append(f.Ops,
				c12Op{Kind: "putTask", Root: r, Task: "t1"}, c12Op{Kind: "delTask", Root: r, Task: "t1"}, c12Op{Kind: "setState", Root: r, Task: "t1"},
				c12Op{Kind: "updPos", Root: r, Task: "t1", Coll: 1, Chan: "c"}, c12Op{Kind: "markDropped", Root: r, Task: "t1", Coll: 1},
				c12Op{Kind: "putMsg", Root: r, Task: "t1"}, c12Op{Kind: "rmMsg", Root: r, Task: "t1"})
		}
		fams = append(fams, f)
	}
	// root paths that are not in canonical form (a trailing or a doubled separator in the configuration): every key and
	// every scan prefix of a tenant must agree on one spelling
	{
		f := c12Family{Name: "root-spelling", Roots: []string{"r/", "q//x", "/s"}, Tasks: []string{"t1"}}
		for _, r := range f.Roots {
			f.Ops = append(f.Ops,
				c12Op{Kind: "putTask", Root: r, Task: "t1"}, c12Op{Kind: "delTask", Root: r, Task: "t1"},
				c12Op{Kind: "updPos", Root: r, Task: "t1", Coll: 1, Chan: "c"}, c12Op{Kind: "updPos", Root: r, Task: "t1", Coll: 1, Chan: "c2"}, c12Op{Kind: "markDropped", Root: r, Task: "t1", Coll: 1},
				c12Op{Kind: "delPos", Root: r, Task: "t1", Coll: 1}, c12Op{Kind: "putMsg", Root: r, Task: "t1"}, c12Op{Kind: "rmMsg", Root: r, Task: "t1"})
		}
		fams = append(fams, f)
	}
	// task deletion with a failure injected at every backend round trip
	{
		f := c12Family{Name: "delete-faults", Roots: []string{"r"}, Tasks: []string{"t1", "t10"}}
		for _, t := range f.Tasks {
			f.Ops = append(f.Ops, c12Op{Kind: "putTask", Root: "r", Task: t}, c12Op{Kind: "updPos", Root: "r", Task: t, Coll: 1, Chan: "c"}, c12Op{Kind: "updPos", Root: "r", Task: t, Coll: 10, Chan: "c"})
		}
		for fault := 0; fault <= 6; fault++ {
			f.Ops = append(f.Ops, c12Op{Kind: "delTask", Root: "r", Task: "t1", Fault: fault})
		}
		fams = append(fams, f)
	}
	return fams
}

func TestVerifC12Isolation(t *testing.T) {
	res := ev.New("C12", "isolation")
	defer res.Write()
	if p := os.Getenv("VERIF_REPLAY"); p != "" {
		var f struct {
			Replay struct {
				Backend string  `json:"backend"`
				Family  string  `json:"family"`
				History []c12Op `json:"history"`
			} `json:"replay"`
		}
		b, _ := os.ReadFile(p)
		if err := json.Unmarshal(b, &f); err != nil {
			t.Fatal(err)
		}
		for _, fam := range c12Families(true) {
			if fam.Name == f.Replay.Family {
				r := c12Exec(f.Replay.Backend, fam.Roots, fam.Tasks, f.Replay.History)
				if r.viol != "" {
					fmt.Println("REPLAY-VIOLATION", r.viol)
					res.Violate("C12/"+strings.SplitN(r.viol, ":", 2)[0], r.viol, f.Replay)
				} else {
					fmt.Println("REPLAY-OK")
				}
			}
		}
		return
	}
	depth := 3
	if ev.Thorough() {
		depth = 5
	}
	res.Bounds["depth"] = depth
	res.Rule = "BFS over operation histories through the real meta_op.go functions (put task, guarded state update, update checkpoint of one channel, mark collection dropped, delete task, put / remove task message) on the real etcd stores over fakeetcd and the real MySQL stores over fakesql; families: prefix-sharing ids (tasks t1/t10, collections 1/10/-10, channels c/c2) under one root; task ids with SQL pattern characters (t_1 / tx1 / t% / t%2); four tenants (roots r, r2, r_, rX) with equal ids on one backend; root paths that are not in canonical form (r/, q//x, /s); task deletion with a failure at each backend round trip; after every operation the full backend dump is diffed against the dump before: only records of the addressed (root, task[, collection]) may change, inside a checkpoint record only the addressed channel, dropped entries never, deletion all-or-nothing; reads (get, list, positions, task-message reload) return only records written under the same root and task; states deduplicated on the dump with stamps removed; non-trivial = histories with a fault or touching >= 2 records"
	deadline := time.Now().Add(ev.Budget(150 * time.Second))
	idx := 0
	for _, backend := range []string{"etcd", "mysql"} {
		for _, fam := range c12Families(ev.Thorough()) {
			seen := map[string]bool{c12Exec(backend, fam.Roots, fam.Tasks, nil).key: true}
			res.States++
			frontier := [][]c12Op{nil}
			for d := 0; d < depth && len(frontier) > 0; d++ {
				var next [][]c12Op
				for _, h := range frontier {
					if time.Now().After(deadline) {
						res.Exhaustive = false
						goto done
					}
					for oi, op := range fam.Ops {
						idx++
						if len(h) == 0 && !ev.Mine(oi) {
							continue
						}
						nh := append(append([]c12Op{}, h...), op)
						r := c12Exec(backend, fam.Roots, fam.Tasks, nh)
						res.Transitions++
						res.Evaluations++
						res.Traces++
						if r.viol != "" {
							kind := strings.SplitN(r.viol, ":", 2)[0]
							sig := fmt.Sprintf("C12/%s/%s/%s", backend, kind, op.Kind)
							if strings.HasPrefix(kind, "foreign-read/mysql-") || (backend == "mysql" && kind == "cross-root" && op.Kind == "delTask") {
								sig = fmt.Sprintf("C12/%s/%s", backend, kind) // structural classes recorded as known findings
								if kind == "cross-root" {
									sig += "/delTask-ignores-root"
								}
							}
							res.Violate(sig, fmt.Sprintf("backend %s family %s history %v: %s", backend, fam.Name, nh, r.viol),
								map[string]interface{}{"backend": backend, "family": fam.Name, "history": nh})
							continue
						}
						if r.nontrivial || strings.Count(r.key, ";") >= 1 {
							res.Nontrivial++
						}
						if !seen[r.key] {
							seen[r.key] = true
							res.States++
							next = append(next, nh)
							if len(next)%61 == 1 {
								res.Sample(map[string]interface{}{"backend": backend, "family": fam.Name, "history": fmt.Sprint(nh)})
							}
						}
					}
				}
				frontier = next
			}
			res.Outcome(fmt.Sprintf("%s/%s:%d", backend, fam.Name, len(seen)))
		}
	}
done:
}
