// Package fakemq models the source message queue as milvus-cdc sees it through
// msgdispatcher.Client (one registered stream per source vchannel) and msgstream.Factory (used only
// to check connectivity): an immutable per-vchannel log of packs. Register(pos) seeks to pos.MsgID
// (exclusive) and then - as MqTtMsgStream.Seek does - skips every data message with
// ts <= pos.Timestamp until the first time tick with ts >= pos.Timestamp; pos == nil subscribes at
// the head of the scripted log (everything scripted is "in the future"). Deregister closes the stream.
// Every delivered pack is a deep copy: the reader rewrites messages in place.
package fakemq

import (
	"context"
	"fmt"
	"sync"
	"time"

	"github.com/milvus-io/milvus-proto/go-api/v2/commonpb"
	"github.com/milvus-io/milvus-proto/go-api/v2/msgpb"
	"github.com/milvus-io/milvus/pkg/mq/common"
	"github.com/milvus-io/milvus/pkg/mq/msgdispatcher"
	"github.com/milvus-io/milvus/pkg/mq/msgstream"
	"github.com/milvus-io/milvus/pkg/util/funcutil"
	"google.golang.org/protobuf/proto"
)

// Sched is the part of the scheduler the fake needs.
type Sched interface {
	Point(key, label string, free bool)
}

type noSched struct{}

func (noSched) Point(string, string, bool) {}

type RegRecord struct {
	VChannel string
	Pos      *msgpb.MsgPosition
	// Delivered: indexes (pack, msg) of the log that this registration will deliver after the seek filter
	FirstPack int
}

type MQ struct {
	mu        sync.Mutex
	S         Sched
	logs      map[string][]*msgstream.MsgPack // vchannel -> pristine packs
	regs      map[string]*reg
	Registers []RegRecord
	DupRegisters []string // vchannels for which a second Register arrived while the first was still live
	Deregs    []string
	// ParkRegister makes Register itself a scheduling point (registration races).
	ParkRegister bool
	// RegisterErr, when set, is consulted for an injected registration failure.
	RegisterErr func(vchannel string) error
	feeders     sync.WaitGroup
	pending     map[string]int // vchannel -> packs not yet delivered
	// LatestIsPublished: a registration without a position subscribes at the end of what has been
	// published so far (a pack counts as published once it has been delivered to some registration of any
	// MQ sharing this source) instead of at the head of the scripted log. Used by restart harnesses.
	LatestIsPublished bool
	pub               *published
	// TickGap, when non-zero, is the (virtual) time that passes before a tick-only pack arrives: a live source
	// emits ticks at wall-clock intervals.
	TickGap time.Duration
	// DeadDeregister, when set and true, turns Deregister into a no-op (fenced incarnation).
	DeadDeregister func() bool
	// OnRegister, when set, observes every successful registration.
	OnRegister func(RegRecord)
	// Fence, when set, is called at the start of every client call (a crashed incarnation blocks there forever).
	Fence func()
}

type published struct {
	mu sync.Mutex
	n  map[string]int // vchannel -> number of packs published
}

// Fork returns a new MQ (no registrations) over the same immutable logs and the same publication marks:
// what a new process incarnation sees of the same message queue.
func (m *MQ) Fork(s Sched) *MQ {
	if s == nil {
		s = noSched{}
	}
	m.mu.Lock()
	defer m.mu.Unlock()
	return &MQ{S: s, logs: m.logs, regs: map[string]*reg{}, pending: map[string]int{}, LatestIsPublished: m.LatestIsPublished, pub: m.pub, TickGap: m.TickGap,
		ParkRegister: m.ParkRegister}
}

// Published reports how many packs of the vchannel have been published (delivered at least once).
func (m *MQ) Published(v string) int {
	m.pub.mu.Lock()
	defer m.pub.mu.Unlock()
	return m.pub.n[v]
}

type reg struct {
	ch     chan *msgstream.MsgPack
	closed chan struct{}
	once   sync.Once
}

func New(s Sched) *MQ {
	if s == nil {
		s = noSched{}
	}
	return &MQ{S: s, logs: map[string][]*msgstream.MsgPack{}, regs: map[string]*reg{}, pending: map[string]int{}, pub: &published{n: map[string]int{}}}
}

// SetLog installs the immutable source log of one vchannel.
func (m *MQ) SetLog(vchannel string, packs []*msgstream.MsgPack) {
	m.mu.Lock()
	m.logs[vchannel] = packs
	m.mu.Unlock()
}

func (m *MQ) Log(vchannel string) []*msgstream.MsgPack {
	m.mu.Lock()
	defer m.mu.Unlock()
	return m.logs[vchannel]
}

// Pending reports how many scripted packs of registered streams have not been delivered yet.
func (m *MQ) Pending() int {
	m.mu.Lock()
	defer m.mu.Unlock()
	n := 0
	for _, v := range m.pending {
		n += v
	}
	return n
}

// ClonePack deep-copies a pack (messages via their own marshal/unmarshal, positions via proto.Clone).
func ClonePack(p *msgstream.MsgPack) *msgstream.MsgPack {
	out := &msgstream.MsgPack{BeginTs: p.BeginTs, EndTs: p.EndTs}
	for _, pos := range p.StartPositions {
		out.StartPositions = append(out.StartPositions, proto.Clone(pos).(*msgpb.MsgPosition))
	}
	for _, pos := range p.EndPositions {
		out.EndPositions = append(out.EndPositions, proto.Clone(pos).(*msgpb.MsgPosition))
	}
	for _, msg := range p.Msgs {
		out.Msgs = append(out.Msgs, CloneMsg(msg))
	}
	return out
}

func CloneMsg(msg msgstream.TsMsg) msgstream.TsMsg {
	b, err := msg.Marshal(msg)
	if err != nil {
		panic(err)
	}
	c, err := msg.Unmarshal(b)
	if err != nil {
		panic(err)
	}
	if pos := msg.Position(); pos != nil {
		c.SetPosition(proto.Clone(pos).(*msgpb.MsgPosition))
	}
	// Unmarshal derives begin/end from the base timestamp; keep the source values
	if s, ok := c.(interface{ SetTs(uint64) }); ok && msg.BeginTs() == msg.EndTs() {
		s.SetTs(msg.BeginTs())
	}
	return c
}

// filter applies the seek rule and returns the packs (deep copies) a registration at pos will deliver.
func (m *MQ) filter(vchannel string, pos *msgpb.MsgPosition) ([]*msgstream.MsgPack, int) {
	log := m.logs[vchannel]
	first := 0
	if (pos == nil || len(pos.MsgID) == 0) && m.LatestIsPublished {
		first = m.Published(vchannel)
	}
	var physBefore uint64 // position of another vchannel: every own message stamped up to this time lies physically before it
	if pos != nil && len(pos.MsgID) > 0 {
		found := false
		for i, p := range log {
			for _, ep := range p.EndPositions {
				if string(ep.MsgID) == string(pos.MsgID) {
					first = i + 1
					found = true
				}
			}
		}
		if !found {
			// The vchannels of one physical channel share one physical log (time ordered, the ticks are common): the
			// message id of another vchannel's pack end is a valid position in it. A stream registered there starts
			// behind everything that is physically before that tick.
			pch := funcutil.ToPhysicalChannel(vchannel)
			for ov, olog := range m.logs {
				if ov == vchannel || funcutil.ToPhysicalChannel(ov) != pch {
					continue
				}
				for _, p := range olog {
					for _, ep := range p.EndPositions {
						if string(ep.MsgID) == string(pos.MsgID) {
							physBefore = p.EndTs
						}
					}
				}
			}
			if physBefore != 0 {
				for i, p := range log {
					if p.EndTs <= physBefore {
						first = i + 1
					}
				}
			}
		}
	}
	var out []*msgstream.MsgPack
	skipping := pos != nil && pos.Timestamp != 0
	for _, p := range log[first:] {
		c := ClonePack(p)
		if physBefore != 0 {
			var kept []msgstream.TsMsg
			for _, msg := range c.Msgs {
				if msg.Type() == commonpb.MsgType_TimeTick || msg.EndTs() > physBefore {
					kept = append(kept, msg)
				}
			}
			c.Msgs = kept
		}
		if skipping {
			var kept []msgstream.TsMsg
			for _, msg := range c.Msgs {
				if msg.Type() == commonpb.MsgType_TimeTick {
					kept = append(kept, msg)
					continue
				}
				if msg.EndTs() > pos.Timestamp {
					kept = append(kept, msg)
				}
			}
			c.Msgs = kept
			if c.EndTs >= pos.Timestamp { // the tick closing this pack ends the skip phase
				skipping = false
			}
		}
		out = append(out, c)
	}
	return out, first
}

func (m *MQ) Register(ctx context.Context, cfg *msgdispatcher.StreamConfig) (<-chan *msgstream.MsgPack, error) {
	v := cfg.VChannel
	if m.Fence != nil {
		m.Fence()
	}
	if m.ParkRegister {
		m.S.Point("mq:"+v, "register", false)
	}
	if m.RegisterErr != nil {
		if err := m.RegisterErr(v); err != nil {
			return nil, err
		}
	}
	m.mu.Lock()
	if _, dup := m.regs[v]; dup {
		m.DupRegisters = append(m.DupRegisters, v) // (the caller may swallow the error: keep the attempt observable)
		m.mu.Unlock()
		return nil, fmt.Errorf("fakemq: vchannel %s registered twice", v)
	}
	var pos *msgpb.MsgPosition
	if cfg.Pos != nil {
		pos = proto.Clone(cfg.Pos).(*msgpb.MsgPosition)
	}
	packs, first := m.filter(v, pos)
	m.Registers = append(m.Registers, RegRecord{VChannel: v, Pos: pos, FirstPack: first})
	if m.OnRegister != nil {
		m.OnRegister(RegRecord{VChannel: v, Pos: pos, FirstPack: first})
	}
	r := &reg{ch: make(chan *msgstream.MsgPack), closed: make(chan struct{})}
	m.regs[v] = r
	m.pending[v] = len(packs)
	m.mu.Unlock()
	go func() {
		defer close(r.ch)
		for i, p := range packs {
			if m.TickGap > 0 && len(p.Msgs) == 1 && p.Msgs[0].Type() == commonpb.MsgType_TimeTick {
				time.Sleep(m.TickGap)
			}
			m.S.Point("stream:"+v, "deliver", true) // which stream's next pack arrives is the environment's choice
			select {
			case r.ch <- p:
				m.mu.Lock()
				m.pending[v]--
				m.mu.Unlock()
				m.pub.mu.Lock()
				if first+i+1 > m.pub.n[v] {
					m.pub.n[v] = first + i + 1
				}
				m.pub.mu.Unlock()
			case <-r.closed:
				m.mu.Lock()
				m.pending[v] = 0
				m.mu.Unlock()
				return
			}
		}
		<-r.closed
	}()
	return r.ch, nil
}

// LastEnd returns the end position of the last pack of a vchannel's log (a checkpoint behind everything).
func (m *MQ) LastEnd(vchannel string) *msgpb.MsgPosition {
	m.mu.Lock()
	defer m.mu.Unlock()
	log := m.logs[vchannel]
	if len(log) == 0 || len(log[len(log)-1].EndPositions) == 0 {
		return nil
	}
	return proto.Clone(log[len(log)-1].EndPositions[0]).(*msgpb.MsgPosition)
}

func (m *MQ) Deregister(vchannel string) {
	if m.DeadDeregister != nil && m.DeadDeregister() {
		return // called under the caller's locks: a dead incarnation must not block here, and has no effect any more
	}
	m.mu.Lock()
	r := m.regs[vchannel]
	delete(m.regs, vchannel)
	m.Deregs = append(m.Deregs, vchannel)
	m.mu.Unlock()
	if r != nil {
		r.once.Do(func() { close(r.closed) })
	}
}

func (m *MQ) Close() {
	m.mu.Lock()
	rs := m.regs
	m.regs = map[string]*reg{}
	m.mu.Unlock()
	for _, r := range rs {
		r.once.Do(func() { close(r.closed) })
	}
}

// Registered lists the vchannels that currently have a live registration.
func (m *MQ) Registered() []string {
	m.mu.Lock()
	defer m.mu.Unlock()
	var out []string
	for v := range m.regs {
		out = append(out, v)
	}
	return out
}

var _ msgdispatcher.Client = (*MQ)(nil)

// ---- msgstream.Factory (connectivity check only) -----------------------------------------------

type Factory struct {
	MQ *MQ
	// OnNewStream, when set, is called for every stream the code under test opens through the factory (the connectivity
	// check of a channel handler that is being created)
	OnNewStream func()
	// AsConsumerErr, when set, decides whether subscribing the connectivity-check stream to the given physical channels
	// fails (the MQ is unreachable, the topic is gone)
	AsConsumerErr func(channels []string) error
}

func (f *Factory) NewMsgStream(ctx context.Context) (msgstream.MsgStream, error) {
	if f.OnNewStream != nil {
		f.OnNewStream()
	}
	return &stream{f: f}, nil
}
func (f *Factory) NewTtMsgStream(ctx context.Context) (msgstream.MsgStream, error) {
	return &stream{}, nil
}
func (f *Factory) NewMsgStreamDisposer(ctx context.Context) func([]string, string) error {
	return func([]string, string) error { return nil }
}

type stream struct{ f *Factory }

func (s *stream) Close()                                               {}
func (s *stream) AsProducer(ctx context.Context, channels []string)    {}
func (s *stream) Produce(context.Context, *msgstream.MsgPack) error    { return nil }
func (s *stream) SetRepackFunc(repackFunc msgstream.RepackFunc)        {}
func (s *stream) GetProduceChannels() []string                         { return nil }
func (s *stream) Broadcast(context.Context, *msgstream.MsgPack) (map[string][]msgstream.MessageID, error) {
	return nil, nil
}
func (s *stream) AsConsumer(ctx context.Context, channels []string, subName string, position common.SubscriptionInitialPosition) error {
	if s.f != nil && s.f.AsConsumerErr != nil {
		return s.f.AsConsumerErr(channels)
	}
	return nil
}
func (s *stream) Chan() <-chan *msgstream.ConsumeMsgPack { return nil }
func (s *stream) GetUnmarshalDispatcher() msgstream.UnmarshalDispatcher {
	return (&msgstream.ProtoUDFactory{}).NewUnmarshalDispatcher()
}
func (s *stream) Seek(ctx context.Context, msgPositions []*msgstream.MsgPosition, includeCurrentMsg bool) error {
	return nil
}
func (s *stream) GetLatestMsgID(channel string) (msgstream.MessageID, error) { return nil, fmt.Errorf("fakemq: no latest id") }
func (s *stream) CheckTopicValid(channel string) error                       { return nil }
func (s *stream) ForceEnableProduce(can bool)                                {}

var _ msgstream.Factory = (*Factory)(nil)
