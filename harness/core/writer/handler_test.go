package writer

// Handler level (C07 / C09 / C20): the REAL MilvusDataHandler and the REAL Milvus SDK client against an in-process
// gRPC Milvus (kit/fakemilvus, loopback TCP). The other writer harnesses stop at the api.DataHandler interface;
// this one covers the layer below it: which database a call is routed to on the wire, which names and which
// replication stamp the wire request carries, and what ReplicateMessage reports for every downstream answer.
// Total enumeration of operation kind x routing database x small field domains x downstream answer.

import (
	"context"
	"fmt"
	"os"
	"sort"
	"strings"
	"testing"
	"time"

	"github.com/milvus-io/milvus-proto/go-api/v2/commonpb"
	"github.com/milvus-io/milvus-proto/go-api/v2/milvuspb"
	"github.com/milvus-io/milvus-proto/go-api/v2/msgpb"
	"github.com/milvus-io/milvus-sdk-go/v2/entity"
	"github.com/milvus-io/milvus/pkg/util/crypto"
	"github.com/milvus-io/milvus/pkg/util/resource"
	"github.com/milvus-io/milvus/pkg/util/retry"
	"google.golang.org/protobuf/proto"

	"github.com/zilliztech/milvus-cdc/core/api"
	"github.com/zilliztech/milvus-cdc/core/util"
	"github.com/zilliztech/milvus-cdc/core/verifkit/ev"
	"github.com/zilliztech/milvus-cdc/core/verifkit/fakemilvus"
)

// hOp is one DataHandler operation kind: how to call it and what the wire must show.
type hOp struct {
	Name     string
	Mutating string   // the one RPC that changes the downstream
	Reads    []string // read RPCs the handler / SDK may issue around it
	DBLevel  bool     // database-level / RBAC operation: routed to the default database
	RBAC     bool     // user / role / privilege operation
	Stamped  bool     // the SDK call takes the replicated message base (replication stamp must arrive)
	Call     func(h *MilvusDataHandler, db string, v hVals) error
	// Check compares the mutating request's identity fields with the values
	Check func(req proto.Message, v hVals) string
}

type hVals struct {
	Coll, Part, Index, Field, DBName string
	Parts                            []string
	TS                               uint64
	User, Role                       string
}

func hBase(v hVals, t commonpb.MsgType) *commonpb.MsgBase {
	return &commonpb.MsgBase{MsgType: t, Timestamp: v.TS, ReplicateInfo: &commonpb.ReplicateInfo{IsReplicate: true, MsgTimestamp: v.TS}}
}

func hEq(what string, got, want interface{}) string {
	if fmt.Sprint(got) != fmt.Sprint(want) {
		return fmt.Sprintf("%s = %v, want %v; ", what, got, want)
	}
	return ""
}

func hOps() []hOp {
	ctx := func() context.Context { c, _ := context.WithTimeout(context.Background(), 20*time.Second); return c }
	return []hOp{
		{Name: "CreateCollection", Mutating: "CreateCollection", Reads: []string{"DescribeCollection", "HasCollection"}, Stamped: true,
			Call: func(h *MilvusDataHandler, db string, v hVals) error {
				p := &api.CreateCollectionParam{Schema: &entity.Schema{CollectionName: v.Coll, Fields: []*entity.Field{{ID: 100, Name: "pk", PrimaryKey: true, DataType: entity.FieldTypeInt64}, {ID: 101, Name: "vec", DataType: entity.FieldTypeFloatVector, TypeParams: map[string]string{"dim": "4"}}}}, ShardsNum: 2, ConsistencyLevel: commonpb.ConsistencyLevel_Strong}
				p.Database, p.Base = db, hBase(v, commonpb.MsgType_CreateCollection)
				return h.CreateCollection(ctx(), p)
			},
			Check: func(r proto.Message, v hVals) string {
				q := r.(*milvuspb.CreateCollectionRequest)
				return hEq("collection", q.CollectionName, v.Coll) + hEq("shards", q.ShardsNum, 2) + hEq("consistency", q.ConsistencyLevel, commonpb.ConsistencyLevel_Strong)
			}},
		{Name: "DropCollection", Mutating: "DropCollection", Reads: []string{"HasCollection", "DescribeCollection"}, Stamped: true,
			Call: func(h *MilvusDataHandler, db string, v hVals) error {
				p := &api.DropCollectionParam{CollectionName: v.Coll}
				p.Database, p.Base = db, hBase(v, commonpb.MsgType_DropCollection)
				return h.DropCollection(ctx(), p)
			},
			Check: func(r proto.Message, v hVals) string {
				return hEq("collection", r.(*milvuspb.DropCollectionRequest).CollectionName, v.Coll)
			}},
		{Name: "CreatePartition", Mutating: "CreatePartition", Reads: []string{"ShowPartitions", "HasCollection", "HasPartition", "DescribeCollection"}, Stamped: true,
			Call: func(h *MilvusDataHandler, db string, v hVals) error {
				p := &api.CreatePartitionParam{CollectionName: v.Coll, PartitionName: v.Part}
				p.Database, p.Base = db, hBase(v, commonpb.MsgType_CreatePartition)
				return h.CreatePartition(ctx(), p)
			},
			Check: func(r proto.Message, v hVals) string {
				q := r.(*milvuspb.CreatePartitionRequest)
				return hEq("collection", q.CollectionName, v.Coll) + hEq("partition", q.PartitionName, v.Part)
			}},
		{Name: "DropPartition", Mutating: "DropPartition", Reads: []string{"ShowPartitions", "HasCollection", "HasPartition", "DescribeCollection"}, Stamped: true,
			Call: func(h *MilvusDataHandler, db string, v hVals) error {
				p := &api.DropPartitionParam{CollectionName: v.Coll, PartitionName: v.Part}
				p.Database, p.Base = db, hBase(v, commonpb.MsgType_DropPartition)
				return h.DropPartition(ctx(), p)
			},
			Check: func(r proto.Message, v hVals) string {
				q := r.(*milvuspb.DropPartitionRequest)
				return hEq("collection", q.CollectionName, v.Coll) + hEq("partition", q.PartitionName, v.Part)
			}},
		{Name: "CreateIndex", Mutating: "CreateIndex", Reads: []string{"DescribeCollection", "HasCollection", "DescribeIndex"}, Stamped: true,
			Call: func(h *MilvusDataHandler, db string, v hVals) error {
				p := &api.CreateIndexParam{CreateIndexRequest: &milvuspb.CreateIndexRequest{Base: hBase(v, commonpb.MsgType_CreateIndex), CollectionName: v.Coll, FieldName: v.Field, IndexName: v.Index,
					ExtraParams: []*commonpb.KeyValuePair{{Key: "index_type", Value: "HNSW"}, {Key: "metric_type", Value: "L2"}}}}
				p.Database = db
				return h.CreateIndex(ctx(), p)
			},
			Check: func(r proto.Message, v hVals) string {
				q := r.(*milvuspb.CreateIndexRequest)
				kv := map[string]string{}
				for _, e := range q.ExtraParams {
					kv[e.Key] = e.Value
				}
				return hEq("collection", q.CollectionName, v.Coll) + hEq("field", q.FieldName, v.Field) + hEq("index", q.IndexName, v.Index) + hEq("index_type", kv["index_type"], "HNSW") + hEq("metric_type", kv["metric_type"], "L2")
			}},
		{Name: "DropIndex", Mutating: "DropIndex", Reads: []string{"DescribeCollection", "HasCollection"}, Stamped: true,
			Call: func(h *MilvusDataHandler, db string, v hVals) error {
				p := &api.DropIndexParam{DropIndexRequest: &milvuspb.DropIndexRequest{Base: hBase(v, commonpb.MsgType_DropIndex), CollectionName: v.Coll, FieldName: v.Field, IndexName: v.Index}}
				p.Database = db
				return h.DropIndex(ctx(), p)
			},
			Check: func(r proto.Message, v hVals) string {
				q := r.(*milvuspb.DropIndexRequest)
				return hEq("collection", q.CollectionName, v.Coll) + hEq("index", q.IndexName, v.Index)
			}},
		{Name: "AlterIndex", Mutating: "AlterIndex", Reads: []string{"DescribeCollection", "HasCollection"}, Stamped: true,
			Call: func(h *MilvusDataHandler, db string, v hVals) error {
				p := &api.AlterIndexParam{AlterIndexRequest: &milvuspb.AlterIndexRequest{Base: hBase(v, commonpb.MsgType_AlterIndex), CollectionName: v.Coll, IndexName: v.Index,
					ExtraParams: []*commonpb.KeyValuePair{{Key: api.IndexKeyMmap, Value: "true"}}}}
				p.Database = db
				return h.AlterIndex(ctx(), p)
			},
			Check: func(r proto.Message, v hVals) string {
				q := r.(*milvuspb.AlterIndexRequest)
				kv := map[string]string{}
				for _, e := range q.ExtraParams {
					kv[e.Key] = e.Value
				}
				return hEq("collection", q.CollectionName, v.Coll) + hEq("index", q.IndexName, v.Index) + hEq("mmap", kv[api.IndexKeyMmap], "true")
			}},
		{Name: "LoadCollection", Mutating: "LoadCollection", Reads: []string{"HasCollection", "DescribeCollection", "GetLoadingProgress"}, Stamped: true,
			Call: func(h *MilvusDataHandler, db string, v hVals) error {
				p := &api.LoadCollectionParam{LoadCollectionRequest: &milvuspb.LoadCollectionRequest{Base: hBase(v, commonpb.MsgType_LoadCollection), CollectionName: v.Coll, ReplicaNumber: 2}}
				p.Database = db
				return h.LoadCollection(ctx(), p)
			},
			Check: func(r proto.Message, v hVals) string {
				q := r.(*milvuspb.LoadCollectionRequest)
				return hEq("collection", q.CollectionName, v.Coll) + hEq("replicas", q.ReplicaNumber, 2)
			}},
		{Name: "ReleaseCollection", Mutating: "ReleaseCollection", Reads: []string{"HasCollection", "DescribeCollection"}, Stamped: true,
			Call: func(h *MilvusDataHandler, db string, v hVals) error {
				p := &api.ReleaseCollectionParam{ReleaseCollectionRequest: &milvuspb.ReleaseCollectionRequest{Base: hBase(v, commonpb.MsgType_ReleaseCollection), CollectionName: v.Coll}}
				p.Database = db
				return h.ReleaseCollection(ctx(), p)
			},
			Check: func(r proto.Message, v hVals) string {
				return hEq("collection", r.(*milvuspb.ReleaseCollectionRequest).CollectionName, v.Coll)
			}},
		{Name: "LoadPartitions", Mutating: "LoadPartitions", Reads: []string{"HasCollection", "HasPartition", "DescribeCollection", "ShowPartitions", "GetLoadingProgress"}, Stamped: true,
			Call: func(h *MilvusDataHandler, db string, v hVals) error {
				p := &api.LoadPartitionsParam{LoadPartitionsRequest: &milvuspb.LoadPartitionsRequest{Base: hBase(v, commonpb.MsgType_LoadPartitions), CollectionName: v.Coll, PartitionNames: v.Parts}}
				p.Database = db
				return h.LoadPartitions(ctx(), p)
			},
			Check: func(r proto.Message, v hVals) string {
				q := r.(*milvuspb.LoadPartitionsRequest)
				return hEq("collection", q.CollectionName, v.Coll) + hEq("partitions", q.PartitionNames, v.Parts)
			}},
		{Name: "ReleasePartitions", Mutating: "ReleasePartitions", Reads: []string{"HasCollection", "HasPartition", "DescribeCollection", "ShowPartitions"}, Stamped: true,
			Call: func(h *MilvusDataHandler, db string, v hVals) error {
				p := &api.ReleasePartitionsParam{ReleasePartitionsRequest: &milvuspb.ReleasePartitionsRequest{Base: hBase(v, commonpb.MsgType_ReleasePartitions), CollectionName: v.Coll, PartitionNames: v.Parts}}
				p.Database = db
				return h.ReleasePartitions(ctx(), p)
			},
			Check: func(r proto.Message, v hVals) string {
				q := r.(*milvuspb.ReleasePartitionsRequest)
				return hEq("collection", q.CollectionName, v.Coll) + hEq("partitions", q.PartitionNames, v.Parts)
			}},
		{Name: "Flush", Mutating: "Flush", Reads: []string{"HasCollection", "DescribeCollection"}, Stamped: true,
			Call: func(h *MilvusDataHandler, db string, v hVals) error {
				p := &api.FlushParam{FlushRequest: &milvuspb.FlushRequest{Base: hBase(v, commonpb.MsgType_Flush), CollectionNames: []string{v.Coll}}}
				p.Database = db
				return h.Flush(ctx(), p)
			},
			Check: func(r proto.Message, v hVals) string {
				return hEq("collections", r.(*milvuspb.FlushRequest).CollectionNames, []string{v.Coll})
			}},
		{Name: "CreateDatabase", Mutating: "CreateDatabase", Reads: []string{"ListDatabases"}, DBLevel: true, Stamped: true,
			Call: func(h *MilvusDataHandler, db string, v hVals) error {
				p := &api.CreateDatabaseParam{CreateDatabaseRequest: &milvuspb.CreateDatabaseRequest{Base: hBase(v, commonpb.MsgType_CreateDatabase), DbName: v.DBName}}
				p.Database = db
				return h.CreateDatabase(ctx(), p)
			},
			Check: func(r proto.Message, v hVals) string {
				return hEq("database", r.(*milvuspb.CreateDatabaseRequest).DbName, v.DBName)
			}},
		{Name: "DropDatabase", Mutating: "DropDatabase", Reads: []string{"ListDatabases"}, DBLevel: true, Stamped: true,
			Call: func(h *MilvusDataHandler, db string, v hVals) error {
				p := &api.DropDatabaseParam{DropDatabaseRequest: &milvuspb.DropDatabaseRequest{Base: hBase(v, commonpb.MsgType_DropDatabase), DbName: v.DBName}}
				p.Database = db
				return h.DropDatabase(ctx(), p)
			},
			Check: func(r proto.Message, v hVals) string {
				return hEq("database", r.(*milvuspb.DropDatabaseRequest).DbName, v.DBName)
			}},
		{Name: "CreateRole", Mutating: "CreateRole", DBLevel: true, RBAC: true, Stamped: true,
			Call: func(h *MilvusDataHandler, db string, v hVals) error {
				p := &api.CreateRoleParam{CreateRoleRequest: &milvuspb.CreateRoleRequest{Base: hBase(v, commonpb.MsgType_CreateRole), Entity: &milvuspb.RoleEntity{Name: v.Role}}}
				p.Database = db
				return h.CreateRole(ctx(), p)
			},
			Check: func(r proto.Message, v hVals) string {
				return hEq("role", r.(*milvuspb.CreateRoleRequest).GetEntity().GetName(), v.Role)
			}},
		{Name: "DropRole", Mutating: "DropRole", DBLevel: true, RBAC: true, Stamped: true,
			Call: func(h *MilvusDataHandler, db string, v hVals) error {
				p := &api.DropRoleParam{DropRoleRequest: &milvuspb.DropRoleRequest{Base: hBase(v, commonpb.MsgType_DropRole), RoleName: v.Role}}
				p.Database = db
				return h.DropRole(ctx(), p)
			},
			Check: func(r proto.Message, v hVals) string {
				return hEq("role", r.(*milvuspb.DropRoleRequest).RoleName, v.Role)
			}},
		{Name: "AddUserToRole", Mutating: "OperateUserRole", DBLevel: true, RBAC: true, Stamped: true,
			Call: func(h *MilvusDataHandler, db string, v hVals) error {
				p := &api.OperateUserRoleParam{OperateUserRoleRequest: &milvuspb.OperateUserRoleRequest{Base: hBase(v, commonpb.MsgType_OperateUserRole), Username: v.User, RoleName: v.Role, Type: milvuspb.OperateUserRoleType_AddUserToRole}}
				p.Database = db
				return h.OperateUserRole(ctx(), p)
			},
			Check: func(r proto.Message, v hVals) string {
				q := r.(*milvuspb.OperateUserRoleRequest)
				return hEq("user", q.Username, v.User) + hEq("role", q.RoleName, v.Role) + hEq("type", q.Type, milvuspb.OperateUserRoleType_AddUserToRole)
			}},
		{Name: "RemoveUserFromRole", Mutating: "OperateUserRole", DBLevel: true, RBAC: true, Stamped: true,
			Call: func(h *MilvusDataHandler, db string, v hVals) error {
				p := &api.OperateUserRoleParam{OperateUserRoleRequest: &milvuspb.OperateUserRoleRequest{Base: hBase(v, commonpb.MsgType_OperateUserRole), Username: v.User, RoleName: v.Role, Type: milvuspb.OperateUserRoleType_RemoveUserFromRole}}
				p.Database = db
				return h.OperateUserRole(ctx(), p)
			},
			Check: func(r proto.Message, v hVals) string {
				q := r.(*milvuspb.OperateUserRoleRequest)
				return hEq("user", q.Username, v.User) + hEq("role", q.RoleName, v.Role) + hEq("type", q.Type, milvuspb.OperateUserRoleType_RemoveUserFromRole)
			}},
		{Name: "DeleteUser", Mutating: "DeleteCredential", DBLevel: true, RBAC: true, Stamped: true,
			Call: func(h *MilvusDataHandler, db string, v hVals) error {
				p := &api.DeleteUserParam{DeleteCredentialRequest: &milvuspb.DeleteCredentialRequest{Base: hBase(v, commonpb.MsgType_DeleteCredential), Username: v.User}}
				p.Database = db
				return h.DeleteUser(ctx(), p)
			},
			Check: func(r proto.Message, v hVals) string {
				return hEq("user", r.(*milvuspb.DeleteCredentialRequest).Username, v.User)
			}},
		{Name: "CreateUser", Mutating: "CreateCredential", DBLevel: true, RBAC: true, Stamped: true,
			Call: func(h *MilvusDataHandler, db string, v hVals) error {
				p := &api.CreateUserParam{CreateCredentialRequest: &milvuspb.CreateCredentialRequest{Base: hBase(v, commonpb.MsgType_CreateCredential), Username: v.User, Password: crypto.Base64Encode("pw-" + v.User)}}
				p.Database = db
				return h.CreateUser(ctx(), p)
			},
			Check: func(r proto.Message, v hVals) string {
				q := r.(*milvuspb.CreateCredentialRequest)
				pw, _ := crypto.Base64Decode(q.Password)
				return hEq("user", q.Username, v.User) + hEq("password", pw, "pw-"+v.User)
			}},
		{Name: "UpdateUser", Mutating: "UpdateCredential", DBLevel: true, RBAC: true, Stamped: true,
			Call: func(h *MilvusDataHandler, db string, v hVals) error {
				p := &api.UpdateUserParam{UpdateCredentialRequest: &milvuspb.UpdateCredentialRequest{Base: hBase(v, commonpb.MsgType_UpdateCredential), Username: v.User, OldPassword: crypto.Base64Encode("old-" + v.User), NewPassword: crypto.Base64Encode("new-" + v.User)}}
				p.Database = db
				return h.UpdateUser(ctx(), p)
			},
			Check: func(r proto.Message, v hVals) string {
				q := r.(*milvuspb.UpdateCredentialRequest)
				o, _ := crypto.Base64Decode(q.OldPassword)
				n, _ := crypto.Base64Decode(q.NewPassword)
				return hEq("user", q.Username, v.User) + hEq("old password", o, "old-"+v.User) + hEq("new password", n, "new-"+v.User)
			}},
		{Name: "GrantPrivilege", Mutating: "OperatePrivilege", DBLevel: true, RBAC: true, Stamped: true,
			Call: func(h *MilvusDataHandler, db string, v hVals) error {
				p := &api.OperatePrivilegeParam{OperatePrivilegeRequest: &milvuspb.OperatePrivilegeRequest{Base: hBase(v, commonpb.MsgType_OperatePrivilege), Type: milvuspb.OperatePrivilegeType_Grant,
					Entity: &milvuspb.GrantEntity{Role: &milvuspb.RoleEntity{Name: v.Role}, Object: &milvuspb.ObjectEntity{Name: "Collection"}, ObjectName: v.Coll, DbName: v.DBName,
						Grantor: &milvuspb.GrantorEntity{Privilege: &milvuspb.PrivilegeEntity{Name: "Insert"}}}}}
				p.Database = db
				return h.OperatePrivilege(ctx(), p)
			},
			Check: func(r proto.Message, v hVals) string {
				q := r.(*milvuspb.OperatePrivilegeRequest)
				return hEq("type", q.Type, milvuspb.OperatePrivilegeType_Grant) + hEq("role", q.GetEntity().GetRole().GetName(), v.Role) + hEq("object", q.GetEntity().GetObject().GetName(), "Collection") +
					hEq("object name", q.GetEntity().GetObjectName(), v.Coll) + hEq("db", q.GetEntity().GetDbName(), v.DBName) + hEq("privilege", q.GetEntity().GetGrantor().GetPrivilege().GetName(), "Insert")
			}},
		{Name: "RevokePrivilege", Mutating: "OperatePrivilege", DBLevel: true, RBAC: true, Stamped: true,
			Call: func(h *MilvusDataHandler, db string, v hVals) error {
				p := &api.OperatePrivilegeParam{OperatePrivilegeRequest: &milvuspb.OperatePrivilegeRequest{Base: hBase(v, commonpb.MsgType_OperatePrivilege), Type: milvuspb.OperatePrivilegeType_Revoke,
					Entity: &milvuspb.GrantEntity{Role: &milvuspb.RoleEntity{Name: v.Role}, Object: &milvuspb.ObjectEntity{Name: "Global"}, ObjectName: "*", DbName: v.DBName,
						Grantor: &milvuspb.GrantorEntity{Privilege: &milvuspb.PrivilegeEntity{Name: "CreateCollection"}}}}}
				p.Database = db
				return h.OperatePrivilege(ctx(), p)
			},
			Check: func(r proto.Message, v hVals) string {
				q := r.(*milvuspb.OperatePrivilegeRequest)
				return hEq("type", q.Type, milvuspb.OperatePrivilegeType_Revoke) + hEq("role", q.GetEntity().GetRole().GetName(), v.Role) + hEq("object", q.GetEntity().GetObject().GetName(), "Global") +
					hEq("object name", q.GetEntity().GetObjectName(), "*") + hEq("db", q.GetEntity().GetDbName(), v.DBName) + hEq("privilege", q.GetEntity().GetGrantor().GetPrivilege().GetName(), "CreateCollection")
			}},
		{Name: "AlterDatabase", Mutating: "AlterDatabase", DBLevel: true, Stamped: true,
			Call: func(h *MilvusDataHandler, db string, v hVals) error {
				p := &api.AlterDatabaseParam{AlterDatabaseRequest: &milvuspb.AlterDatabaseRequest{Base: hBase(v, commonpb.MsgType_AlterDatabase), DbName: v.DBName, Properties: []*commonpb.KeyValuePair{{Key: "database.replica.number", Value: "2"}}}}
				p.Database = db
				return h.AlterDatabase(ctx(), p)
			},
			Check: func(r proto.Message, v hVals) string {
				q := r.(*milvuspb.AlterDatabaseRequest)
				kv := map[string]string{}
				for _, e := range q.Properties {
					kv[e.Key] = e.Value
				}
				return hEq("database", q.DbName, v.DBName) + hEq("replica number", kv["database.replica.number"], "2")
			}},
	}
}

var hServer *fakemilvus.Server

func hSetup(t *testing.T) (*fakemilvus.Server, *MilvusDataHandler) {
	if hServer == nil {
		s, err := fakemilvus.Start()
		if err != nil {
			t.Fatal(err)
		}
		hServer = s
	}
	h := &MilvusDataHandler{uri: hServer.Addr, connectTimeout: 3, retryOptions: []retry.Option{retry.Attempts(1)}}
	return hServer, h
}

// wantDB: the database a call must be routed to on the wire
func hWantDB(op hOp, db string) string {
	if op.DBLevel || db == "" {
		return "default"
	}
	return db
}

func hJudge(op hOp, db string, v hVals, calls []fakemilvus.Call, err error, wantStamp bool) (viol [][2]string) {
	add := func(sig, d string) { viol = append(viol, [2]string{sig, d}) }
	if err != nil {
		add("call-failed/"+op.Name, fmt.Sprintf("%s(db=%q) failed against an accepting downstream: %v", op.Name, db, err))
		return
	}
	want := hWantDB(op, db)
	nMut := 0
	var seq []string
	for _, c := range calls {
		seq = append(seq, c.Method+"@"+c.DB)
		got := c.DB
		if got == "" {
			got = "default"
		}
		if got != want {
			add("route/"+op.Name, fmt.Sprintf("%s(db=%q): RPC %s was routed to database %q, want %q (calls %v)", op.Name, db, c.Method, c.DB, want, seq))
		}
		if c.Method == op.Mutating {
			nMut++
			if d := op.Check(c.Req, v); d != "" {
				add("fields/"+op.Name, fmt.Sprintf("%s(db=%q): wire request differs: %s", op.Name, db, d))
			}
			if wantStamp && op.Stamped {
				b, ok := c.Req.(interface{ GetBase() *commonpb.MsgBase })
				if !ok || b.GetBase() == nil || !b.GetBase().GetReplicateInfo().GetIsReplicate() || b.GetBase().GetReplicateInfo().GetMsgTimestamp() != v.TS {
					cls := op.Name
					if op.RBAC {
						cls = "rbac" // one cause for all of them: the SDK calls for users, roles and privileges take no message base
					}
					add("stamp/"+cls, fmt.Sprintf("%s(db=%q): wire request carries no replication stamp for ts %d: base=%v", op.Name, db, v.TS, b.GetBase()))
				}
			}
			continue
		}
		ok := false
		for _, r := range op.Reads {
			ok = ok || r == c.Method
		}
		if !ok {
			add("extra-call/"+op.Name, fmt.Sprintf("%s(db=%q): unexpected RPC %s (calls %v)", op.Name, db, c.Method, seq))
		}
	}
	if nMut != 1 {
		add("count/"+op.Name, fmt.Sprintf("%s(db=%q): %d %s RPCs reached the downstream, want exactly 1 (calls %v)", op.Name, db, nMut, op.Mutating, seq))
	}
	return
}

func hEnum(res *ev.Result, t *testing.T, prefix string, wantStamp bool, filter func(sig string) bool) {
	srv, h := hSetup(t)
	ops := hOps()
	vals := []hVals{
		{Coll: "a", Part: "p1", Index: "idx", Field: "vec", DBName: "newdb", Parts: []string{"p1"}, TS: 7001, User: "u1", Role: "r1"},
		{Coll: "coll_b", Part: "part2", Index: "i2", Field: "f2", DBName: "db9", Parts: []string{"p1", "part2"}, TS: 442200000000001, User: "user2", Role: "role2"},
	}
	idx := 0
	for _, op := range ops {
		for _, db := range []string{"", "default", "db1", "Z"} {
			for vi, v := range vals {
				idx++
				if !ev.Mine(idx) {
					continue
				}
				// the downstream does not have the collection yet for create collection (describe -> not found -> create)
				srv.Missing = map[string]bool{}
				if op.Name == "CreateCollection" {
					srv.Missing[hWantDB(op, db)+"/"+v.Coll] = true
				}
				srv.Answer = nil
				srv.Calls()
				err := op.Call(h, db, v)
				calls := srv.Calls()
				res.Evaluations++
				res.States++
				res.Transitions++
				res.Traces++
				if db != "" && db != "default" {
					res.Nontrivial++
				}
				var seq []string
				for _, c := range calls {
					seq = append(seq, c.Method)
				}
				res.Outcome(op.Name + ": " + strings.Join(seq, ","))
				for _, vv := range hJudge(op, db, v, calls, err, wantStamp) {
					if filter(vv[0]) {
						res.Violate(prefix+"/handler/"+vv[0], vv[1], map[string]interface{}{"op": op.Name, "db": db, "vals": vi})
					}
				}
			}
		}
	}
}

// C09 at handler level: routing database and names on the wire
func TestVerifC09Handler(t *testing.T) {
	res := ev.New("C09", "handler")
	defer res.Write()
	res.Rule = "the real MilvusDataHandler + Milvus SDK client against an in-process gRPC Milvus: every DataHandler operation kind (19) x routing database {\"\", default, db1, Z} x 2 value sets; every RPC seen on the wire (the mutating one and the reads around it) must carry the dbname header of the routing database (default for database-level and RBAC operations) and the request must name the collection / partition / index / database of the call; exactly one mutating RPC"
	hEnum(res, t, "C09", false, func(sig string) bool {
		return strings.HasPrefix(sig, "route/") || strings.HasPrefix(sig, "fields/") || strings.HasPrefix(sig, "count/") || strings.HasPrefix(sig, "call-failed/") || strings.HasPrefix(sig, "extra-call/")
	})
}

// C20 at handler level: the replication stamp on the wire
func TestVerifC20Handler(t *testing.T) {
	res := ev.New("C20", "handler")
	defer res.Write()
	res.Rule = "the real MilvusDataHandler + Milvus SDK client against an in-process gRPC Milvus: for every operation kind whose SDK call accepts the replicated message base, the mutating wire request must carry IsReplicate and the source timestamp; identity fields as in the C09 handler part"
	hEnum(res, t, "C20", true, func(sig string) bool {
		return strings.HasPrefix(sig, "stamp/") || strings.HasPrefix(sig, "fields/") || strings.HasPrefix(sig, "count/")
	})
}

// ------------------------------------------------------------------------------------------------
// C07 at handler level: ReplicateMessage envelope and outcome for every downstream answer x client pool state

func TestVerifC07Handler(t *testing.T) {
	res := ev.New("C07", "handler")
	defer res.Write()
	res.Rule = "the real MilvusDataHandler.ReplicateMessage + SDK client against an in-process gRPC Milvus: downstream answer {ok, error status, transport error, unreachable} x pooled client {cached, evicted} x 2 pack shapes; on ok the wire request equals the param (channel, begin/end ts, message bytes, start/end positions, base) and the response position is handed back; on every other answer an error is returned and no position is handed back"
	srv, h := hSetup(t)
	if os.Getenv("VERIF_REPLAY") != "" {
		res.Extra["replay"] = "total enumeration: re-run the part"
	}
	mk := func(i int) *api.ReplicateMessageParam {
		p := &api.ReplicateMessageParam{ChannelName: fmt.Sprintf("tgt-dml_%d", i), BeginTs: uint64(100 + i), EndTs: uint64(200 + i),
			MsgsBytes:      [][]byte{[]byte(fmt.Sprintf("msg-%d-a", i)), []byte("b")},
			StartPositions: []*msgpb.MsgPosition{{ChannelName: "c", MsgID: []byte("s"), Timestamp: uint64(100 + i)}},
			EndPositions:   []*msgpb.MsgPosition{{ChannelName: "c", MsgID: []byte(fmt.Sprintf("e%d", i)), Timestamp: uint64(200 + i)}}}
		p.Base = &commonpb.MsgBase{ReplicateInfo: &commonpb.ReplicateInfo{IsReplicate: true}}
		if i%2 == 1 {
			p.MsgsBytes = p.MsgsBytes[:1]
		}
		return p
	}
	answers := []string{"ok", "status", "transport", "unreachable"}
	pools := []string{"cached", "evicted"}
	n := 0
	for _, pool := range pools {
		for ai, ans := range answers {
			for shape := 0; shape < 2; shape++ {
				n++
				if !ev.Mine(n) {
					continue
				}
				// bring the pool into the wanted state
				srv.Answer = nil
				if pool == "cached" {
					_ = h.ReplicateMessage(context.Background(), mk(9))
				} else {
					util.GetMilvusClientManager().DeleteMilvusClient(h.uri, util.DefaultDbName)
					time.Sleep(resource.DefaultExpiration + resource.DefaultCheckInterval + 200*time.Millisecond)
				}
				srv.Calls()
				switch ans {
				case "status":
					srv.Answer = func(m, db string, r proto.Message) error { return fakemilvus.ErrStatus{Reason: "rejected"} }
				case "transport":
					srv.Answer = func(m, db string, r proto.Message) error { return fakemilvus.Unavailable() }
				case "unreachable":
					srv.Stop()
				}
				p := mk(ai*2 + shape)
				ctx, cancel := context.WithTimeout(context.Background(), 4*time.Second)
				err := h.ReplicateMessage(ctx, p)
				cancel()
				calls := srv.Calls()
				if ans == "unreachable" {
					if e := srv.Restart(); e != nil {
						t.Fatal(e)
					}
				}
				res.Evaluations++
				res.States++
				res.Transitions++
				res.Traces++
				if ans != "ok" {
					res.Nontrivial++
				}
				res.Outcome(fmt.Sprintf("%s/%s -> err=%v calls=%d pos=%q", pool, ans, err != nil, len(calls), p.TargetMsgPosition))
				rp := map[string]interface{}{"pool": pool, "answer": ans, "shape": shape}
				if ans == "ok" {
					if err != nil {
						res.Violate("C07/handler/ok-but-error", fmt.Sprintf("pool=%s: the downstream accepted the pack but ReplicateMessage returned %v", pool, err), rp)
						continue
					}
					var reqs []*milvuspb.ReplicateMessageRequest
					for _, c := range calls {
						if c.Method == "ReplicateMessage" {
							reqs = append(reqs, c.Req.(*milvuspb.ReplicateMessageRequest))
						}
					}
					if len(reqs) != 1 {
						res.Violate("C07/handler/send-count", fmt.Sprintf("pool=%s: %d ReplicateMessage RPCs for one call", pool, len(reqs)), rp)
						continue
					}
					q := reqs[0]
					d := hEq("channel", q.ChannelName, p.ChannelName) + hEq("begin", q.BeginTs, p.BeginTs) + hEq("end", q.EndTs, p.EndTs) + hEq("msgs", q.Msgs, p.MsgsBytes) +
						hEq("start positions", q.StartPositions, p.StartPositions) + hEq("end positions", q.EndPositions, p.EndPositions) + hEq("is-replicate", q.GetBase().GetReplicateInfo().GetIsReplicate(), true)
					if d != "" {
						res.Violate("C07/handler/envelope", fmt.Sprintf("pool=%s: wire request differs from the param: %s", pool, d), rp)
					}
					if p.TargetMsgPosition == "" {
						res.Violate("C07/handler/position-lost", fmt.Sprintf("pool=%s: the downstream's position was not handed back", pool), rp)
					}
				} else {
					if err == nil {
						res.Violate("C07/handler/error-swallowed/"+ans, fmt.Sprintf("pool=%s answer=%s: the pack was not accepted (%d RPCs reached the downstream) but ReplicateMessage returned nil, position %q", pool, ans, len(calls), p.TargetMsgPosition), rp)
					}
				}
			}
		}
	}
	var ks []string
	for k := range res.Outcomes {
		ks = append(ks, k)
	}
	sort.Strings(ks)
	res.Sample(ks)
}
