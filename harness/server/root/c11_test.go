package server

// C11: the task lifecycle as a state machine. BFS over API call histories (create, pause, resume, delete,
// get, list, restart) over two tasks on one or two targets, with the metadata store failing at a chosen
// call index of an operation; after every step the state reported by the API, the persisted state, the
// in-memory state and the per-state gauges must agree with each other and with a reference machine, and
// the per-target replication resources must match the set of running tasks.

import (
	"context"
	"errors"
	"fmt"
	"os"
	"sort"
	"strings"
	"testing"
	"time"

	"github.com/zilliztech/milvus-cdc/core/api"
	"github.com/zilliztech/milvus-cdc/core/log"
	"github.com/zilliztech/milvus-cdc/core/util"
	"github.com/zilliztech/milvus-cdc/core/verifkit/ev"
	"github.com/zilliztech/milvus-cdc/server/metrics"
	"github.com/zilliztech/milvus-cdc/server/model"
	"github.com/zilliztech/milvus-cdc/server/model/meta"
	"github.com/zilliztech/milvus-cdc/server/model/request"
)

type c11Op struct {
	Kind  string `json:"k"` // create | pause | resume | delete | get | list | restart
	Task  int    `json:"t,omitempty"`
	Fault int    `json:"f,omitempty"` // fail the n-th store call of this operation (0 = none)
}

func (o c11Op) String() string {
	s := o.Kind
	if o.Kind != "list" && o.Kind != "restart" {
		s += fmt.Sprintf("(t%d)", o.Task)
	}
	if o.Fault > 0 {
		s += fmt.Sprintf("!%d", o.Fault)
	}
	return s
}

type c11Cfg struct {
	TwoTargets bool
	NoAuto     [2]bool // DisableAutoStart per task
	NoID       bool    // the create requests carry no task id: the server assigns one
}

var errC11Fault = errors.New("injected store failure")
var errC11SlotTaken = errors.New("harness: slot taken")

func c11Req(cfg c11Cfg, i int) *request.CreateRequest {
	uri := "milvus-a:19530"
	if cfg.TwoTargets && i == 1 {
		uri = "milvus-b:19530"
	}
	tid := fmt.Sprintf("t%d", i)
	if cfg.NoID {
		tid = ""
	}
	r := &request.CreateRequest{TaskID: tid, DisableAutoStart: cfg.NoAuto[i],
		MilvusConnectParam: model.MilvusConnectParam{URI: uri, ConnectTimeout: 1, ChannelNum: 2},
		CollectionInfos:    []model.CollectionInfo{{Name: fmt.Sprintf("c%d", i), Positions: map[string]string{fmt.Sprintf("src-dml_0_%dv0", 100+i): c19Pos(fmt.Sprintf("src-dml_0_%dv0", 100+i), "p")}}}}
	return r
}

type c11Result struct {
	viol, key  string
	nontrivial bool
}

func c11Exec(cfg c11Cfg, hist []c11Op) *c11Result {
	res := &c11Result{}
	env := newVEnv()
	defer env.close()
	ref := map[string]string{} // task -> Running | Paused (absent = not existing)
	ids := [2]string{"t0", "t1"} // slot -> task id
	if cfg.NoID {
		ids = [2]string{"unassigned-0", "unassigned-1"}
	}
	for step, op := range hist {
		id := ids[op.Task]
		c11FaultedWrite = ""
		if op.Fault > 0 {
			n := 0
			env.fe.Hook = func(o, k string) error {
				n++
				if n == op.Fault {
					// (the state update is a read-modify-write of the task's own record: either half may be the one that fails)
					if i := strings.Index(k, "/task_info/"); i >= 0 {
						c11FaultedWrite = k[i+len("/task_info/"):]
					}
					return errC11Fault
				}
				return nil
			}
			res.nontrivial = true
		}
		var err error
		panicked := ""
		hadEntity := op.Kind == "fail" && env.entityOf(id) != nil
		func() {
			defer func() {
				if r := recover(); r != nil {
					panicked = fmt.Sprint(r)
				}
			}()
			switch op.Kind {
			case "create":
				var cresp *request.CreateResponse
				if _, live := ref[id]; cfg.NoID && live {
					// (without a task id every create makes a new task: the slot keeps one task at a time)
					err = errC11SlotTaken
					break
				}
				cresp, err = env.Create(c11Req(cfg, op.Task))
				if err == nil && cfg.NoID && cresp != nil {
					ids[op.Task] = cresp.TaskID
					id = cresp.TaskID
				}
			case "pause":
				err = env.Pause(id)
			case "resume":
				err = env.Resume(id)
			case "delete":
				err = env.Delete(id)
			case "get":
				_, err = env.cdc.Get(&request.GetRequest{TaskID: id})
			case "list":
				_, err = env.cdc.List(&request.ListRequest{})
			case "restart":
				env.Restart()
			case "fail":
				env.reportFailure(id)
			}
		}()
		env.fe.Hook = nil
		if panicked != "" {
			if op.Kind == "restart" && op.Fault > 0 {
				// ReloadTask gives up (log.Panic) when it cannot read the task list at start-up: the process does
				// not come up; retry the restart without the fault
				env.Restart()
			} else {
				res.viol = fmt.Sprintf("panic: step %d %v panicked: %s", step, op, panicked)
				return res
			}
		}
		// reference machine (for operations without an injected fault the outcome is determined)
		_, exists := ref[id]
		if op.Fault == 0 {
			switch op.Kind {
			case "create":
				if errors.Is(err, errC11SlotTaken) {
					break
				}
				if exists {
					// a create with the id of an existing task returns that task and changes nothing
					if err != nil {
						res.viol = fmt.Sprintf("transition: step %d %v on an existing task failed: %v", step, op, err)
						return res
					}
				} else {
					if err != nil {
						res.viol = fmt.Sprintf("transition: step %d %v failed: %v", step, op, err)
						return res
					}
					ref[id] = "Running"
				}
			case "pause":
				legal := exists && ref[id] == "Running"
				if legal != (err == nil) {
					res.viol = fmt.Sprintf("transition: step %d %v from state %q: err=%v", step, op, ref[id], err)
					return res
				}
				if legal {
					ref[id] = "Paused"
				}
			case "resume":
				legal := exists && ref[id] == "Paused"
				if legal != (err == nil) {
					res.viol = fmt.Sprintf("transition: step %d %v from state %q: err=%v", step, op, ref[id], err)
					return res
				}
				if legal {
					ref[id] = "Running"
				}
			case "delete":
				if exists != (err == nil) {
					res.viol = fmt.Sprintf("transition: step %d %v (exists=%v): err=%v", step, op, exists, err)
					return res
				}
				delete(ref, id)
			case "get":
				if exists != (err == nil) {
					res.viol = fmt.Sprintf("transition: step %d %v (exists=%v): err=%v", step, op, exists, err)
					return res
				}
			case "fail":
				// a replication failure reported for the task (error event of the reader): it ends Paused, whatever it was
				if exists && hadEntity {
					ref[id] = "Paused"
				}
			case "restart":
				for i := 0; i < 2; i++ {
					tid := ids[i]
					if _, ok := ref[tid]; ok {
						if cfg.NoAuto[i] {
							ref[tid] = "Paused"
						} else {
							ref[tid] = "Running"
						}
					}
				}
			}
		} else {
			// with a store fault the operation may have been applied or not; adopt what the store says afterwards and
			// demand that everything else agrees with it
			infos, _ := env.st.ti.Get(context.Background(), &meta.TaskInfo{}, nil)
			ref = map[string]string{}
			for _, in := range infos {
				ref[in.TaskID] = in.State.String()
			}
			if op.Kind == "restart" {
				for i := 0; i < 2; i++ {
					tid := ids[i]
					if _, ok := ref[tid]; ok && ref[tid] == "Initial" {
						ref[tid] = "Initial"
					}
				}
			}
		}
		if v := c11Invariants(env, cfg, ref, step, op); v != "" {
			res.viol = v
			return res
		}
	}
	var ks []string
	for k, v := range ref {
		ks = append(ks, k+"="+v)
	}
	sort.Strings(ks)
	res.key = strings.Join(ks, ",") + "|" + env.storeDumpKeys()
	if cfg.NoID {
		for i, tid := range ids {
			res.key = strings.ReplaceAll(res.key, tid, fmt.Sprintf("t%d", i)) // server-assigned ids differ from run to run
		}
	}
	return res
}

// entityOf: the registered replication entity of the target a task lives on (nil if the task does not exist or
// the target has no running task)
func (e *vEnv) entityOf(taskID string) *vEntity {
	e.cdc.cdcTasks.RLock()
	t := e.cdc.cdcTasks.data[taskID]
	e.cdc.cdcTasks.RUnlock()
	if t == nil {
		return nil
	}
	uKey := getTaskUniqueIDFromInfo(t)
	e.cdc.replicateEntityMap.RLock()
	defer e.cdc.replicateEntityMap.RUnlock()
	for _, en := range e.entities {
		if en.uKey == uKey && e.cdc.replicateEntityMap.data[uKey] == en.ent {
			return en
		}
	}
	return nil
}

// reportFailure delivers a reader error event naming the task on the event channel of its target's entity (what
// sendErrEvent of the channel manager does) and returns when the server's event goroutine has handled it: the event
// channel of the light channel manager is unbuffered and a second, inert event (not-running task) is accepted only
// after the goroutine is back at its select.
func (e *vEnv) reportFailure(taskID string) {
	en := e.entityOf(taskID)
	if en == nil {
		return // no reader of that target is alive: nothing can report a failure
	}
	send := func(ev *api.ReplicateAPIEvent) {
		select {
		case en.cm.eventCh <- ev:
		case <-en.ctx.Done():
		case <-time.After(20 * time.Second):
			panic("verif: event goroutine does not take events")
		}
	}
	send(&api.ReplicateAPIEvent{EventType: api.ReplicateError, TaskID: taskID, Error: errC11Fault})
	send(&api.ReplicateAPIEvent{EventType: api.ReplicateCreatePartition, TaskID: "verif-no-such-task"})
}

func (e *vEnv) storeDumpKeys() string {
	d := e.fe.Dump()
	var ks []string
	for k := range d {
		ks = append(ks, k)
	}
	sort.Strings(ks)
	return strings.Join(ks, ";")
}

// c11FaultedWrite: the task whose task-info record write was the store call that the current operation's injected
// failure hit ("" if it hit something else, or nothing).
var c11FaultedWrite string

func c11Invariants(env *vEnv, cfg c11Cfg, ref map[string]string, step int, op c11Op) string {
	where := fmt.Sprintf("step %d %v", step, op)
	// persisted
	infos, err := env.st.ti.Get(context.Background(), &meta.TaskInfo{}, nil)
	if err != nil {
		return "store: " + err.Error()
	}
	persisted := map[string]string{}
	for _, in := range infos {
		if !in.State.IsValidTaskState() {
			return fmt.Sprintf("state-domain: %s: task %s persisted with state %d", where, in.TaskID, in.State)
		}
		persisted[in.TaskID] = in.State.String()
	}
	// in memory
	mem := map[string]string{}
	env.cdc.cdcTasks.RLock()
	for id, t := range env.cdc.cdcTasks.data {
		mem[id] = t.State.String()
	}
	env.cdc.cdcTasks.RUnlock()
	// API
	apiStates := map[string]string{}
	lr, lerr := env.cdc.List(&request.ListRequest{})
	if lerr != nil {
		return fmt.Sprintf("api: %s: list failed: %v", where, lerr)
	}
	for _, t := range lr.Tasks {
		apiStates[t.TaskID] = t.State
		gr, gerr := env.cdc.Get(&request.GetRequest{TaskID: t.TaskID})
		if gerr != nil || gr.Task.State != t.State {
			return fmt.Sprintf("api: %s: get(%s) = %v/%v, list says %s", where, t.TaskID, gr, gerr, t.State)
		}
	}
	// gauges
	gi, gr, gp := metrics.VerifTaskNum()
	gauge := map[string]string{}
	for _, id := range gi {
		gauge[id] = "Initial"
	}
	for _, id := range gr {
		if _, dup := gauge[id]; dup {
			return fmt.Sprintf("gauge: %s: task %s is counted in two state gauges", where, id)
		}
		gauge[id] = "Running"
	}
	for _, id := range gp {
		if _, dup := gauge[id]; dup {
			return fmt.Sprintf("gauge: %s: task %s is counted in two state gauges", where, id)
		}
		gauge[id] = "Paused"
	}
	f := func(m map[string]string) string {
		var ks []string
		for k, v := range m {
			ks = append(ks, k+"="+v)
		}
		sort.Strings(ks)
		return strings.Join(ks, ",")
	}
	want := f(ref)
	if f(persisted) != want || f(mem) != want || f(apiStates) != want || f(gauge) != want {
		// One shape is reported under its own signature (recorded finding): during a reload the service pauses a task
		// itself (auto start disabled, or its start failed) and the store rejects exactly the write that records
		// that pause - the task is stopped and Paused in memory, the record (and with it the API and the gauges) still
		// says what it said before.
		if t := c11FaultedWrite; op.Kind == "restart" && t != "" && mem[t] == "Paused" && persisted[t] != "Paused" && persisted[t] != "" {
			m2 := map[string]string{}
			for k, v := range mem {
				m2[k] = v
			}
			m2[t] = persisted[t]
			if f(m2) == f(persisted) && f(apiStates) == f(persisted) && f(gauge) == f(persisted) {
				return fmt.Sprintf("state-disagree/internal-pause-not-persisted: %s: the write that records the pause of %s was rejected: persisted {%s} memory {%s} api {%s} gauges {%s}", where, t, f(persisted), f(mem), f(apiStates), f(gauge))
			}
		}
		return fmt.Sprintf("state-disagree: %s: reference {%s} persisted {%s} memory {%s} api {%s} gauges {%s}", where, want, f(persisted), f(mem), f(apiStates), f(gauge))
	}
	// per-target resources
	running := map[string][]string{} // uKey -> running tasks
	env.cdc.cdcTasks.RLock()
	for id, t := range env.cdc.cdcTasks.data {
		if ref[id] == "Running" {
			running[getTaskUniqueIDFromInfo(t)] = append(running[getTaskUniqueIDFromInfo(t)], id)
		}
	}
	env.cdc.cdcTasks.RUnlock()
	env.cdc.replicateEntityMap.RLock()
	defer env.cdc.replicateEntityMap.RUnlock()
	for uKey, ent := range env.cdc.replicateEntityMap.data {
		if int(ent.refCnt.Load()) != len(running[uKey]) {
			return fmt.Sprintf("refcount: %s: target %s has reference count %d but running tasks %v", where, uKey, ent.refCnt.Load(), running[uKey])
		}
		if len(running[uKey]) == 0 {
			return fmt.Sprintf("entity-leak: %s: target %s has no running task but its replication entity is still registered", where, uKey)
		}
		var quit []string
		ent.taskQuitFuncs.Range(func(k string, v func()) bool { quit = append(quit, k); return true })
		sort.Strings(quit)
		sort.Strings(running[uKey])
		if fmt.Sprint(quit) != fmt.Sprint(running[uKey]) {
			return fmt.Sprintf("quit-funcs: %s: target %s holds quit functions for %v, running tasks are %v", where, uKey, quit, running[uKey])
		}
	}
	for uKey, ts := range running {
		if _, ok := env.cdc.replicateEntityMap.data[uKey]; !ok && len(ts) > 0 {
			return fmt.Sprintf("entity-missing: %s: tasks %v run on target %s but it has no replication entity", where, ts, uKey)
		}
	}
	// readers: every entity the harness ever created: alive iff registered; subscriptions iff running
	for _, en := range env.entities {
		registered := env.cdc.replicateEntityMap.data[en.uKey] == en.ent
		if !registered && en.ctx.Err() == nil {
			return fmt.Sprintf("entity-not-stopped: %s: the replication entity of %s was dropped but its context is still live (its loops keep running)", where, en.uKey)
		}
		en.mo.mu.Lock()
		for task, n := range en.mo.subs {
			wantN := 0
			if registered && ref[task] == "Running" {
				wantN = 1
			}
			if n != wantN {
				en.mo.mu.Unlock()
				return fmt.Sprintf("reader-leak: %s: task %s (state %q) has %d live catalog subscriptions on target %s, want %d", where, task, ref[task], n, en.uKey, wantN)
			}
		}
		en.mo.mu.Unlock()
	}
	// op-channel readers registered at the source MQ: one per running task
	var wantReg []string
	for id, st := range ref {
		if st == "Running" {
			wantReg = append(wantReg, util.GetVChannel("by-dev-replicate-msg", id))
		}
	}
	gotReg := env.mq.Registered()
	sort.Strings(wantReg)
	sort.Strings(gotReg)
	if fmt.Sprint(wantReg) != fmt.Sprint(gotReg) {
		return fmt.Sprintf("stream-leak: %s: source streams registered %v, running tasks need %v", where, gotReg, wantReg)
	}
	// deletion removes the record and all checkpoints; nothing of a task that does not exist may be stored
	for k := range env.fe.Dump() {
		owner := ""
		for _, marker := range []string{"/task_position/", "/task_info/", "/task_msg/"} {
			if i := strings.Index(k, marker); i >= 0 {
				owner = strings.SplitN(k[i+len(marker):], "/", 2)[0]
			}
		}
		if owner != "" {
			if _, ok := ref[owner]; !ok {
				return fmt.Sprintf("orphan-record: %s: store key %s belongs to task %s which does not exist", where, k, owner)
			}
		}
	}
	// every existing task has its checkpoint record (created with positions)
	for id := range ref {
		found := false
		for k := range env.fe.Dump() {
			if strings.Contains(k, "task_position/"+id+"/") {
				found = true
			}
		}
		if !found {
			return fmt.Sprintf("checkpoint-lost: %s: task %s exists but has no checkpoint record", where, id)
		}
	}
	return ""
}

func c11Ops(maxFault int) []c11Op {
	var ops []c11Op
	for _, k := range []string{"create", "pause", "resume", "delete", "get"} {
		for t := 0; t < 2; t++ {
			ops = append(ops, c11Op{Kind: k, Task: t})
		}
	}
	ops = append(ops, c11Op{Kind: "list"}, c11Op{Kind: "restart"}, c11Op{Kind: "fail", Task: 0}, c11Op{Kind: "fail", Task: 1})
	for _, k := range []string{"create", "pause", "resume", "delete"} {
		n := maxFault
		if k == "create" {
			// (a create makes more store calls than the others: listing, record, checkpoints, then the start's own reads and
			// state write - the later ones fail the create AFTER its record has been written)
			n = maxFault + 4
		}
		for f := 1; f <= n; f++ {
			ops = append(ops, c11Op{Kind: k, Task: 0, Fault: f})
		}
	}
	// a restart at a quiescent point whose reload meets a store failure at its n-th call (n = 1 is the task listing: the
	// process gives up and is started again)
	for f := 1; f <= maxFault+2; f++ {
		ops = append(ops, c11Op{Kind: "restart", Fault: f})
	}
	return ops
}

func TestVerifC11Lifecycle(t *testing.T) {
	res := ev.New("C11", "lifecycle")
	defer res.Write()
	log.Info("warm up")
	if p := os.Getenv("VERIF_REPLAY"); p != "" {
		var f struct {
			Replay struct {
				Cfg     c11Cfg  `json:"cfg"`
				History []c11Op `json:"history"`
			} `json:"replay"`
		}
		b, _ := os.ReadFile(p)
		if err := jsonUnmarshalS(b, &f); err != nil {
			t.Fatal(err)
		}
		r := c11Exec(f.Replay.Cfg, f.Replay.History)
		if r.viol != "" {
			fmt.Println("REPLAY-VIOLATION", r.viol)
			res.Violate("C11/"+strings.SplitN(r.viol, ":", 2)[0], r.viol, f.Replay)
		} else {
			fmt.Println("REPLAY-OK")
		}
		return
	}
	depth, maxFault := 5, 3
	if ev.Thorough() {
		depth, maxFault = 6, 6
	}
	res.Bounds["depth"] = depth
	res.Bounds["fault_call_indexes"] = maxFault
	res.Rule = "BFS over histories of {create, pause, resume, delete, get of task t0|t1; list; restart; create/pause/resume/delete of t0 and restart with the metadata store failing at its n-th call (create: n up to fault_call_indexes + 4, which reaches the store calls of the start that follows the record write)} for configurations {same target, two targets} x {auto-start on, off for t0}; each history replayed on a fresh real MetaCDC over the real etcd stores on fakeetcd; after every step: only legal transitions succeed (fault-free operations), API = persisted = in-memory = gauge state for every task, reference count / quit functions / registered replication entity / catalog subscriptions / source stream registrations match the running tasks, no store record of a task that does not exist, every task has its checkpoint record; states deduplicated on (task states, store keys); non-trivial = histories containing an injected store fault"
	cfgs := []c11Cfg{{}, {TwoTargets: true}, {NoAuto: [2]bool{true, false}}, {NoID: true}}
	ops := c11Ops(maxFault)
	deadline := time.Now().Add(ev.Budget(150 * time.Second))
	nontriv := 0
	for ci, cfg := range cfgs {
		seen := map[string]bool{c11Exec(cfg, nil).key: true}
		res.States++
		frontier := [][]c11Op{nil}
		for d := 0; d < depth && len(frontier) > 0; d++ {
			var next [][]c11Op
			for _, h := range frontier {
				if time.Now().After(deadline) {
					res.Exhaustive = false
					res.Bounds["stopped_at_depth"] = d
					goto done
				}
				for oi, op := range ops {
					if len(h) == 0 && !ev.Mine(oi+ci) {
						continue
					}
					nh := append(append([]c11Op{}, h...), op)
					r := c11Exec(cfg, nh)
					res.Transitions++
					res.Evaluations++
					res.Traces++
					if r.viol != "" {
						// (real-time deadlines inside the stores: a violation must reproduce twice more, see C10)
						if r2, r3 := c11Exec(cfg, nh), c11Exec(cfg, nh); r2.viol != r.viol || r3.viol != r.viol {
							res.Exhaustive = false
							res.Extra["unreproduced"] = fmt.Sprintf("cfg %+v history %v: %.200s", cfg, nh, r.viol)
							continue
						}
						kind := strings.SplitN(r.viol, ":", 2)[0]
						fault := ""
						if op.Fault > 0 {
							fault = "!fault"
						}
						res.Violate(fmt.Sprintf("C11/%s/%s%s", kind, op.Kind, fault), fmt.Sprintf("cfg %+v history %v: %s", cfg, nh, r.viol), map[string]interface{}{"cfg": cfg, "history": nh})
						continue
					}
					if r.nontrivial {
						nontriv++
					}
					if !seen[r.key] {
						seen[r.key] = true
						res.States++
						next = append(next, nh)
						if len(next)%41 == 1 {
							res.Sample(map[string]interface{}{"cfg": fmt.Sprintf("%+v", cfg), "history": fmt.Sprint(nh), "state": r.key})
						}
					}
				}
			}
			frontier = next
		}
	}
done:
	res.Nontrivial = int64(nontriv)
}
