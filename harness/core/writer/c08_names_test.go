package writer

// C08 (c): non-interference between names. The writer's create / drop time tables are flat maps keyed by strings built
// from database, collection and partition names. What the writer has recorded about ONE object must decide operations
// on that object only: a drop replayed for object Y neither makes an older operation on a live object X be skipped,
// nor makes the writer forget the drop it recorded for X. Total enumeration over a universe of names that contain the
// key separator and are prefixes of each other.

import (
	"context"
	"fmt"
	"os"
	"strings"
	"testing"

	"github.com/zilliztech/milvus-cdc/core/api"
	"github.com/zilliztech/milvus-cdc/core/verifkit/ev"
)

type n8Obj struct{ DB, Coll, Part string }

func (o n8Obj) String() string {
	if o.Part == "" {
		return o.DB + "." + o.Coll
	}
	return o.DB + "." + o.Coll + "/" + o.Part
}

// n8Down: every object of the universe exists downstream until its drop (or the drop of its collection) is applied
type n8Down struct {
	gone map[string]bool
}

func (d *n8Down) exists(o n8Obj) bool {
	if d.gone[n8Obj{o.DB, o.Coll, ""}.String()] {
		return false
	}
	return !d.gone[o.String()]
}

func (d *n8Down) answer(kind string, p interface{}) error {
	switch x := p.(type) {
	case *api.DescribeDatabaseParam:
		return nil
	case *api.DescribeCollectionParam:
		if !d.exists(n8Obj{x.Database, x.Name, ""}) {
			return h8ErrDown
		}
	case *api.DescribePartitionParam:
		if !d.exists(n8Obj{x.Database, x.CollectionName, x.PartitionName}) {
			return h8ErrDown
		}
	case *api.DropCollectionParam:
		d.gone[n8Obj{x.Database, x.CollectionName, ""}.String()] = true
	case *api.DropPartitionParam:
		d.gone[n8Obj{x.Database, x.CollectionName, x.PartitionName}.String()] = true
	}
	return nil
}

// n8Step: a drop event of an object at time ts, or a use operation on it (Flush for a collection, LoadPartitions for a
// partition); returns "apply" | "skip" | "fail"
type n8Step struct {
	Drop bool   `json:"drop,omitempty"`
	Obj  n8Obj  `json:"obj"`
	TS   uint64 `json:"ts"`
}

func n8Run(steps []n8Step) []string {
	fd := &fakeDown{}
	down := &n8Down{gone: map[string]bool{}}
	fd.answer = down.answer
	w, _ := newVerifWriter(fd, "", nil)
	ctx := context.Background()
	var out []string
	for _, st := range steps {
		fd.calls = nil
		o := st.Obj
		v := opVals{DB: o.DB, Coll: o.Coll, Part: o.Part, Parts: []string{o.Part}, Colls: []string{o.Coll}, TS: st.TS, Field: "f", Index: "i"}
		var err error
		main := ""
		switch {
		case st.Drop && o.Part == "":
			main = "DropCollection"
			err = w.HandleReplicateAPIEvent(ctx, buildEvent(api.ReplicateDropCollection, v))
		case st.Drop:
			main = "DropPartition"
			err = w.HandleReplicateAPIEvent(ctx, buildEvent(api.ReplicateDropPartition, v))
		case o.Part == "":
			main = "Flush"
			_, err = w.HandleOpMessagePack(ctx, opPack(st.TS, buildOp("Flush", v)))
		default:
			main = "LoadPartitions"
			_, err = w.HandleOpMessagePack(ctx, opPack(st.TS, buildOp("LoadPartitions", v)))
		}
		n := 0
		for _, c := range fd.calls {
			if c.Kind == main {
				n++
			}
		}
		switch {
		case err != nil:
			out = append(out, "fail")
		case n == 0:
			out = append(out, "skip")
		default:
			out = append(out, "apply")
		}
	}
	return out
}

func TestVerifC08Names(t *testing.T) {
	res := ev.New("C08", "names")
	defer res.Write()
	if p := os.Getenv("VERIF_REPLAY"); p != "" {
		var f struct {
			Replay []n8Step `json:"replay"`
		}
		b, _ := os.ReadFile(p)
		if err := jsonUnmarshal(b, &f); err != nil {
			t.Fatal(err)
		}
		fmt.Println("REPLAY", n8Run(f.Replay))
		return
	}
	dbs := []string{"d", "d_a"}
	colls := []string{"a", "a_b", "b"}
	parts := []string{"p", "b_p"}
	var universe []n8Obj
	for _, d := range dbs {
		for _, c := range colls {
			universe = append(universe, n8Obj{d, c, ""})
			for _, p := range parts {
				universe = append(universe, n8Obj{d, c, p})
			}
		}
	}
	res.Bounds["objects"] = len(universe)
	res.Rule = "total enumeration over ordered pairs (X, Y) of different objects from a universe of 2 databases x 3 collections x 2 partitions whose names contain the key separator and are prefixes of each other (d / d_a, a / a_b / b, p / b_p), through the real ChannelWriter with a downstream in which every object exists until its drop is applied: (live) the drop of Y replayed at T must leave an operation on the live object X stamped T-1 applied, exactly as without it; (kept) after the drop of X at T, the drop of Y at T+10 must leave an older operation on X skipped, exactly as without it. Y is never X, X's collection, or a partition of X; plus a Flush naming two collections that the downstream rejects while the drop of none / one / both of them is being recorded: an error unless both are gone"
	related := func(x, y n8Obj) bool {
		if x.DB != y.DB || x.Coll != y.Coll {
			return false
		}
		return x.Part == "" || y.Part == "" || x.Part == y.Part
	}
	const T = 1000
	n := 0
	for _, x := range universe {
		for _, y := range universe {
			if related(x, y) {
				continue
			}
			n++
			if !ev.Mine(n) {
				continue
			}
			// live: X untouched, Y dropped
			base := n8Run([]n8Step{{Obj: x, TS: T - 1}})
			got := n8Run([]n8Step{{Drop: true, Obj: y, TS: T}, {Obj: x, TS: T - 1}})
			res.Evaluations += 2
			res.States++
			res.Transitions += 3
			res.Traces += 2
			res.Outcome("live:" + got[1])
			if base[0] != "apply" || got[1] != base[0] {
				steps := []n8Step{{Drop: true, Obj: y, TS: T}, {Obj: x, TS: T - 1}}
				res.Violate(fmt.Sprintf("C08/names/live/%s", n8Shape(x, y)), fmt.Sprintf("an operation on the live object %v stamped %d is %q on a fresh writer and %q after the drop of the unrelated object %v was replayed at %d", x, T-1, base[0], got[1], y, T), steps)
			}
			// kept: X dropped at T, then Y dropped
			base2 := n8Run([]n8Step{{Drop: true, Obj: x, TS: T}, {Obj: x, TS: T - 1}})
			got2 := n8Run([]n8Step{{Drop: true, Obj: x, TS: T}, {Drop: true, Obj: y, TS: T + 10}, {Obj: x, TS: T - 1}})
			res.Evaluations += 2
			res.Transitions += 5
			res.Traces += 2
			res.Nontrivial++
			res.Outcome("kept:" + got2[2])
			if base2[1] != "skip" || got2[2] != base2[1] {
				steps := []n8Step{{Drop: true, Obj: x, TS: T}, {Drop: true, Obj: y, TS: T + 10}, {Obj: x, TS: T - 1}}
				res.Violate(fmt.Sprintf("C08/names/kept/%s", n8Shape(x, y)), fmt.Sprintf("after the drop of %v at %d an operation on it stamped %d is %q; with the drop of the unrelated object %v replayed in between it is %q", x, T, T-1, base2[1], y, got2[2]), steps)
			}
		}
	}
	res.Bounds["pairs"] = n
	// a Flush that names two collections, rejected by the downstream while the drop of none / one / both of them is
	// recorded (by the event goroutine) with a time >= t: it is skipped successfully only if EVERY collection it still
	// names is gone; a rejection that concerns a living collection is an error (C06: never silently skipped)
	for mask := 0; mask < 4; mask++ {
		if !ev.Mine(n + 1 + mask) {
			continue
		}
		fd := &fakeDown{}
		w, _ := newVerifWriter(fd, "", nil)
		names := []string{"a", "b"}
		fd.answer = func(kind string, p interface{}) error {
			if kind == "Flush" {
				for i, c := range names {
					if mask&(1<<i) != 0 {
						c08Seed(w, 1, c08Obj{D: T + 3}, "d", c, "")
					}
				}
				return h8ErrDown
			}
			return nil
		}
		v := opVals{DB: "d", Colls: names, TS: T, Field: "f", Index: "i"}
		_, err := w.HandleOpMessagePack(context.Background(), opPack(T, buildOp("Flush", v)))
		res.Evaluations++
		res.Transitions++
		res.Traces++
		res.Nontrivial++
		wantErr := mask != 3
		res.Outcome(fmt.Sprintf("flush-list:%d:%v", mask, err != nil))
		if (err != nil) != wantErr {
			res.Violate(fmt.Sprintf("C08/names/flush-list/dropped=%d", mask), fmt.Sprintf("Flush[a b] stamped %d is rejected by the downstream while the drop of the collections in set %02b (bit 0 = a, bit 1 = b) is recorded at %d: returned err=%v, want an error exactly when a named collection is still alive", T, mask, T+3, err), map[string]interface{}{"mask": mask})
		}
	}
}

// n8Shape: how the flat keys of the two objects relate (the signature of a finding)
func n8Shape(x, y n8Obj) string {
	lv := func(o n8Obj) string {
		if o.Part == "" {
			return "coll"
		}
		return "part"
	}
	flat := func(o n8Obj) string {
		if o.Part == "" {
			return o.DB + "_" + o.Coll
		}
		return o.DB + "_" + o.Coll + "_" + o.Part
	}
	rel := "other"
	fx, fy := flat(x), flat(y)
	switch {
	case fx == fy:
		rel = "same-flat-key"
	case strings.HasPrefix(fx, fy+"_"):
		rel = "y-prefix-of-x"
	case strings.HasPrefix(fy, fx+"_"):
		rel = "x-prefix-of-y"
	}
	return lv(x) + "-" + lv(y) + "/" + rel
}
