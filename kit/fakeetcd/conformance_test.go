package fakeetcd

// Conformance of the in-memory etcd model against the real thing: an embedded etcd 3.5 server (loopback, from the
// module cache). Every operation sequence up to the depth bound over a small alphabet (puts, deletes, prefix
// deletes, gets, prefix gets, transactions with and without compares) is applied to a fresh Fake and to the real
// server (under a fresh key prefix); after every operation the operation's answer, the full dump of the prefix
// (keys, values, versions, create / mod revisions relative to the start of the sequence) and the events seen by a
// prefix watcher with previous values must agree.

import (
	"context"
	"fmt"
	"net/url"
	"os"
	"path/filepath"
	"sort"
	"strings"
	"testing"
	"time"

	clientv3 "go.etcd.io/etcd/client/v3"
	"go.etcd.io/etcd/server/v3/embed"

	"github.com/zilliztech/milvus-cdc/core/verifkit/ev"
)

type cfOp struct {
	Kind string // put | del | delp | get | getp | txn
	K, V string
	Cmp  string // "" | "absent" | "value=1"
	K2   string
}

func (o cfOp) String() string {
	return fmt.Sprintf("%s(%s,%s,%s,%s)", o.Kind, o.K, o.V, o.Cmp, o.K2)
}

func cfAlphabet() []cfOp {
	return []cfOp{
		{Kind: "put", K: "r/a", V: "1"}, {Kind: "put", K: "r/a", V: "2"}, {Kind: "put", K: "r/ab", V: "1"}, {Kind: "put", K: "r/b", V: "1"}, {Kind: "put", K: "q/a", V: "1"},
		{Kind: "del", K: "r/a"}, {Kind: "del", K: "r/b"}, {Kind: "delp", K: "r/a"}, {Kind: "delp", K: "r/"},
		{Kind: "get", K: "r/a"}, {Kind: "getp", K: "r/a"},
		{Kind: "txn", K: "r/a", V: "9", Cmp: "absent", K2: "r/b"}, // if r/a absent then put r/a=9 else delete r/b
		{Kind: "txn", K: "r/ab", V: "7", Cmp: "value=1", K2: "r/"}, // if r/a == 1 then put r/ab=7 else delete prefix r/
		{Kind: "txn", K: "r/b", V: "", Cmp: "", K2: "r/a"},         // unconditional: delete r/b and prefix r/a (the shape of DeleteTask)
	}
}

type cfKV interface {
	clientv3.KV
}

func cfApply(kv clientv3.KV, root string, base int64, o cfOp) string {
	ctx, cancel := context.WithTimeout(context.Background(), 5*time.Second)
	defer cancel()
	k := root + o.K
	switch o.Kind {
	case "put":
		_, err := kv.Put(ctx, k, o.V)
		return fmt.Sprintf("put err=%v", err)
	case "del":
		r, err := kv.Delete(ctx, k)
		if err != nil {
			return "del err=" + err.Error()
		}
		return fmt.Sprintf("del n=%d", r.Deleted)
	case "delp":
		r, err := kv.Delete(ctx, k, clientv3.WithPrefix())
		if err != nil {
			return "delp err=" + err.Error()
		}
		return fmt.Sprintf("delp n=%d", r.Deleted)
	case "get":
		r, err := kv.Get(ctx, k)
		if err != nil {
			return "get err=" + err.Error()
		}
		return fmt.Sprintf("get count=%d %s", r.Count, cfKvs(r, root, base))
	case "getp":
		r, err := kv.Get(ctx, k, clientv3.WithPrefix())
		if err != nil {
			return "getp err=" + err.Error()
		}
		return fmt.Sprintf("getp count=%d %s", r.Count, cfKvs(r, root, base))
	case "txn":
		t := kv.Txn(ctx)
		switch o.Cmp {
		case "absent":
			t = t.If(clientv3.Compare(clientv3.Version(k), "=", 0)).Then(clientv3.OpPut(k, o.V)).Else(clientv3.OpDelete(root + o.K2))
		case "value=1":
			t = t.If(clientv3.Compare(clientv3.Value(root+"r/a"), "=", "1")).Then(clientv3.OpPut(k, o.V)).Else(clientv3.OpDelete(root+o.K2, clientv3.WithPrefix()))
		default:
			t = t.Then(clientv3.OpDelete(k), clientv3.OpDelete(root+o.K2, clientv3.WithPrefix()))
		}
		r, err := t.Commit()
		if err != nil {
			return "txn err=" + err.Error()
		}
		return fmt.Sprintf("txn ok=%v", r.Succeeded)
	}
	return "?"
}

func cfKvs(r *clientv3.GetResponse, root string, base int64) string {
	var out []string
	for _, kv := range r.Kvs {
		out = append(out, fmt.Sprintf("%s=%s v%d c%d m%d", strings.TrimPrefix(string(kv.Key), root), kv.Value, kv.Version, kv.CreateRevision-base, kv.ModRevision-base))
	}
	sort.Strings(out)
	return strings.Join(out, ";")
}

func cfDump(kv clientv3.KV, root string, base int64) string {
	ctx, cancel := context.WithTimeout(context.Background(), 5*time.Second)
	defer cancel()
	r, err := kv.Get(ctx, root, clientv3.WithPrefix())
	if err != nil {
		return "dump err=" + err.Error()
	}
	return cfKvs(r, root, base)
}

func cfEvents(ch clientv3.WatchChan, root string, base int64, want int, settle time.Duration) []string {
	var out []string
	deadline := time.After(3 * time.Second)
	for len(out) < want {
		select {
		case wr, ok := <-ch:
			if !ok {
				return append(out, "closed")
			}
			for _, e := range wr.Events {
				prev := "-"
				if e.PrevKv != nil {
					prev = string(e.PrevKv.Value)
				}
				out = append(out, fmt.Sprintf("%s %s=%s prev=%s m%d", e.Type, strings.TrimPrefix(string(e.Kv.Key), root), e.Kv.Value, prev, e.Kv.ModRevision-base))
			}
		case <-deadline:
			return append(out, "timeout")
		}
	}
	if settle > 0 {
		select {
		case wr := <-ch:
			for _, e := range wr.Events {
				out = append(out, fmt.Sprintf("EXTRA %s %s", e.Type, e.Kv.Key))
			}
		case <-time.After(settle):
		}
	}
	return out
}

func TestVerifEtcdConformance(t *testing.T) {
	res := ev.New("C12", "etcd-conformance")
	defer res.Write()
	depth := 2
	if ev.Thorough() {
		depth = 3
	}
	dir, err := os.MkdirTemp("", "verif-etcd-")
	if err != nil {
		t.Fatal(err)
	}
	defer os.RemoveAll(dir)
	cfg := embed.NewConfig()
	cfg.Dir = filepath.Join(dir, "data")
	cfg.LogLevel = "error"
	u0, _ := url.Parse("http://127.0.0.1:0")
	cfg.LCUrls, cfg.ACUrls = []url.URL{*u0}, []url.URL{*u0}
	cfg.LPUrls, cfg.APUrls = []url.URL{*u0}, []url.URL{*u0}
	cfg.InitialCluster = cfg.InitialClusterFromName(cfg.Name)
	e, err := embed.StartEtcd(cfg)
	if err != nil {
		t.Fatal(err)
	}
	defer e.Close()
	select {
	case <-e.Server.ReadyNotify():
	case <-time.After(30 * time.Second):
		t.Fatal("embedded etcd did not come up")
	}
	ep := e.Clients[0].Addr().String()
	cli, err := clientv3.New(clientv3.Config{Endpoints: []string{ep}, DialTimeout: 5 * time.Second})
	if err != nil {
		t.Fatal(err)
	}
	defer cli.Close()
	alpha := cfAlphabet()
	res.Rule = fmt.Sprintf("conformance of kit/fakeetcd against an embedded etcd server: every sequence of <= %d operations over %d operation letters (put / delete / prefix delete / get / prefix get / transactions with version and value compares and the unconditional multi-delete of DeleteTask, on prefix-sharing keys) is applied to both; after every operation the answer, the full dump (value, version, create and mod revision relative to the sequence start) and the events of a prefix watcher with previous values must be equal", depth, len(alpha))
	res.Bounds["depth"] = depth
	res.Bounds["letters"] = len(alpha)
	n := 0
	var rec func(seq []cfOp)
	run := func(seq []cfOp) {
		n++
		if !ev.Mine(n) {
			return
		}
		root := fmt.Sprintf("s%d/", n)
		// real
		ctx, cancel := context.WithCancel(context.Background())
		defer cancel()
		st, err := cli.Get(ctx, "zz-rev-probe")
		if err != nil {
			t.Fatal(err)
		}
		base := st.Header.Revision
		rw := cli.Watch(ctx, root+"r/", clientv3.WithPrefix(), clientv3.WithPrevKV(), clientv3.WithRev(base+1))
		// fake
		f := New()
		fcli := f.Client()
		fbase := f.Rev()
		fw := fcli.Watch(ctx, root+"r/", clientv3.WithPrefix(), clientv3.WithPrevKV())
		for i, o := range seq {
			fa := cfApply(fcli, root, fbase, o)
			ra := cfApply(cli, root, base, o)
			fd, rd := cfDump(fcli, root, fbase), cfDump(cli, root, base)
			// events: the fake delivers synchronously; read what it has, then expect the same number from the server
			var fe []string
			for {
				select {
				case wr := <-fw:
					for _, e := range wr.Events {
						prev := "-"
						if e.PrevKv != nil {
							prev = string(e.PrevKv.Value)
						}
						fe = append(fe, fmt.Sprintf("%s %s=%s prev=%s m%d", e.Type, strings.TrimPrefix(string(e.Kv.Key), root), e.Kv.Value, prev, e.Kv.ModRevision-fbase))
					}
					continue
				default:
				}
				break
			}
			settle := time.Duration(0)
			if i == len(seq)-1 {
				settle = 30 * time.Millisecond
			}
			re := cfEvents(rw, root, base, len(fe), settle)
			res.Transitions++
			if fa != ra || fd != rd || strings.Join(fe, "|") != strings.Join(re, "|") {
				res.Violate("C12/harness/fakeetcd-differs-from-etcd", fmt.Sprintf("sequence %v, step %d (%v):\n fake answer %q\n etcd answer %q\n fake dump %q\n etcd dump %q\n fake events %v\n etcd events %v", seq, i, o, fa, ra, fd, rd, fe, re), map[string]interface{}{"seq": fmt.Sprint(seq)})
				return
			}
		}
		res.Evaluations++
		res.States++
		res.Traces++
		if len(seq) > 1 {
			res.Nontrivial++
		}
	}
	rec = func(seq []cfOp) {
		if len(seq) > 0 {
			run(seq)
		}
		if len(seq) == depth {
			return
		}
		for _, o := range alpha {
			rec(append(append([]cfOp{}, seq...), o))
		}
	}
	rec(nil)
}
