package server

// C19: the HTTP handler is total (every body gets a well-formed JSON answer with a legal code, no handler
// panic) and rejected requests are free of side effects. (a) every body of <= N bytes over a JSON-structural
// alphabet plus every single-field mutation of each valid request; (b) structurally valid create requests
// with adversarial values on the empty server and after every accepted prefix, snapshot compared.

import (
	"bytes"
	"encoding/json"
	"fmt"
	"net/http"
	"net/http/httptest"
	"os"
	"sort"
	"strings"
	"testing"

	"github.com/milvus-io/milvus-proto/go-api/v2/msgpb"
	"google.golang.org/protobuf/proto"

	"github.com/zilliztech/milvus-cdc/core/log"
	"github.com/zilliztech/milvus-cdc/core/verifkit/ev"
	"github.com/zilliztech/milvus-cdc/server/model/request"
)

// vAPI routes the service calls through the harness environment (which pre-inserts replication entities).
type vAPI struct{ env *vEnv }

func (a vAPI) ReloadTask() { a.env.Restart() }
func (a vAPI) Create(r *request.CreateRequest) (*request.CreateResponse, error) {
	return a.env.Create(r)
}
func (a vAPI) Delete(r *request.DeleteRequest) (*request.DeleteResponse, error) {
	return a.env.cdc.Delete(r)
}
func (a vAPI) Pause(r *request.PauseRequest) (*request.PauseResponse, error) {
	return a.env.cdc.Pause(r)
}
func (a vAPI) Resume(r *request.ResumeRequest) (*request.ResumeResponse, error) {
	if err := a.env.Resume(r.TaskID); err != nil {
		return nil, err
	}
	return &request.ResumeResponse{}, nil
}
func (a vAPI) Get(r *request.GetRequest) (*request.GetResponse, error) { return a.env.cdc.Get(r) }
func (a vAPI) GetPosition(r *request.GetPositionRequest) (*request.GetPositionResponse, error) {
	return a.env.cdc.GetPosition(r)
}
func (a vAPI) List(r *request.ListRequest) (*request.ListResponse, error) { return a.env.cdc.List(r) }
func (a vAPI) Maintenance(r *request.MaintenanceRequest) (*request.MaintenanceResponse, error) {
	return a.env.cdc.Maintenance(r)
}

type c19Answer struct {
	Code    int
	Body    string
	Panic   string
	WellFormed bool
}

func c19Do(env *vEnv, method string, body []byte) (ans c19Answer) {
	srv := &CDCServer{api: vAPI{env}, serverConfig: env.cdc.config}
	h := srv.getCDCHandler()
	rec := httptest.NewRecorder()
	func() {
		defer func() {
			if r := recover(); r != nil {
				ans.Panic = fmt.Sprint(r)
			}
		}()
		h.ServeHTTP(rec, httptest.NewRequest(method, "/cdc", bytes.NewReader(body)))
	}()
	ans.Body = rec.Body.String()
	var resp request.CDCResponse
	dec := json.NewDecoder(strings.NewReader(ans.Body))
	if err := dec.Decode(&resp); err == nil && !dec.More() {
		ans.WellFormed = true
		ans.Code = resp.Code
	}
	return ans
}

func c19Judge(method string, ans c19Answer) string {
	if ans.Panic != "" {
		return "panic: handler panicked: " + ans.Panic
	}
	if !ans.WellFormed {
		return fmt.Sprintf("malformed: response is not one JSON object: %q", ans.Body)
	}
	if method != http.MethodPost {
		if ans.Code != http.StatusMethodNotAllowed {
			return fmt.Sprintf("code: %s answered with code %d", method, ans.Code)
		}
		return ""
	}
	if ans.Code != 200 && ans.Code != 400 && ans.Code != 500 {
		return fmt.Sprintf("code: answered with code %d", ans.Code)
	}
	return ""
}

// snapshot of everything a rejected request must not change
func c19Snapshot(env *vEnv) string {
	var tasks []string
	env.cdc.cdcTasks.RLock()
	for id, t := range env.cdc.cdcTasks.data {
		tasks = append(tasks, fmt.Sprintf("%s:%s", id, t.State))
	}
	env.cdc.cdcTasks.RUnlock()
	sort.Strings(tasks)
	return fmt.Sprintf("tasks=%v\n%s\n%s", tasks, c10Sets(env), env.storeDump())
}

func c19Pos(channel string, id string) string {
	b, _ := proto.Marshal(&msgpb.MsgPosition{ChannelName: channel, MsgID: []byte(id), Timestamp: 42 << 18})
	return b64(b)
}

// valid request bodies (request_data) per type
func c19Valid(taskID string) map[string]map[string]interface{} {
	return map[string]map[string]interface{}{
		"create": {
			"task_id":              taskID,
			"milvus_connect_param": map[string]interface{}{"uri": "milvus-a:19530", "token": "root:Milvus", "connect_timeout": 3, "channel_num": 2},
			"collection_infos":     []interface{}{map[string]interface{}{"name": "a"}},
			"rpc_channel_info":     map[string]interface{}{"name": "by-dev-replicate-msg"},
			"buffer_config":        map[string]interface{}{"period": 1, "size": 1},
			"extra_info":           map[string]interface{}{"enable_user_role": false},
		},
		"delete":      {"task_id": taskID},
		"pause":       {"task_id": taskID},
		"resume":      {"task_id": taskID},
		"get":         {"task_id": taskID},
		"position":    {"task_id": taskID},
		"list":        {},
		"maintenance": {"operation": "x", "params": map[string]interface{}{}},
	}
}

func c19Body(typ string, data interface{}) []byte {
	b, _ := json.Marshal(map[string]interface{}{"request_type": typ, "request_data": data})
	return b
}

var c19Mutants = []interface{}{nil, "", "x", 0, -1, 1.5, true, []interface{}{}, []interface{}{1, "a"}, map[string]interface{}{}, map[string]interface{}{"a": map[string]interface{}{"b": 1}}, json.RawMessage("1e400"), strings.Repeat("n", 300),
	// strings that are not valid UTF-8 (raw bytes inside a JSON string literal), and control characters
	json.RawMessage("\"\xff\xfe\""), json.RawMessage("\"a\xc3\""), "\x00\x01"}

// mutate returns every copy of v with exactly one leaf / subtree replaced by a mutant value.
func c19Mutate(v interface{}) []interface{} {
	var out []interface{}
	switch x := v.(type) {
	case map[string]interface{}:
		for k, sub := range x {
			for _, m := range c19Mutants {
				c := map[string]interface{}{}
				for kk, vv := range x {
					c[kk] = vv
				}
				c[k] = m
				out = append(out, c)
			}
			for _, ms := range c19Mutate(sub) {
				c := map[string]interface{}{}
				for kk, vv := range x {
					c[kk] = vv
				}
				c[k] = ms
				out = append(out, c)
			}
		}
	case []interface{}:
		for i, sub := range x {
			for _, ms := range c19Mutate(sub) {
				c := append([]interface{}{}, x...)
				c[i] = ms
				out = append(out, c)
			}
		}
	}
	return out
}

func TestVerifC19Total(t *testing.T) {
	res := ev.New("C19", "total")
	defer res.Write()
	log.Info("warm up")
	if p := os.Getenv("VERIF_REPLAY"); p != "" {
		var f struct {
			Replay struct {
				Method string `json:"method"`
				Body   string `json:"body"`
				Prefix []string `json:"prefix"`
			} `json:"replay"`
		}
		b, _ := os.ReadFile(p)
		if err := jsonUnmarshalS(b, &f); err != nil {
			t.Fatal(err)
		}
		env := newVEnv()
		defer env.close()
		for _, pb := range f.Replay.Prefix {
			c19Do(env, http.MethodPost, []byte(pb))
		}
		ans := c19Do(env, f.Replay.Method, []byte(f.Replay.Body))
		if msg := c19Judge(f.Replay.Method, ans); msg != "" {
			fmt.Println("REPLAY-VIOLATION", msg)
			res.Violate("replay", msg, f.Replay)
		} else {
			fmt.Println("REPLAY-OK", ans.Code, ans.Body)
		}
		return
	}
	maxLen := 5
	if ev.Thorough() {
		maxLen = 6
	}
	res.Bounds["max_body_bytes"] = maxLen
	res.Rule = fmt.Sprintf("(a) every request body of <= %d bytes over the alphabet { } [ ] \" : , a 1 \\ space, sent with POST (and the empty/short ones with GET/PUT/DELETE), plus every body made of a prefix that has opened a key or value string ({\", {\"a\":\", {\"request_type\":\", a create's task_id, a list's data key) and a tail of <= %d bytes over the same alphabet (bodies cut inside a string, escapes at the very end), (b) every single-subtree mutation (null, \"\", number, negative, float, bool, list, nested object, 1e400, 300-char string) of each of the 8 valid request types, on an empty server and on a server holding one running task; each answer must be exactly one JSON object with code 200/400/500 (405 for other methods) and the handler must not panic; non-trivial = distinct bodies that reach request decoding (valid JSON object)", maxLen, map[bool]int{false: 4, true: 5}[ev.Thorough()])
	alphabet := []byte("{}[]\":,a1\\ ")
	env := newVEnv()
	defer env.close()
	idx := 0
	check := func(method string, body []byte, prefix []string, e *vEnv) {
		idx++
		if !ev.Mine(idx) {
			return
		}
		ans := c19Do(e, method, body)
		res.Evaluations++
		res.States++
		res.Transitions++
		res.Traces++
		if msg := c19Judge(method, ans); msg != "" {
			tag := strings.SplitN(msg, ":", 2)[0]
			short := string(body)
			if len(short) > 200 {
				short = short[:200] + "..."
			}
			// signature: kind + request type (or "raw" for the alphabet bodies)
			typ := "raw"
			var rq request.CDCRequest
			if json.Unmarshal(body, &rq) == nil && rq.RequestType != "" {
				typ = rq.RequestType
			}
			res.Violate(fmt.Sprintf("C19/%s/%s", tag, typ), fmt.Sprintf("%s %q: %s", method, short, msg), map[string]interface{}{"method": method, "body": string(body), "prefix": prefix})
			return
		}
		if ans.Code != 500 || json.Valid(body) {
			res.Nontrivial++
		}
		res.Outcome(fmt.Sprintf("%d", ans.Code))
		if idx%4001 == 0 {
			res.Sample(map[string]interface{}{"method": method, "body": string(body), "code": ans.Code})
		}
	}
	var gen func(cur []byte)
	gen = func(cur []byte) {
		check(http.MethodPost, cur, nil, env)
		if len(cur) <= 1 {
			for _, m := range []string{http.MethodGet, http.MethodPut, http.MethodDelete} {
				check(m, cur, nil, env)
			}
		}
		if len(cur) == maxLen {
			return
		}
		for _, c := range alphabet {
			gen(append(append([]byte{}, cur...), c))
		}
	}
	gen(nil)
	// bodies cut inside a string: every tail of <= 4 bytes (5 thorough) over the alphabet after a prefix that has opened a
	// key or a value string (the decoder's string scanners run off the end of such a body - escapes at the very end)
	tailMax := 4
	if ev.Thorough() {
		tailMax = 5
	}
	res.Bounds["cut_string_tail_bytes"] = tailMax
	var genTail func(cur []byte, left int)
	genTail = func(cur []byte, left int) {
		check(http.MethodPost, cur, nil, env)
		if left == 0 {
			return
		}
		for _, c := range alphabet {
			genTail(append(append([]byte{}, cur...), c), left-1)
		}
	}
	for _, pre := range []string{`{"`, `{"a":"`, `{"request_type":"`, `{"request_type":"create","request_data":{"task_id":"`, `{"request_type":"list","request_data":{"`} {
		genTail([]byte(pre), tailMax)
	}
	// mutations of valid requests: on an empty server and after one accepted create
	for _, withTask := range []bool{false, true} {
		e := newVEnv()
		var prefix []string
		if withTask {
			b := c19Body("create", c19Valid("t0")["create"])
			prefix = []string{string(b)}
			if a := c19Do(e, http.MethodPost, b); a.Code != 200 {
				res.Violate("C19/harness/valid-create-rejected", "the valid create request was rejected: "+a.Body, nil)
			}
		}
		for typ, data := range c19Valid("t0") {
			check(http.MethodPost, c19Body(typ, data), prefix, e)
			for _, m := range c19Mutate(data) {
				check(http.MethodPost, c19Body(typ, m), prefix, e)
			}
			for _, m := range c19Mutants {
				b, _ := json.Marshal(map[string]interface{}{"request_type": typ, "request_data": m})
				check(http.MethodPost, b, prefix, e)
				b, _ = json.Marshal(map[string]interface{}{"request_type": m, "request_data": data})
				check(http.MethodPost, b, prefix, e)
			}
		}
		e.close()
	}
	res.Bounds["bodies"] = idx
}

// ------------------------------------------------------------------------------------------------
// (b) rejected creates leave no trace

type c19Adv struct {
	Name string
	Mut  func(d map[string]interface{})
}

func c19Adversarial() []c19Adv {
	set := func(path string, v interface{}) func(d map[string]interface{}) {
		return func(d map[string]interface{}) {
			p := strings.Split(path, "/")
			cur := d
			for _, k := range p[:len(p)-1] {
				nx, ok := cur[k].(map[string]interface{})
				if !ok {
					nx = map[string]interface{}{}
					cur[k] = nx
				}
				cur = nx
			}
			cur[p[len(p)-1]] = v
		}
	}
	coll := func(name string, positions map[string]interface{}) func(d map[string]interface{}) {
		return func(d map[string]interface{}) {
			ci := map[string]interface{}{"name": name}
			if positions != nil {
				ci["positions"] = positions
			}
			d["collection_infos"] = []interface{}{ci}
		}
	}
	dbcoll := func(db, name string) func(d map[string]interface{}) {
		return func(d map[string]interface{}) {
			delete(d, "collection_infos")
			d["db_collections"] = map[string]interface{}{db: []interface{}{map[string]interface{}{"name": name}}}
		}
	}
	long := strings.Repeat("n", 300)
	return []c19Adv{
		{"name-with-dot", coll("a.b", nil)},
		{"name-with-slash", coll("a/b", nil)},
		{"name-empty", coll("", nil)},
		{"name-long", coll(long, nil)},
		{"name-star-with-positions", coll("*", map[string]interface{}{"src-dml_0_1v0": c19Pos("src-dml_0_1v0", "x")})},
		{"db-with-dot", dbcoll("db.x", "a")},
		{"db-long", dbcoll(long, "a")},
		{"db-and-legacy", func(d map[string]interface{}) {
			d["db_collections"] = map[string]interface{}{"db1": []interface{}{map[string]interface{}{"name": "a"}}}
		}},
		{"two-collections", func(d map[string]interface{}) {
			d["collection_infos"] = []interface{}{map[string]interface{}{"name": "a"}, map[string]interface{}{"name": "b"}}
		}},
		{"no-collections", func(d map[string]interface{}) { delete(d, "collection_infos") }},
		{"position-undecodable", coll("a", map[string]interface{}{"src-dml_0_1v0": "!!!not-base64"})},
		{"position-not-proto", coll("a", map[string]interface{}{"src-dml_0_1v0": b64([]byte{0xff, 0xff, 0xff, 0x01})})},
		{"position-foreign-channel", coll("a", map[string]interface{}{"src-dml_0": c19Pos("src-dml_0", "x")})},
		{"position-bad-vchannel", coll("a", map[string]interface{}{"xv": c19Pos("xv", "x")})},
		{"position-mixed-collections", coll("a", map[string]interface{}{"src-dml_0_1v0": c19Pos("src-dml_0_1v0", "x"), "src-dml_1_2v1": c19Pos("src-dml_1_2v1", "y")})},
		{"position-then-undecodable", coll("a", map[string]interface{}{"src-dml_0_1v0": c19Pos("src-dml_0_1v0", "x"), "src-dml_1_1v1": "!!!"})},
		{"negative-period", set("buffer_config/period", -1)},
		{"negative-size", set("buffer_config/size", -5)},
		{"negative-timeout", set("milvus_connect_param/connect_timeout", -1)},
		{"both-targets", set("kafka_connect_param/address", "kafka:9092")},
		{"kafka-and-milvus-host-only", func(d map[string]interface{}) {
			d["milvus_connect_param"] = map[string]interface{}{"host": "h"}
			d["kafka_connect_param"] = map[string]interface{}{"address": "kafka:9092", "topic": "t"}
		}},
		{"kafka-and-milvus-port-only", func(d map[string]interface{}) {
			d["milvus_connect_param"] = map[string]interface{}{"port": 19530}
			d["kafka_connect_param"] = map[string]interface{}{"address": "kafka:9092", "topic": "t"}
		}},
		{"no-target", func(d map[string]interface{}) { delete(d, "milvus_connect_param") }},
		{"kafka-no-topic", func(d map[string]interface{}) {
			delete(d, "milvus_connect_param")
			d["kafka_connect_param"] = map[string]interface{}{"address": "kafka:9092"}
		}},
		{"user-without-password", func(d map[string]interface{}) {
			d["milvus_connect_param"] = map[string]interface{}{"host": "h", "port": 19530, "username": "root"}
		}},
		{"host-without-port", func(d map[string]interface{}) { d["milvus_connect_param"] = map[string]interface{}{"host": "h"} }},
		{"rpc-channel-foreign", set("rpc_channel_info/name", "other-channel")},
		{"rpc-position-undecodable", set("rpc_channel_info/position", "!!!")},
		// requests that are fine on an empty server and refused because of a task that is already there (the duplicate
		// check): the refusal must not touch the bookkeeping of that task
		{"duplicate-collection", coll("b", nil)},
		{"covered-by-wildcard-task", dbcoll("db1", "x")},
		{"mapping-not-selected", func(d map[string]interface{}) {
			d["name_mapping"] = []interface{}{map[string]interface{}{"source_db": "default", "target_db": "x", "collection_mapping": map[string]interface{}{"zzz": "q"}}}
		}},
	}
}

func TestVerifC19Rejects(t *testing.T) {
	res := ev.New("C19", "rejects")
	defer res.Write()
	log.Info("warm up")
	advs := c19Adversarial()
	res.Rule = fmt.Sprintf("%d structurally valid create requests with adversarial values (names with '.', '/', empty, over-long; '*' with positions; undecodable / non-proto / non-virtual / malformed-vchannel / mixed-collection positions, a valid position followed by an undecodable one; negative buffer and timeout values; both / no targets (also a Kafka target beside an incomplete Milvus one); kafka without topic; user without password; foreign rpc channel; undecodable rpc position; mapping of an unselected collection; a collection another task already replicates or covers with a wildcard) - each alone, in three more contexts of the request (rpc channel name left out, a valid collection position filled in, both) and together with every other one - sent to the empty server and after every accepted prefix of length <= 2 out of {create a, create db1/*, create a then pause}; the answer must be a well-formed error (or, if accepted, later requests must still be answered) and a rejected request must leave tasks, checkpoints, duplicate bookkeeping and the store dump unchanged; non-trivial = rejected requests on a non-empty server", len(advs))
	prefixes := [][]map[string]interface{}{nil}
	mk := func(id string, f func(d map[string]interface{})) map[string]interface{} {
		d := c19Valid(id)["create"]
		if f != nil {
			f(d)
		}
		return d
	}
	dbstar := func(d map[string]interface{}) {
		delete(d, "collection_infos")
		d["db_collections"] = map[string]interface{}{"db1": []interface{}{map[string]interface{}{"name": "*"}}}
	}
	bcoll := func(d map[string]interface{}) { d["collection_infos"] = []interface{}{map[string]interface{}{"name": "b"}} }
	prefixes = append(prefixes,
		[]map[string]interface{}{mk("p0", bcoll)},
		[]map[string]interface{}{mk("p0", dbstar)},
		[]map[string]interface{}{mk("p0", bcoll), mk("p1", dbstar)},
	)
	// every adversarial value is also tried in other contexts of the same request (optional fields left out or
	// filled in decide which validation branch sees the value) and together with every other adversarial value
	type c19Variant struct {
		c19Adv
		mustReject bool
	}
	validPos := func(d map[string]interface{}) {
		if cis, ok := d["collection_infos"].([]interface{}); ok && len(cis) == 1 {
			if ci, ok := cis[0].(map[string]interface{}); ok && ci["positions"] == nil {
				ci["positions"] = map[string]interface{}{"src-dml_0_7v0": c19Pos("src-dml_0_7v0", "x")}
			}
		}
	}
	noRPCName := func(d map[string]interface{}) {
		if r, ok := d["rpc_channel_info"].(map[string]interface{}); ok {
			delete(r, "name")
		}
	}
	ctxs := []c19Adv{{"", nil}, {"no-rpc-name", noRPCName}, {"with-position", validPos}, {"no-rpc-name+with-position", func(d map[string]interface{}) { noRPCName(d); validPos(d) }}}
	var variants []c19Variant
	for _, a := range advs {
		for _, c := range ctxs {
			a, c := a, c
			if c.Mut == nil {
				// (a request that only conflicts with another task is fine on a server that does not have that task)
				variants = append(variants, c19Variant{a, a.Name != "name-with-slash" && a.Name != "duplicate-collection" && a.Name != "covered-by-wildcard-task"})
				continue
			}
			variants = append(variants, c19Variant{c19Adv{a.Name + "@" + c.Name, func(d map[string]interface{}) { a.Mut(d); c.Mut(d) }}, false})
		}
	}
	for i, a := range advs {
		for _, b := range advs[i+1:] {
			a, b := a, b
			variants = append(variants, c19Variant{c19Adv{a.Name + "+" + b.Name, func(d map[string]interface{}) { a.Mut(d); b.Mut(d) }}, false})
		}
	}
	res.Bounds["variants"] = len(variants)
	idx := 0
	for pi, prefix := range prefixes {
		for _, variant := range variants {
			adv := variant.c19Adv
			idx++
			if !ev.Mine(idx) {
				continue
			}
			env := newVEnv()
			var pbodies []string
			okPrefix := true
			for _, pd := range prefix {
				b := c19Body("create", pd)
				pbodies = append(pbodies, string(b))
				if a := c19Do(env, http.MethodPost, b); a.Code != 200 {
					okPrefix = false
				}
			}
			if !okPrefix {
				res.Violate("C19/harness/prefix-rejected", fmt.Sprintf("prefix %d was not accepted", pi), nil)
				env.close()
				continue
			}
			before := c19Snapshot(env)
			d := c19Valid("adv")["create"]
			adv.Mut(d)
			body := c19Body("create", d)
			ans := c19Do(env, http.MethodPost, body)
			res.Evaluations++
			res.States++
			res.Transitions++
			res.Traces++
			replay := map[string]interface{}{"method": "POST", "body": string(body), "prefix": pbodies, "case": adv.Name}
			if msg := c19Judge(http.MethodPost, ans); msg != "" {
				res.Violate("C19/"+strings.SplitN(msg, ":", 2)[0]+"/create:"+adv.Name, fmt.Sprintf("case %s after prefix %d: %s", adv.Name, pi, msg), replay)
				env.close()
				continue
			}
			after := c19Snapshot(env)
			mustReject := variant.mustReject // (single values in the plain context: each is one of the invalid classes the statement names)
			if ans.Code == 200 && mustReject {
				res.Violate("C19/accepted-invalid/create:"+adv.Name, fmt.Sprintf("case %s after prefix %d is semantically invalid but was answered with code 200: %s", adv.Name, pi, ans.Body), replay)
			}
			if ans.Code == 200 {
				// accepted: then the request was legal for the service; the server must keep answering (a poisoned
				// bookkeeping entry shows up on the next create / list)
				for _, follow := range []string{string(c19Body("create", mk("f0", func(d map[string]interface{}) { d["collection_infos"] = []interface{}{map[string]interface{}{"name": "zz"}} }))), string(c19Body("list", map[string]interface{}{})), string(c19Body("get", map[string]interface{}{"task_id": "adv"}))} {
					a2 := c19Do(env, http.MethodPost, []byte(follow))
					if msg := c19Judge(http.MethodPost, a2); msg != "" {
						res.Violate("C19/accepted-then-"+strings.SplitN(msg, ":", 2)[0]+"/create:"+adv.Name, fmt.Sprintf("case %s was ACCEPTED (semantically invalid value) and the next request %q then got: %s", adv.Name, follow[:60], msg), replay)
						break
					}
				}
				res.Outcome(adv.Name + ":accepted")
			} else {
				if before != after {
					res.Violate("C19/reject-side-effect/create:"+adv.Name, fmt.Sprintf("case %s after prefix %d was rejected (%d %s) but changed state\n--- before\n%s\n--- after\n%s", adv.Name, pi, ans.Code, ans.Body, before, after), replay)
				}
				if pi > 0 {
					res.Nontrivial++
				}
				res.Outcome(fmt.Sprintf("%s:%d", adv.Name, ans.Code))
			}
			if idx%17 == 0 {
				res.Sample(map[string]interface{}{"case": adv.Name, "prefix": pi, "code": ans.Code, "answer": ans.Body})
			}
			env.close()
		}
	}
	// a create that the server cannot complete (the metadata store fails at its n-th call) is answered with an error:
	// like every other rejected request it must leave tasks, checkpoints and bookkeeping as they were
	shapes := []c19Adv{
		{"plain", func(d map[string]interface{}) {}},
		{"with-position", validPos},
		{"with-rpc-position", func(d map[string]interface{}) {
			d["rpc_channel_info"] = map[string]interface{}{"name": "by-dev-replicate-msg", "position": c19Pos("by-dev-replicate-msg", "r")}
		}},
		{"with-both-positions", func(d map[string]interface{}) {
			validPos(d)
			d["rpc_channel_info"] = map[string]interface{}{"name": "by-dev-replicate-msg", "position": c19Pos("by-dev-replicate-msg", "r")}
		}},
	}
	for pi, prefix := range prefixes {
		for _, shape := range shapes {
			for _, withID := range []bool{true, false} {
				for fault := 1; fault <= 8; fault++ {
					idx++
					if !ev.Mine(idx) {
						continue
					}
					env := newVEnv()
					for _, pd := range prefix {
						c19Do(env, http.MethodPost, c19Body("create", pd))
					}
					before := c19Snapshot(env)
					d := c19Valid("adv")["create"]
					shape.Mut(d)
					if !withID {
						delete(d, "task_id")
					}
					body := c19Body("create", d)
					n := 0
					env.fe.Hook = func(o, k string) error {
						n++
						if n == fault {
							return errC11Fault
						}
						return nil
					}
					ans := c19Do(env, http.MethodPost, body)
					env.fe.Hook = nil
					res.Evaluations++
					res.States++
					res.Transitions++
					res.Traces++
					name := fmt.Sprintf("%s/id=%v", shape.Name, withID)
					replay := map[string]interface{}{"method": "POST", "body": string(body), "case": "store-fault:" + name, "fault_at_store_call": fault}
					if msg := c19Judge(http.MethodPost, ans); msg != "" {
						res.Violate("C19/"+strings.SplitN(msg, ":", 2)[0]+"/create:store-fault/"+name, fmt.Sprintf("create (%s) with the store failing at call %d after prefix %d: %s", name, fault, pi, msg), replay)
						env.close()
						continue
					}
					if ans.Code != 200 {
						if after := c19Snapshot(env); before != after {
							res.Violate("C19/reject-side-effect/create:store-fault/"+name, fmt.Sprintf("create (%s) with the store failing at call %d after prefix %d was answered %d %s but changed state\n--- before\n%s\n--- after\n%s", name, fault, pi, ans.Code, ans.Body, before, after), replay)
						}
						res.Nontrivial++
					}
					res.Outcome(fmt.Sprintf("store-fault:%s:%d", name, ans.Code))
					env.close()
				}
			}
		}
	}
}
