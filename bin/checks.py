# Per-property configuration of the driver. budget = internal wall-clock budget (s) [quick, thorough];
# shards = worker processes [quick, thorough].
def part(name, mod, pkg, run, shards=(1, 1), budget=(120, 900), gomaxprocs=None, env=None, mem=None):
    d = dict(name=name, mod=mod, pkg=pkg, run=run, shards=shards, budget=budget)
    if gomaxprocs:
        d["gomaxprocs"] = gomaxprocs
    if env:
        d["env"] = env
    if mem:
        d["mem"] = mem
    return d


HOOK_COMMITS = []
NOT_APPLICABLE = {}

CHECKS = {
    "C16": dict(
        level="model_checking", engine="seq",
        technique="explicit-state BFS over all offer sequences on the real ChannelMapping (model checking of the implementation)",
        text="Every offer sequence up to the depth bound, for every channel-count pair up to the size bound, is executed on the real util.ChannelMapping with the channel manager's own call protocol; the invariant (one image per key, images never change, load <= ceil(larger/smaller), injective for equal counts, quota leaves room for every key) is evaluated in every reached state.",
        note="Bounded: channel counts <= 4 (5 thorough), offers <= 5 (6). The protocol driver mirrors startReadChannel/waitChannel; the manager itself is exercised in the C02 pipeline harness.",
        parts=[part("mapping", "core", "util", "TestVerifC16Mapping", shards=(4, 16))],
    ),
}
