package msgpacker

// C14: explicit-state BFS over receive / clock-advance / clear histories on the real Packer(s)
// sharing the real process-wide MemoryProtector, compared step by step with a boring reference
// model (a list per packer). Time is virtual (testing/synctest), so the age threshold is reached by
// a harness action, never by the wall clock.

import (
	"errors"
	"fmt"
	"os"
	"strings"
	"testing"
	"testing/synctest"
	"time"

	"github.com/milvus-io/milvus-proto/go-api/v2/commonpb"
	"github.com/milvus-io/milvus-proto/go-api/v2/msgpb"
	"github.com/milvus-io/milvus-proto/go-api/v2/schemapb"
	"github.com/milvus-io/milvus/pkg/mq/msgstream"

	"github.com/zilliztech/milvus-cdc/core/api"
	"github.com/zilliztech/milvus-cdc/core/verifkit/ev"
)

type c14Op struct {
	Kind string `json:"k"` // recv | tick | clear
	P    int    `json:"p"` // packer index
	Sz   int    `json:"sz"`
}

func (o c14Op) String() string {
	switch o.Kind {
	case "recv":
		return fmt.Sprintf("recv(p%d,%d)", o.P, o.Sz)
	case "clear":
		return fmt.Sprintf("clear(p%d)", o.P)
	}
	return "tick"
}

type c14Cfg struct {
	MaxCount, MaxMsgKB, MemKB, FailAt, Packers int
}

var c14ErrFlush = errors.New("injected flush failure")

func c14Msg(id, class int) (*api.ReplicateMsg, int) {
	pack := &msgstream.MsgPack{}
	n := 0
	switch class {
	case 1:
		n = 300
	case 2:
		n = 1500
	}
	if n > 0 {
		pack.Msgs = append(pack.Msgs, &msgstream.DeleteMsg{
			DeleteRequest: &msgpb.DeleteRequest{
				Base:        &commonpb.MsgBase{MsgType: commonpb.MsgType_Delete},
				PrimaryKeys: &schemapb.IDs{IdField: &schemapb.IDs_StrId{StrId: &schemapb.StringArray{Data: []string{strings.Repeat("x", n)}}}},
			},
		})
	}
	m := &api.ReplicateMsg{CollectionID: int64(id), MsgPack: pack}
	sz := 0
	for _, x := range pack.Msgs {
		sz += x.Size()
	}
	return m, sz
}

// reference model ---------------------------------------------------------------------------
type c14Ref struct {
	buf      [][]int // per packer: buffered ids
	bufSz    []int
	lastFlsh []time.Duration // virtual time of last reset per packer
	global   int
}

type c14Run struct {
	cfg       c14Cfg
	viol      string
	key       string
	delivered [][]int // per packer, concatenated callback batches
	arrived   [][]int
	flushes   int
	nontriv   bool
}

// c14Exec replays hist on fresh real packers inside a synctest bubble.
func c14Exec(t *testing.T, cfg c14Cfg, hist []c14Op) *c14Run {
	run := &c14Run{cfg: cfg}
	synctest.Test(t, func(t *testing.T) {
		memoryCheck = &MemoryProtector{} // fresh process-wide budget for this execution
		interval := 1000
		start := time.Now()
		packers := make([]*Packer, cfg.Packers)
		for i := range packers {
			packers[i] = NewPacker(PackerConfig{TimerInterval: interval, MaxCount: cfg.MaxCount, MaxMsgSize: cfg.MaxMsgKB, MemoryLimit: cfg.MemKB})
		}
		ref := &c14Ref{buf: make([][]int, cfg.Packers), bufSz: make([]int, cfg.Packers), lastFlsh: make([]time.Duration, cfg.Packers)}
		run.delivered = make([][]int, cfg.Packers)
		run.arrived = make([][]int, cfg.Packers)
		nextID := 0
		for step, op := range hist {
			p := op.P
			var batches [][]int
			handler := func(ms []*api.ReplicateMsg) error {
				var b []int
				for _, m := range ms {
					b = append(b, int(m.CollectionID))
				}
				batches = append(batches, b)
				run.delivered[p] = append(run.delivered[p], b...)
				idx := run.flushes
				run.flushes++
				if idx == cfg.FailAt {
					return c14ErrFlush
				}
				return nil
			}
			switch op.Kind {
			case "tick":
				time.Sleep(time.Duration(interval+1) * time.Millisecond)
				continue
			case "recv":
				m, sz := c14Msg(nextID, op.Sz)
				nextID++
				run.arrived[p] = append(run.arrived[p], int(m.CollectionID))
				flushIdx := run.flushes
				err := packers[p].Receive(m, handler)
				// reference
				ref.buf[p] = append(ref.buf[p], int(m.CollectionID))
				ref.bufSz[p] += sz
				ref.global += sz
				now := time.Since(start)
				want := ref.global > cfg.MemKB*1024 || sz > cfg.MaxMsgKB*1024 ||
					now-ref.lastFlsh[p] > time.Duration(interval)*time.Millisecond || len(ref.buf[p]) >= cfg.MaxCount
				var wantBatch []int
				if want {
					wantBatch = ref.buf[p]
					ref.global -= ref.bufSz[p]
					ref.buf[p], ref.bufSz[p] = nil, 0
					ref.lastFlsh[p] = now
					run.nontriv = run.nontriv || len(wantBatch) > 1 || ref.global > 0
				}
				if msg := c14Cmp(step, op, want, wantBatch, batches, err, flushIdx == cfg.FailAt); msg != "" {
					run.viol = msg
					return
				}
			case "clear":
				flushIdx := run.flushes
				err := packers[p].ClearMsgs(handler)
				wantBatch := ref.buf[p]
				ref.global -= ref.bufSz[p]
				ref.buf[p], ref.bufSz[p] = nil, 0
				ref.lastFlsh[p] = time.Since(start)
				// a final flush of an empty buffer may or may not invoke the callback; both are fine
				if len(wantBatch) == 0 {
					for _, b := range batches {
						if len(b) != 0 {
							run.viol = fmt.Sprintf("phantom: step %d %v delivered %v from an empty buffer", step, op, b)
							return
						}
					}
					if len(batches) > 0 && flushIdx == cfg.FailAt && !errors.Is(err, c14ErrFlush) {
						run.viol = fmt.Sprintf("error-swallowed: step %d %v callback failed but ClearMsgs returned %v", step, op, err)
						return
					}
				} else if msg := c14Cmp(step, op, true, wantBatch, batches, err, flushIdx == cfg.FailAt); msg != "" {
					run.viol = msg
					return
				}
			}
			// state invariants after every step (white-box)
			allEmpty := true
			for i, pk := range packers {
				if len(pk.msgs) != len(ref.buf[i]) {
					run.viol = fmt.Sprintf("buffer: step %d %v packer %d buffers %d packs, reference %d", step, op, i, len(pk.msgs), len(ref.buf[i]))
					return
				}
				for j, m := range pk.msgs {
					if int(m.CollectionID) != ref.buf[i][j] {
						run.viol = fmt.Sprintf("buffer-order: step %d %v packer %d slot %d holds %d, reference %d", step, op, i, j, m.CollectionID, ref.buf[i][j])
						return
					}
				}
				if len(pk.msgs) > 0 {
					allEmpty = false
				}
			}
			if allEmpty && memoryCheck.current != 0 {
				run.viol = fmt.Sprintf("memory-leak: step %d %v all batchers empty but global counter = %d", step, op, memoryCheck.current)
				return
			}
		}
		// key: the whole mutable state
		var sb strings.Builder
		now := time.Since(start)
		for i, pk := range packers {
			aged := now-ref.lastFlsh[i] > time.Duration(interval)*time.Millisecond
			cnt := pk.checkers[1].(*MsgCountChecker).count
			tAged := time.Since(pk.checkers[0].(*TimerChecker).lastTime) > time.Duration(interval)*time.Millisecond
			fmt.Fprintf(&sb, "p%d[", i)
			for _, m := range pk.msgs {
				s := 0
				for _, x := range m.MsgPack.Msgs {
					s += x.Size()
				}
				fmt.Fprintf(&sb, "%d,", s)
			}
			fmt.Fprintf(&sb, "]c%d s%d a%v/%v;", cnt, pk.currentMsgPackSize, tAged, aged)
		}
		fl := run.flushes
		if fl > cfg.FailAt+1 {
			fl = cfg.FailAt + 1
		}
		if cfg.FailAt < 0 {
			fl = 0
		}
		fmt.Fprintf(&sb, "g%d f%d", memoryCheck.current, fl)
		run.key = sb.String()
	})
	return run
}

func c14Cmp(step int, op c14Op, want bool, wantBatch []int, got [][]int, err error, failing bool) string {
	if !want {
		if len(got) != 0 {
			return fmt.Sprintf("early-flush: step %d %v flushed %v, no threshold reached", step, op, got)
		}
		if err != nil {
			return fmt.Sprintf("spurious-error: step %d %v returned %v", step, op, err)
		}
		return ""
	}
	if len(got) == 0 {
		return fmt.Sprintf("late-flush: step %d %v reached a threshold with %v buffered but the callback was not invoked", step, op, wantBatch)
	}
	if len(got) != 1 {
		return fmt.Sprintf("double-flush: step %d %v invoked the callback %d times: %v", step, op, len(got), got)
	}
	if fmt.Sprint(got[0]) != fmt.Sprint(wantBatch) {
		return fmt.Sprintf("batch: step %d %v delivered %v, arrival order buffered %v", step, op, got[0], wantBatch)
	}
	if failing && !errors.Is(err, c14ErrFlush) {
		return fmt.Sprintf("error-swallowed: step %d %v callback failed but caller got %v", step, op, err)
	}
	if !failing && err != nil {
		return fmt.Sprintf("spurious-error: step %d %v returned %v", step, op, err)
	}
	return ""
}

func c14Ops(cfg c14Cfg) []c14Op {
	var ops []c14Op
	for p := 0; p < cfg.Packers; p++ {
		for _, sz := range []int{1, 0, 2} {
			ops = append(ops, c14Op{"recv", p, sz})
		}
	}
	ops = append(ops, c14Op{Kind: "tick"})
	for p := 0; p < cfg.Packers; p++ {
		ops = append(ops, c14Op{Kind: "clear", P: p})
	}
	return ops
}

func TestVerifC14Packer(t *testing.T) {
	res := ev.New("C14", "packer")
	defer res.Write()
	if p := os.Getenv("VERIF_REPLAY"); p != "" {
		c14Replay(t, res, p)
		return
	}
	depth := 8
	if ev.Thorough() {
		depth = 11
	}
	res.Bounds["depth"] = depth
	res.Rule = "BFS over histories of {receive(packer, size class 0/300B/1500B), advance virtual clock past the interval, clear(packer)} for every threshold configuration (MaxCount 1..3 x global memory 1KB|large x failing flush index none|0|1|2, 1-2 packers sharing the global budget); each history replayed on fresh real Packers inside a synctest bubble and compared step by step with a list-based reference; states deduplicated on (buffered sizes, count checker, age flag, byte counters, global counter, failure progress) = the packers' entire mutable state; non-trivial = distinct states reached through a multi-pack flush or with bytes buffered in another packer at flush time"
	var cfgs []c14Cfg
	pk, mcs := []int{1, 2}, []int{1, 2, 3}
	if ev.Thorough() {
		pk, mcs = []int{1, 2, 3}, []int{1, 2, 3, 4}
	}
	for _, packers := range pk {
		for _, mc := range mcs {
			for _, mem := range []int{1, 1 << 20} {
				for _, fa := range []int{-1, 0, 1, 2} {
					cfgs = append(cfgs, c14Cfg{MaxCount: mc, MaxMsgKB: 1, MemKB: mem, FailAt: fa, Packers: packers})
				}
			}
		}
	}
	deadline := time.Now().Add(ev.Budget(120 * time.Second))
	for i, cfg := range cfgs {
		if !ev.Mine(i) {
			continue
		}
		d := depth
		if cfg.Packers >= 2 {
			d = depth - cfg.Packers + 1
		}
		if !c14BFS(t, res, cfg, d, deadline) {
			res.Exhaustive = false
			res.Bounds["stopped_by_budget"] = true
		}
	}
}

func c14BFS(t *testing.T, res *ev.Result, cfg c14Cfg, depth int, deadline time.Time) bool {
	ops := c14Ops(cfg)
	seen := map[string]bool{}
	nontriv := map[string]bool{}
	r0 := c14Exec(t, cfg, nil)
	seen[r0.key] = true
	res.States++
	frontier := [][]c14Op{nil}
	for d := 0; d < depth && len(frontier) > 0; d++ {
		var next [][]c14Op
		for _, h := range frontier {
			if time.Now().After(deadline) {
				return false
			}
			for _, op := range ops {
				nh := append(append([]c14Op{}, h...), op)
				r := c14Exec(t, cfg, nh)
				res.Transitions++
				res.Evaluations++
				res.Traces++
				if r.viol != "" {
					kind := strings.SplitN(r.viol, ":", 2)[0]
					res.Violate("C14/"+kind, fmt.Sprintf("cfg=%+v history=%v: %s", cfg, nh, r.viol), map[string]interface{}{"cfg": cfg, "history": nh})
					continue
				}
				if r.nontriv {
					nontriv[r.key] = true
				}
				if !seen[r.key] {
					seen[r.key] = true
					res.States++
					next = append(next, nh)
					if len(next)%211 == 1 {
						res.Sample(map[string]interface{}{"cfg": fmt.Sprintf("%+v", cfg), "history": fmt.Sprint(nh), "state": r.key})
					}
				}
			}
		}
		frontier = next
	}
	if len(frontier) == 0 {
		res.Extra["configs_closed_at_fixpoint"] = c14Inc(res.Extra["configs_closed_at_fixpoint"])
	} else {
		res.Extra["configs_cut_at_depth"] = c14Inc(res.Extra["configs_cut_at_depth"])
	}
	res.Nontrivial += int64(len(nontriv))
	res.Outcome(fmt.Sprintf("%+v:%d", cfg, len(seen)))
	return true
}

func c14Replay(t *testing.T, res *ev.Result, path string) {
	var f struct {
		Replay struct {
			Cfg     c14Cfg  `json:"cfg"`
			History []c14Op `json:"history"`
		} `json:"replay"`
	}
	b, err := os.ReadFile(path)
	if err != nil {
		t.Fatal(err)
	}
	if err := jsonUnmarshal(b, &f); err != nil {
		t.Fatal(err)
	}
	r := c14Exec(t, f.Replay.Cfg, f.Replay.History)
	if r.viol != "" {
		fmt.Println("REPLAY-VIOLATION", r.viol)
		res.Violate("C14/"+strings.SplitN(r.viol, ":", 2)[0], r.viol, f.Replay)
		return
	}
	fmt.Println("REPLAY-OK")
}

func c14Inc(v interface{}) int {
	if v == nil {
		return 1
	}
	return v.(int) + 1
}
