package server

// C05 / C06 on the full stack (fs_env_test.go): exploration of schedules x crash points x fault answers and
// the oracles over the recorded event log (acks, checkpoint writes, registrations, task states).

import (
	"context"
	"fmt"
	"os"
	"sort"
	"strings"
	"testing"
	"time"

	"github.com/milvus-io/milvus-proto/go-api/v2/commonpb"
	"github.com/milvus-io/milvus/pkg/util/funcutil"

	"github.com/zilliztech/milvus-cdc/core/log"
	cdcreader "github.com/zilliztech/milvus-cdc/core/reader"
	"github.com/zilliztech/milvus-cdc/core/verifkit/ev"
	"github.com/zilliztech/milvus-cdc/core/verifkit/fakemq"
	"github.com/zilliztech/milvus-cdc/core/verifkit/sched"
	"github.com/zilliztech/milvus-cdc/server/metrics"
	"github.com/zilliztech/milvus-cdc/server/model/meta"
	"github.com/zilliztech/milvus-cdc/server/model/request"
)

// ------------------------------------------------------------------------------------------------
// one execution

type fsSnapshot struct {
	At     int // index into events
	States map[string]meta.TaskState
	Reason map[string]string
	Stored map[string]meta.TaskState
	StoredReason map[string]string
	Published map[string]int
	Subscribed map[string]bool  // source vchannels with a live subscription
	Created    map[int64]bool   // late collections that exist upstream
	API       map[string]string // task -> state reported by List
	Gauge     map[string]string // task -> state gauge that counts it ("" = none, "A+B" = two)
}

type fsExec struct {
	*fsRun
	snaps        []fsSnapshot
	resumesLeft  map[string]int
	finalDone    bool
	frozen       bool
	hitCap       bool
}

func (x *fsExec) snapshot() {
	s := fsSnapshot{At: len(x.events), States: map[string]meta.TaskState{}, Reason: map[string]string{}, Stored: map[string]meta.TaskState{}, StoredReason: map[string]string{}, Published: map[string]int{}}
	for id, ti := range x.taskStates() {
		s.States[id] = ti.State
		s.Reason[id] = ti.Reason
	}
	// the API view
	s.API, s.Gauge = map[string]string{}, map[string]string{}
	gi, gr, gp := metrics.VerifTaskNum()
	for st, ids := range map[string][]string{"Initial": gi, "Running": gr, "Paused": gp} {
		for _, id := range ids {
			if s.Gauge[id] != "" {
				s.Gauge[id] += "+"
			}
			s.Gauge[id] += st
		}
	}
	if resp, err := x.cur.cdc.List(&request.ListRequest{}); err == nil {
		for _, t := range resp.Tasks {
			s.API[t.TaskID] = t.State
			if string(s.States[t.TaskID].String()) != t.State {
				s.Reason[t.TaskID] += " <api-disagrees:" + t.State + ">"
			}
		}
	}
	// the persisted view (read straight from the durable store, not through the fenced client)
	for k, v := range x.fe.Dump() {
		if i := strings.Index(k, "/task_info/"); i >= 0 {
			var ti meta.TaskInfo
			if jsonUnmarshalS([]byte(v), &ti) == nil {
				s.Stored[ti.TaskID] = ti.State
				s.StoredReason[ti.TaskID] = ti.Reason
			}
		}
	}
	for v := range x.logs {
		s.Published[v] = x.cur.mq.Published(v)
	}
	s.Subscribed, s.Created = map[string]bool{}, map[int64]bool{}
	for _, v := range x.cur.mq.Registered() {
		s.Subscribed[v] = true
	}
	for id, ok := range x.created {
		s.Created[id] = ok
	}
	x.snaps = append(x.snaps, s)
}

func (x *fsExec) ackedKeys() map[string]bool {
	out := map[string]bool{}
	for _, e := range x.events {
		if e.Kind == "ack" {
			for _, m := range e.Pack.Msgs {
				out[m.Key] = true
			}
		}
	}
	return out
}

// unprocessable: messages that can never be replicated in this scenario (and everything behind them on the stream)
func (x *fsExec) unprocessable() map[string]bool {
	out := map[string]bool{}
	blockedFrom := map[string]int{}
	for _, s := range x.src {
		if fsNeedsP1(s.Kind) {
			if b, ok := blockedFrom[s.Stream]; !ok || s.Pack < b {
				blockedFrom[s.Stream] = s.Pack
			}
		}
	}
	for _, s := range x.src {
		if b, ok := blockedFrom[s.Stream]; ok && s.Pack >= b {
			out[s.Key] = true
		}
	}
	return out
}

func (x *fsExec) missing() []*fsSrc {
	acked := x.ackedKeys()
	un := x.unprocessable()
	var out []*fsSrc
	for _, s := range x.src {
		if s.Kind == "dropColl" {
			continue
		}
		if !acked[s.Key] && !un[s.Key] {
			out = append(out, s)
		}
	}
	return out
}

func (x *fsExec) onIdle() *sched.Action {
	if x.restarting {
		return &sched.Action{Label: "drain", Do: func() {}} // the dead incarnation is still coming to rest
	}
	if x.cur.dead || x.resumeBusy {
		return nil
	}
	x.snapshot()
	states := x.taskStates()
	var ids []string
	for id := range states {
		ids = append(ids, id)
	}
	sort.Strings(ids)
	for _, id := range ids {
		id := id
		st := states[id]
		if st.State == meta.TaskStatePaused && x.resumesLeft[id] > 0 {
			return &sched.Action{Label: "resume:" + id, Do: x.resumeFn(id, st.Reason)}
		}
	}
	// a collection that is to be created while the task runs is created at the first quiescent point at the latest
	for _, c := range x.sc.Colls {
		if c.Late && !x.created[c.ID] {
			return &sched.Action{Label: "create:" + c.Name, Do: x.createLate(c)}
		}
	}
	if !x.finalDone && len(x.missing()) > 0 {
		return &sched.Action{Label: "final-restart", Do: func() {
			x.finalDone, x.frozen = true, true
			x.crashQuiet(x.cur)
			x.needRestart, x.restarting = false, true
			go x.restart()
		}}
	}
	return nil
}

// resumeFn: the API resume of a paused task (at a quiescent point by default; scenarios with EarlyResume also offer it
// as a deviation right after the pause, while packs of the paused task are still in flight)
func (x *fsExec) resumeFn(id, reason string) func() {
	return func() {
		x.resumesLeft[id]--
		x.resumeBusy = true
		inc := x.cur
		for ch := range x.rejecting {
			delete(x.rejecting, ch)
		}
		for c := range x.targetDown {
			delete(x.targetDown, c)
		}
		x.ev(fsEvent{Inc: inc.n, Kind: "resume", Key: id, Detail: reason})
		go func() {
			_, err := inc.cdc.Resume(&request.ResumeRequest{TaskID: id})
			if err != nil {
				x.apiErrs = append(x.apiErrs, fmt.Sprintf("resume %s: %v", id, err))
			}
			x.resumeBusy = false
		}()
	}
}

// crashQuiet: the final clean restart (not counted as an explored crash)
func (x *fsExec) crashQuiet(inc *fsInc) {
	inc.dead = true
	prefix := fmt.Sprintf("i%d:", inc.n)
	x.ctl.DropParked(func(k string) bool { return strings.HasPrefix(k, prefix) })
	for _, c := range inc.cancels {
		c()
	}
	x.ev(fsEvent{Inc: inc.n, Kind: "crash", Detail: "final clean restart"})
	for ch := range x.rejecting {
		delete(x.rejecting, ch)
	}
}

func fsExecute(t *testing.T, sc *fsScenario, ctl *sched.Ctl) *fsExec {
	x := &fsExec{resumesLeft: map[string]int{}}
	for _, tk := range sc.Tasks {
		x.resumesLeft[tk.ID] = 2
	}
	x.fsRun = fsStart(sc, ctl)
	x.fsRun.frozenFn = func() bool { return x.frozen }
	ctl.Actions = func() []sched.Action {
		if x.frozen {
			if x.needRestart && !x.restarting {
				return x.actions()
			}
			return nil
		}
		acts := x.actions()
		if sc.EarlyResume && !x.restarting && !x.resumeBusy && !x.cur.dead && !x.needRestart {
			for id, st := range x.taskStates() {
				if st.State == meta.TaskStatePaused && x.resumesLeft[id] > 0 && x.paused[id] {
					acts = append(acts, sched.Action{Label: "resume-early:" + id, Cost: 1, Do: x.resumeFn(id, st.Reason)})
				}
			}
		}
		return acts
	}
	ctl.OnIdle = x.onIdle
	ctl.Loop(nil)
	x.hitCap = ctl.HitStepCap
	if !x.cur.dead && !x.restarting {
		x.snapshot()
	}
	return x
}

// ------------------------------------------------------------------------------------------------
// oracle

func (x *fsExec) taskOfColl(id int64) string {
	var c *fsColl
	for _, cc := range x.sc.Colls {
		if cc.ID == id {
			c = cc
		}
	}
	if c == nil {
		return ""
	}
	for _, t := range x.sc.Tasks {
		if t.Coll == c.Name || t.Coll == "*" {
			return t.ID
		}
	}
	return ""
}

func (x *fsExec) collByName(n string) *fsColl {
	for _, c := range x.sc.Colls {
		if c.Name == n {
			return c
		}
	}
	return nil
}

func (x *fsExec) check() (viol []sched.Violation, summary string, nontrivial bool) {
	add := func(sig, format string, a ...interface{}) {
		viol = append(viol, sched.Violation{Sig: sig, Detail: fmt.Sprintf(format, a...) + "\n" + x.eventText()})
	}
	if len(x.apiErrs) > 0 {
		// a resume / create refused by the product is part of the outcome, not a violation by itself
	}
	acked := map[string]bool{}    // message key
	ackedEnd := map[string]bool{} // source end position id of an acknowledged pack
	_ = x.unprocessable
	frozen := map[string]string{} // task/coll/channel -> frozen position id
	failedOn := map[string]bool{} // stream -> a failure was injected on it
	byStream := map[string][]*fsSrc{}
	for _, s := range x.src {
		byStream[s.Stream] = append(byStream[s.Stream], s)
	}
	nAck, nPut, nCrash, nFault := 0, 0, 0, 0
	// a failure on a downstream channel: until the task is resumed (or the process restarted) nothing of that task may be
	// acknowledged on that channel any more (packs in flight on OTHER channels are tolerated)
	failedChan := map[string]string{} // task|channel -> what failed
	lastAckChan := ""
	// root causes that explain a whole family of consequences (reported once, under their own signature):
	// messages a registration skipped because it subscribed at "latest" (no checkpoint yet), or because of the
	// time filter of the seek position
	skipLatest := map[string]bool{}
	skipTime := map[string]bool{}
	rootSig := func(s *fsSrc, sig string) string {
		if skipLatest[s.Key] {
			return "C05/lost/resumed-at-latest-without-checkpoint"
		}
		if skipTime[s.Key] {
			return "C05/lost/seek-time-filter"
		}
		return sig
	}
	// collections the source catalog reported as dropped when the current incarnation started: the product does not
	// replicate their remaining rows (they are about to be dropped downstream as well)
	goneAtStart := ","
	gone := func(s *fsSrc) bool { return strings.Contains(goneAtStart, fmt.Sprintf(",%d,", s.Coll)) }
	for _, e := range x.events {
		switch e.Kind {
		case "restart":
			goneAtStart = e.Detail
			failedChan = map[string]string{}
		case "register":
			msgs := byStream[e.Key]
			if e.Reg != nil && len(e.Reg.MsgID) > 0 {
				// a stream is resumed from a position of its own physical channel (its own checkpoint, or - the vchannels of a
				// physical channel share one log - that of a neighbour on it), never from another channel's
				if ref, ok := x.packEnd[string(e.Reg.MsgID)]; ok && funcutil.ToPhysicalChannel(ref.Stream) != funcutil.ToPhysicalChannel(e.Key) {
					add("C05/resume/foreign-position", "stream %s was subscribed at position %q, which is the end of pack %d of stream %s on another physical channel (event %d)", e.Key, e.Reg.MsgID, ref.Pack, ref.Stream, e.N)
				}
			}
			if e.Reg == nil || len(e.Reg.MsgID) == 0 {
				for _, s := range msgs {
					if s.Pack < e.First && !acked[s.Key] {
						skipLatest[s.Key] = true
					}
				}
			} else if e.Reg.Timestamp != 0 {
				// the seek drops data messages with ts <= the position's timestamp until the first tick at or after it
				for _, p := range x.logs[e.Key][e.First:] {
					for _, s := range msgs {
						if s.Pack >= e.First && x.logs[e.Key][s.Pack] == p && s.Ts <= e.Reg.Timestamp && !acked[s.Key] {
							skipTime[s.Key] = true
						}
					}
					if p.EndTs >= e.Reg.Timestamp {
						break
					}
				}
			}
		case "crash":
			nCrash++
		case "resume":
			for k := range failedChan {
				if strings.HasPrefix(k, e.Key+"|") {
					delete(failedChan, k)
				}
			}
		case "reject", "put-fail", "ddl-reject":
			nFault++
			if e.Kind == "reject" {
				if ref, ok := x.packEnd[e.Detail]; ok {
					failedOn[ref.Stream] = true
					failedChan[x.taskOfColl(ref.Coll)+"|"+e.Key] = fmt.Sprintf("the downstream rejected pack %d of %s at event %d", ref.Pack, ref.Stream, e.N)
				}
			}
			if e.Kind == "put-fail" && lastAckChan != "" {
				task := strings.SplitN(strings.TrimPrefix(e.Key, "pos:"), "/", 2)[0]
				failedChan[task+"|"+lastAckChan] = fmt.Sprintf("the store rejected the checkpoint write at event %d", e.N)
			}
		case "ack":
			nAck++
			lastAckChan = e.Key
			ref, ok := x.packEnd[e.Pack.EndMsgID]
			if ok {
				if why, bad := failedChan[x.taskOfColl(ref.Coll)+"|"+e.Key]; bad {
					add("C06/emitted-while-paused", "pack %d of %s was sent and acknowledged on %s at event %d although %s and the task has not been resumed", ref.Pack, ref.Stream, e.Key, e.N, why)
				}
			}
			if !ok {
				add("C05/ack-unknown-pack", "the downstream acknowledged a pack whose end position %q is not the end of any source pack", e.Pack.EndMsgID)
				continue
			}
			// no gap: every earlier data message of the stream has been acknowledged before this pack
			for _, s := range byStream[ref.Stream] {
				if s.Pack < ref.Pack && s.Kind != "dropColl" && !acked[s.Key] && !gone(s) {
					sig := "C05/ack-gap"
					if failedOn[ref.Stream] {
						sig = "C06/skipped-after-failure"
					}
					if fsNeedsP1(s.Kind) {
						sig = "C06/skipped/unknown-partition"
					}
					add(rootSig(s, sig), "pack %d of stream %s was acknowledged (event %d) although message %s of pack %d of the same stream has never been acknowledged", ref.Pack, ref.Stream, e.N, s.ID, s.Pack)
					break
				}
			}
			for _, m := range e.Pack.Msgs {
				acked[m.Key] = true
			}
			ackedEnd[e.Pack.EndMsgID] = true
		case "put":
			nPut++
			p := e.Pos
			for pch, pi := range p.Positions {
				if pi == nil || pi.DataPair == nil {
					continue
				}
				id := string(pi.DataPair.Data)
				fk := fmt.Sprintf("%s/%d/%s", p.TaskID, p.CollectionID, pch)
				if f, ok := frozen[fk]; ok {
					if f != id || !pi.Dropped {
						add("C05/dropped-checkpoint-changed", "checkpoint %s of a dropped collection changed from %q (dropped) to %q (dropped=%v) at event %d", fk, f, id, pi.Dropped, e.N)
					}
					continue
				}
				if pi.Dropped {
					frozen[fk] = id
				}
				if strings.HasPrefix(id, "start-") || id == "" {
					continue
				}
				ref, ok := x.packEnd[id]
				if !ok {
					add("C05/checkpoint-unknown-position", "checkpoint %s = %q is not the end position of any source pack (event %d)", fk, id, e.N)
					continue
				}
				if ref.Coll != p.CollectionID || funcutil.ToPhysicalChannel(ref.Stream) != pch {
					add("C05/checkpoint-foreign-stream", "checkpoint %s = %q belongs to stream %s of collection %d (event %d)", fk, id, ref.Stream, ref.Coll, e.N)
					continue
				}
				if !ackedEnd[id] {
					add("C05/checkpoint-unacked-pack", "checkpoint %s = %q written at event %d identifies pack %d of %s, which the downstream has not acknowledged", fk, id, e.N, ref.Pack, ref.Stream)
					continue
				}
				for _, s := range byStream[ref.Stream] {
					if s.Pack <= ref.Pack && s.Kind != "dropColl" && !acked[s.Key] && !gone(s) {
						if fsNeedsP1(s.Kind) {
							add(rootSig(s, "C06/checkpoint-past-failed/unknown-partition"), "checkpoint %s = %q (pack %d) written at event %d although message %s (pack %d), which could not be processed, lies before it", fk, id, ref.Pack, e.N, s.ID, s.Pack)
							break
						}
						add(rootSig(s, "C05/checkpoint-ahead-of-ack"), "checkpoint %s = %q (pack %d) written at event %d while message %s (pack %d) of that stream has not been acknowledged", fk, id, ref.Pack, e.N, s.ID, s.Pack)
						break
					}
				}
			}
		}
	}
	// C03 across restart / resume: what the downstream accepted on one channel, in order, over all incarnations
	{
		lastTick := map[string]uint64{}
		lastTickAt := map[string]int{}
		persisted := map[string]string{}                       // task/coll/channel -> checkpointed end position id
		ackOf := map[string]struct{ ch string; tick uint64; at int }{} // end position id -> where / with which closing tick it was accepted
		disturbed := false // a crash or an injected failure has happened: checkpoints may lag behind what was accepted
		for _, e := range x.events {
			switch e.Kind {
			case "crash":
				if e.Detail != "final clean restart" {
					disturbed = true
				}
			case "reject", "put-fail", "ddl-reject", "target-fail", "conn-fail":
				disturbed = true
			}
			switch e.Kind {
			case "put":
				for pch, pi := range e.Pos.Positions {
					if pi != nil && pi.DataPair != nil {
						persisted[fmt.Sprintf("%s/%d/%s", e.Pos.TaskID, e.Pos.CollectionID, pch)] = string(pi.DataPair.Data)
					}
				}
			case "restart", "resume":
				if !disturbed {
					// an undisturbed history (manual pause and resume, a restart at a quiescent point): every accepted pack has
					// been checkpointed, nothing is sent again, and time on the channel goes on from where it was
					break
				}
				// streams are resumed from the persisted checkpoints: packs accepted after the checkpointed one are sent
				// again (C05 allows that) with the times they had, so the floor for what follows is the closing tick of the
				// checkpointed packs, not of the last accepted ones
				floor := map[string]uint64{}
				for _, id := range persisted {
					if a, ok := ackOf[id]; ok && a.tick > floor[a.ch] {
						floor[a.ch] = a.tick
						lastTickAt[a.ch] = a.at
					}
				}
				for ch := range lastTick {
					lastTick[ch] = floor[ch]
				}
			}
			if e.Kind != "ack" {
				continue
			}
			ch := e.Key
			// the closing tick is the pack's last message (for a tick-only pack the envelope keeps the source's end time)
			closing := e.Pack.EndTs
			if n := len(e.Pack.Msgs); n > 0 && e.Pack.Msgs[n-1].Type == commonpb.MsgType_TimeTick {
				closing = e.Pack.Msgs[n-1].Ts
			} else {
				add("C03/resume/no-closing-tick", "on %s the pack acknowledged at event %d does not end with a time tick", ch, e.N)
			}
			if _, seen := ackOf[e.Pack.EndMsgID]; !seen {
				ackOf[e.Pack.EndMsgID] = struct{ ch string; tick uint64; at int }{ch, closing, e.N}
			}
			if closing < lastTick[ch] {
				add("C03/resume/tick-decreases", "on %s the pack acknowledged at event %d (incarnation %d) closes with tick %d, below the closing tick %d of the pack acknowledged at event %d", ch, e.N, e.Inc, closing, lastTick[ch], lastTickAt[ch])
			}
			for _, m := range e.Pack.Msgs {
				if m.Type == commonpb.MsgType_TimeTick || m.Msg == nil {
					continue
				}
				if lt, ok := lastTick[ch]; ok && m.Ts <= lt {
					add("C03/resume/data-not-after-earlier-tick", "on %s message %s acknowledged at event %d (incarnation %d) has ts %d, not above the closing tick %d of the pack acknowledged at event %d", ch, m.Key, e.N, e.Inc, m.Ts, lt, lastTickAt[ch])
				}
				if m.Ts > closing {
					add("C03/resume/data-after-own-tick", "on %s message %s (event %d) has ts %d above its own pack's closing tick %d", ch, m.Key, e.N, m.Ts, closing)
				}
			}
			if closing >= lastTick[ch] {
				lastTick[ch], lastTickAt[ch] = closing, e.N
			}
		}
	}
	// at least once: after the final clean restart everything processable has been acknowledged
	complete := !x.hitCap && !x.cur.dead && !x.restarting
	if complete {
		miss := x.missing()
		seenSig := map[string]bool{}
		goneAtStart = x.droppedUpstream()
		for _, m := range miss {
			if gone(m) {
				continue
			}
			sig := rootSig(m, "C05/lost/"+x.lossClass(m))
			if seenSig[sig] {
				continue
			}
			seenSig[sig] = true
			add(sig, "message %s (pack %d of %s, ts %d) was never acknowledged by the downstream although the service was restarted cleanly at the end (%d messages missing)", m.ID, m.Pack, m.Stream, m.Ts, len(miss))
		}
	}
	// C06: at every quiescent snapshot the owner of a failure is paused with a reason, nobody else changed state
	prevAt := 0
	prev := map[string]meta.TaskState{}
	for _, t := range x.sc.Tasks {
		prev[t.ID] = meta.TaskStateRunning
	}
	for _, s := range x.snaps {
		owners := map[string]string{}
		manual := map[string]bool{}
		restarted := false
		for _, e := range x.events[prevAt:s.At] {
			switch e.Kind {
			case "reject":
				if ref, ok := x.packEnd[e.Detail]; ok {
					owners[x.taskOfColl(ref.Coll)] = "downstream-rejects-write"
				}
			case "put-fail":
				owners[strings.SplitN(strings.TrimPrefix(e.Key, "pos:"), "/", 2)[0]] = "store-rejects-checkpoint"
			case "ddl-reject":
				if c := x.collByName(e.Detail); c != nil {
					owners[x.taskOfColl(c.ID)] = "downstream-rejects-ddl"
				}
			case "target-fail":
				if c := x.collByName(e.Detail); c != nil {
					owners[x.taskOfColl(c.ID)] = "start-scan-lookup-fails"
				}
			case "conn-fail":
				// the collection being started on that source channel (the scenarios that use it keep one collection per channel)
				for _, c := range x.sc.Colls {
					for _, sh := range c.Shards {
						if funcutil.ToPhysicalChannel(sh.SrcV) == e.Key {
							owners[x.taskOfColl(c.ID)] = "connectivity-check-fails"
						}
					}
				}
			case "pause":
				manual[e.Key] = true
			case "resume":
				manual[e.Key] = true // its state is expected to change
			case "restart":
				restarted = true
			}
		}
		if !restarted {
			// inherent failure: an insert into a partition the downstream will never have, once it has been read
			for _, c := range x.sc.Colls {
				if !c.UnknownPart {
					continue
				}
				for _, m := range x.src {
					// (read by the registration that is current at this point: a resume that subscribed behind the message -
					// from a checkpoint, or at "latest" for want of one, which is the recorded finding - does not meet it again)
					firstOfCurrent := 0
					for _, e := range x.events[:s.At] {
						if e.Kind == "register" && e.Key == m.Stream {
							firstOfCurrent = e.First
						}
					}
					if m.Coll == c.ID && fsNeedsP1(m.Kind) && s.Published[m.Stream] > m.Pack && firstOfCurrent <= m.Pack {
						if _, ok := owners[x.taskOfColl(c.ID)]; !ok {
							owners[x.taskOfColl(c.ID)] = "unknown-partition"
						}
					}
				}
			}
		}
		for id, class := range owners {
			if restarted {
				continue // a restart resumes every task: the failure may have been overtaken by it
			}
			if s.States[id] != meta.TaskStatePaused || s.Stored[id] != meta.TaskStatePaused {
				add("C06/not-paused/"+class, "task %s owns a failure (%s) but at quiescence its state is %v in memory and %v in the store (reason %q)", id, class, s.States[id], s.Stored[id], s.Reason[id])
			} else if s.Reason[id] == "" || s.StoredReason[id] == "" || strings.Contains(s.Reason[id], "api-disagrees") {
				add("C06/no-reason/"+class, "task %s is paused after a failure (%s) but its reason is %q in memory / %q in the store", id, class, s.Reason[id], s.StoredReason[id])
			}
		}
		for _, t := range x.sc.Tasks {
			if _, own := owners[t.ID]; own || manual[t.ID] || restarted || len(owners) == 0 {
				continue // (a task that pauses itself without any injected failure is part of the outcome, not judged here)
			}
			if s.States[t.ID] != prev[t.ID] {
				cl := "none"
				for _, c := range owners {
					cl = c
				}
				add("C06/other-task-changed/"+cl, "task %s had no failure but its state went from %v to %v (reason %q) while %v failed", t.ID, prev[t.ID], s.States[t.ID], s.Reason[t.ID], owners)
			}
		}
		prevAt = s.At
		for id, st := range s.States {
			prev[id] = st
		}
	}
	// C13 on the full stack: a task that is Running at a quiescent point has its replication started - every shard of
	// every collection it selects (that exists upstream and has not been dropped there) has a live subscription
	for _, s := range x.snaps {
		if s.Subscribed == nil {
			continue
		}
		for _, c := range x.sc.Colls {
			tid := x.taskOfColl(c.ID)
			if tid == "" || s.States[tid] != meta.TaskStateRunning || s.Stored[tid] != meta.TaskStateRunning || (c.Late && !s.Created[c.ID]) {
				continue
			}
			droppedUp := false
			for _, sh := range c.Shards {
				if dp := sh.dropPack(); dp >= 0 && s.Published[sh.SrcV] > dp {
					droppedUp = true
				}
			}
			if droppedUp {
				continue
			}
			for _, sh := range c.Shards {
				if !s.Subscribed[sh.SrcV] {
					add("C13/fullstack/running-without-stream", "at the quiescent point after event %d task %s is Running (memory and store) but shard %s of its collection %s has no subscription at the source (subscribed: %v)", s.At, tid, sh.SrcV, c.Name, s.Subscribed)
					break
				}
			}
		}
	}
	// C11 on the full stack: at every quiescent point the four views of every task's state agree
	for _, s := range x.snaps {
		for _, t := range x.sc.Tasks {
			mem, okm := s.States[t.ID]
			if !okm {
				continue
			}
			views := fmt.Sprintf("memory=%v stored=%v api=%s gauge=%s", mem, s.Stored[t.ID], s.API[t.ID], s.Gauge[t.ID])
			if s.Stored[t.ID] != mem || s.API[t.ID] != mem.String() || s.Gauge[t.ID] != mem.String() {
				which := ""
				if s.Stored[t.ID] != mem {
					which += "+stored"
				}
				if s.API[t.ID] != mem.String() {
					which += "+api"
				}
				if s.Gauge[t.ID] != mem.String() {
					which += "+gauge"
				}
				add("C11/fullstack/state-disagree/"+which[1:], "at the quiescent point after event %d task %s: %s", s.At, t.ID, views)
				break
			}
		}
	}
	final := "?"
	if len(x.snaps) > 0 {
		var parts []string
		last := x.snaps[len(x.snaps)-1]
		for _, t := range x.sc.Tasks {
			parts = append(parts, fmt.Sprintf("%s=%v", t.ID, last.States[t.ID]))
		}
		final = strings.Join(parts, ",")
	}
	summary = fmt.Sprintf("acks=%d puts=%d crashes=%d faults=%d incs=%d final[%s] missing=%d", nAck, nPut, nCrash, nFault, len(x.incs), final, len(x.missing()))
	nontrivial = nCrash+nFault > 0 || len(x.incs) > 1
	return
}

// lossClass explains, from the registrations of the last incarnation, why a message was not re-read.
func (x *fsExec) lossClass(m *fsSrc) string {
	var last *fakemq.RegRecord
	for _, inc := range x.incs {
		for i := range inc.mq.Registers {
			rr := inc.mq.Registers[i]
			if rr.VChannel == m.Stream {
				last = &rr
			}
		}
	}
	if last == nil {
		return "stream-never-registered"
	}
	if last.Pos == nil || len(last.Pos.MsgID) == 0 {
		return "resumed-at-latest-without-checkpoint"
	}
	if ref, ok := x.packEnd[string(last.Pos.MsgID)]; ok && ref.Pack >= m.Pack {
		return "checkpoint-past-unacked"
	}
	if last.Pos.Timestamp != 0 && m.Ts <= last.Pos.Timestamp {
		return "seek-time-filter"
	}
	return "other"
}

func (x *fsExec) eventText() string {
	var sb strings.Builder
	for _, e := range x.events {
		switch e.Kind {
		case "ack":
			var ks []string
			for _, m := range e.Pack.Msgs {
				ks = append(ks, m.Key)
			}
			fmt.Fprintf(&sb, "  %d i%d ack %s end=%s msgs=%v\n", e.N, e.Inc, e.Key, e.Pack.EndMsgID, ks)
		case "put":
			var ps []string
			for ch, pi := range e.Pos.Positions {
				if pi != nil && pi.DataPair != nil {
					ps = append(ps, fmt.Sprintf("%s=%s@%dms%s", ch, pi.DataPair.Data, pi.Time, map[bool]string{true: "(dropped)", false: ""}[pi.Dropped]))
				}
			}
			sort.Strings(ps)
			fmt.Fprintf(&sb, "  %d i%d put %s %v\n", e.N, e.Inc, e.Key, ps)
		case "register":
			if e.Reg != nil && len(e.Reg.MsgID) > 0 {
				fmt.Fprintf(&sb, "  %d i%d register %s at %q ts=%d -> first pack %d\n", e.N, e.Inc, e.Key, e.Reg.MsgID, e.Reg.Timestamp, e.First)
			} else {
				fmt.Fprintf(&sb, "  %d i%d register %s at latest -> first pack %d\n", e.N, e.Inc, e.Key, e.First)
			}
		default:
			fmt.Fprintf(&sb, "  %d i%d %s %s %s\n", e.N, e.Inc, e.Kind, e.Key, e.Detail)
		}
	}
	for i, s := range x.snaps {
		fmt.Fprintf(&sb, "  snapshot %d at event %d: memory %v stored %v reasons %v\n", i, s.At, s.States, s.Stored, s.Reason)
	}
	if len(x.apiErrs) > 0 {
		fmt.Fprintf(&sb, "  api errors: %v\n", x.apiErrs)
	}
	return sb.String()
}

// fsKeep: signature prefixes the running test judges (the event-log oracle evaluates the clauses of C03, C05 and C06)
var fsKeep = []string{"C05/", "C06/"}

func fsWrap(sc *fsScenario) *sched.Scenario {
	group := ""
	if sc.Gen {
		group = "gen:*" + sc.Name[strings.Index(sc.Name, "/"):]
	}
	return &sched.Scenario{Name: sc.Name, Group: group, Run: func(t *testing.T, ctl *sched.Ctl) sched.Outcome {
		x := fsExecute(t, sc, ctl)
		all, sum, nt := x.check()
		if os.Getenv("VERIF_DUMPALL") != "" {
			fmt.Printf("DUMP %s %v\n%s\n", sc.Name, ctl.Choices, x.eventText())
		}
		x.teardown()
		var v []sched.Violation
		for _, one := range all {
			for _, p := range fsKeep {
				if strings.HasPrefix(one.Sig, p) {
					v = append(v, one)
					break
				}
			}
		}
		return sched.Outcome{Summary: sum, Nontrivial: nt, Violations: v}
	}}
}

// ------------------------------------------------------------------------------------------------
// scenarios

func fsMkColl(id int64, name string, pchans ...string) *fsColl {
	c := &fsColl{ID: id, Name: name}
	for i, p := range pchans {
		c.Shards = append(c.Shards, &fsShard{SrcV: fmt.Sprintf("%s_%dv%d", p, id, i)})
	}
	return c
}

func fpIns(ms int64) fsPack  { return fsPack{Msgs: []fsMsg{{Kind: "ins", Ms: ms}}, TickMs: ms, TickLg: 1} }
func fpDel(ms int64) fsPack  { return fsPack{Msgs: []fsMsg{{Kind: "del", Ms: ms}}, TickMs: ms, TickLg: 1} }
func fpTick(ms int64) fsPack { return fsPack{TickMs: ms} }
func fpInsDel(ms int64) fsPack {
	return fsPack{Msgs: []fsMsg{{Kind: "ins", Ms: ms}, {Kind: "del", Ms: ms, Lg: 1}}, TickMs: ms, TickLg: 2}
}
func fpDrop(ms int64) fsPack { return fsPack{Msgs: []fsMsg{{Kind: "dropColl", Ms: ms}}, TickMs: ms, TickLg: 1} }
func fpInsPart(ms int64) fsPack {
	return fsPack{Msgs: []fsMsg{{Kind: "insPart", Ms: ms}}, TickMs: ms, TickLg: 1}
}

// trailing ticks: the source never goes silent; they flush the batcher
func fsTail(script []fsPack, n int) []fsPack {
	last := script[len(script)-1].TickMs
	for i := 1; i <= n; i++ {
		script = append(script, fpTick(last+int64(200*i)))
	}
	return script
}

const fsURI = "milvus-a:19530"

func fsC05Scenarios(thorough bool) []*fsScenario {
	var out []*fsScenario
	one := func(name string, maxCount int, script []fsPack) *fsScenario {
		c := fsMkColl(101, "c1", "src-dml_0")
		c.Shards[0].Script = fsTail(script, maxCount)
		return &fsScenario{Name: name, Colls: []*fsColl{c}, Tasks: []fsTask{{ID: "t0", URI: fsURI, Coll: "c1"}}, MaxCount: maxCount}
	}
	// one stream, every crash point
	{
		sc := one("crash:1stream", 1, []fsPack{fpIns(1000), fpInsDel(1010), fpTick(1020), fpDel(1030)})
		sc.Crash = true
		out = append(out, sc)
	}
	// sub-millisecond spacing: the persisted time is in whole milliseconds
	{
		sc := one("crash:same-ms", 1, []fsPack{{Msgs: []fsMsg{{Kind: "ins", Ms: 1000, Lg: 1}}, TickMs: 1000, TickLg: 2}, {Msgs: []fsMsg{{Kind: "ins", Ms: 1000, Lg: 5}}, TickMs: 1000, TickLg: 6}, {Msgs: []fsMsg{{Kind: "del", Ms: 1001, Lg: 0}}, TickMs: 1001, TickLg: 1}})
		sc.Crash = true
		out = append(out, sc)
	}
	// batch boundaries
	for _, mc := range []int{2, 3} {
		sc := one(fmt.Sprintf("crash:batch%d", mc), mc, []fsPack{fpIns(1000), fpIns(1010), fpDel(1020), fpIns(1030)})
		sc.Crash = true
		out = append(out, sc)
	}
	// two shards of one collection: two sender goroutines share one checkpoint record
	{
		c := fsMkColl(101, "c1", "src-dml_0", "src-dml_1")
		c.Shards[0].Script = fsTail([]fsPack{fpIns(1000), fpDel(1010)}, 1)
		c.Shards[1].Script = fsTail([]fsPack{fpIns(1001), fpIns(1011)}, 1)
		sc := &fsScenario{Name: "crash:2shards", Colls: []*fsColl{c}, Tasks: []fsTask{{ID: "t0", URI: fsURI, Coll: "c1"}}, MaxCount: 1, Crash: true, ParkGet: true}
		out = append(out, sc)
	}
	// two shards whose source channels are in a prefix relation (dml_1 / dml_10: every source with more than ten
	// channels has such pairs), streams skewed at the stop: each channel resumes from its own checkpoint
	{
		c := fsMkColl(101, "c1", "src-dml_1", "src-dml_10")
		c.Shards[0].Script = fsTail([]fsPack{fpIns(1000), fpDel(1010), fpIns(1020)}, 1)
		c.Shards[1].Script = fsTail([]fsPack{fpIns(1001), fpIns(1011), fpDel(1021)}, 1)
		out = append(out, &fsScenario{Name: "crash:2shards-prefix-names", Colls: []*fsColl{c}, Tasks: []fsTask{{ID: "t0", URI: fsURI, Coll: "c1"}}, MaxCount: 1, Crash: true})
	}
	// two collections of one task multiplexed on one source channel and one downstream channel, clocks skewed
	for _, skew := range []int64{0, 1000, -500} {
		c1 := fsMkColl(101, "c1", "src-dml_0")
		c2 := fsMkColl(102, "c2", "src-dml_0")
		c1.Shards[0].Script = fsTail([]fsPack{fpIns(2000), fpIns(2010), fpDel(2020)}, 1)
		c2.Shards[0].Script = fsTail([]fsPack{fpIns(2001 + skew), fpIns(2011 + skew)}, 1)
		sc := &fsScenario{Name: fmt.Sprintf("crash:shared-skew%+d", skew), Colls: []*fsColl{c1, c2}, Tasks: []fsTask{{ID: "t0", URI: fsURI, Coll: "*"}}, MaxCount: 1, Crash: true}
		out = append(out, sc)
	}
	// write and store failures, then resume
	{
		sc := one("fault:down", 1, []fsPack{fpIns(1000), fpInsDel(1010), fpDel(1020)})
		sc.DownFault = true
		out = append(out, sc)
		sc = one("fault:down-batch2", 2, []fsPack{fpIns(1000), fpIns(1010), fpDel(1020)})
		sc.DownFault = true
		out = append(out, sc)
		sc = one("fault:store", 1, []fsPack{fpIns(1000), fpInsDel(1010), fpDel(1020)})
		sc.StoreFault = true
		out = append(out, sc)
		sc = one("fault:store-batch2", 2, []fsPack{fpIns(1000), fpIns(1010), fpDel(1020)})
		sc.StoreFault = true
		out = append(out, sc)
		sc = one("fault+crash", 1, []fsPack{fpIns(1000), fpDel(1010)})
		sc.DownFault, sc.StoreFault, sc.Crash = true, true, true
		out = append(out, sc)
	}
	// manual pause at any point, then resume
	{
		sc := one("pause", 1, []fsPack{fpIns(1000), fpInsDel(1010), fpDel(1020)})
		sc.Pause = true
		out = append(out, sc)
		sc = one("pause-batch2", 2, []fsPack{fpIns(1000), fpIns(1010), fpDel(1020)})
		sc.Pause = true
		out = append(out, sc)
	}
	// a manual pause of one of two tasks that share a target (the replication entity, its channel manager and the sender
	// goroutines outlive the pause; packs of the paused task may still be in flight), then its resume
	{
		c1 := fsMkColl(101, "c1", "src-dml_0")
		c2 := fsMkColl(102, "c2", "src-dml_1")
		c1.Shards[0].Script = fsTail([]fsPack{fpIns(1000), fpInsDel(1010), fpDel(1020), fpIns(1030)}, 1)
		c2.Shards[0].Script = fsTail([]fsPack{fpIns(1001), fpIns(1011)}, 1)
		out = append(out, &fsScenario{Name: "pause:2tasks-1target", Colls: []*fsColl{c1, c2}, Tasks: []fsTask{{ID: "t0", URI: fsURI, Coll: "c1"}, {ID: "t1", URI: fsURI, Coll: "c2"}}, MaxCount: 1, Pause: true})
	}
	// the same with a source that is ahead of the writer (every pack is delivered as soon as it can be: several packs of
	// the paused task are in flight) and a resume that may come at once, before the stale packs have been taken off
	{
		c1 := fsMkColl(101, "c1", "src-dml_0")
		c2 := fsMkColl(102, "c2", "src-dml_1")
		c1.Shards[0].Script = fsTail([]fsPack{fpIns(1000), fpInsDel(1010), fpDel(1020), fpIns(1030)}, 1)
		c2.Shards[0].Script = fsTail([]fsPack{fpIns(1001)}, 1)
		out = append(out, &fsScenario{Name: "pause:2tasks-1target-eager", Colls: []*fsColl{c1, c2}, Tasks: []fsTask{{ID: "t0", URI: fsURI, Coll: "c1"}, {ID: "t1", URI: fsURI, Coll: "c2"}}, MaxCount: 1, Pause: true, EagerSource: true, EarlyResume: true})
	}
	// a drop replayed: its checkpoints are frozen
	{
		c := fsMkColl(101, "c1", "src-dml_0", "src-dml_1")
		c.Shards[0].Script = []fsPack{fpIns(1000), fpDrop(1050)}
		c.Shards[1].Script = []fsPack{fpDrop(1050)}
		sc := &fsScenario{Name: "crash:drop", Colls: []*fsColl{c}, Tasks: []fsTask{{ID: "t0", URI: fsURI, Coll: "c1"}}, MaxCount: 1, Crash: true, ParkGet: true}
		out = append(out, sc)
	}
	// two tasks on one target
	{
		c1 := fsMkColl(101, "c1", "src-dml_0")
		c2 := fsMkColl(102, "c2", "src-dml_1")
		c1.Shards[0].Script = fsTail([]fsPack{fpIns(1000), fpDel(1010)}, 1)
		c2.Shards[0].Script = fsTail([]fsPack{fpIns(1001), fpIns(1011)}, 1)
		sc := &fsScenario{Name: "crash:2tasks", Colls: []*fsColl{c1, c2}, Tasks: []fsTask{{ID: "t0", URI: fsURI, Coll: "c1"}, {ID: "t1", URI: fsURI, Coll: "c2"}}, MaxCount: 1, Crash: true}
		out = append(out, sc)
	}
	// collections created through the create-collection event: created upstream while the task runs (catalog
	// event), or present upstream but not downstream at task start. The event persists the start positions, then the
	// writer creates the collection downstream, then the streams are read from the start positions.
	for _, late := range []bool{true, false} {
		kind := "late"
		if !late {
			kind = "nodown"
		}
		mk := func(name string) *fsScenario {
			c := fsMkColl(101, "c1", "src-dml_0")
			c.Late, c.NoDown = late, !late
			c.Shards[0].Script = fsTail([]fsPack{fpIns(1000), fpInsDel(1010), fpDel(1020)}, 1)
			return &fsScenario{Name: name, Colls: []*fsColl{c}, Tasks: []fsTask{{ID: "t0", URI: fsURI, Coll: "c1"}}, MaxCount: 1}
		}
		sc := mk("crash:" + kind + "-create")
		sc.Crash = true
		out = append(out, sc)
		sc = mk("fault:" + kind + "-create")
		sc.DDLFault, sc.StoreFault, sc.DownFault = true, true, true
		out = append(out, sc)
		sc = mk("pause:" + kind + "-create")
		sc.Pause = true
		out = append(out, sc)
	}
	{
		// a running collection and a two-shard collection created beside it (one task for both)
		c1 := fsMkColl(101, "c1", "src-dml_0")
		c1.Shards[0].Script = fsTail([]fsPack{fpIns(1000), fpDel(1010)}, 1)
		c2 := fsMkColl(102, "c2", "src-dml_0", "src-dml_1")
		c2.Late = true
		c2.Shards[0].Script = fsTail([]fsPack{fpIns(1001), fpIns(1011)}, 1)
		c2.Shards[1].Script = fsTail([]fsPack{fpIns(1002)}, 1)
		out = append(out, &fsScenario{Name: "crash:late-beside-running", Colls: []*fsColl{c1, c2}, Tasks: []fsTask{{ID: "t0", URI: fsURI, Coll: "*"}}, MaxCount: 1, Crash: true})
	}
	if thorough {
		sc := one("crash:long", 2, []fsPack{fpIns(1000), fpInsDel(1010), fpTick(1020), fpDel(1030), fpIns(1040), fpIns(1050)})
		sc.Crash, sc.MaxCrashes = true, 2
		out = append(out, sc)
	}
	return out
}

// fsGenScripts: every script of 1..maxLen packs over the pack alphabet {ins, del, ins+del, tick-only, ins above the batcher's size threshold} x the distance of
// the pack from the closing tick before it {same millisecond (logical part only), +1 ms, +10 ms}. Hybrid timestamps stay
// legal: data is newer than the tick before it and not newer than its own closing tick.
func fsGenScripts(maxLen int) (names []string, scripts [][]fsPack) {
	return fsGenScriptsOver([]string{"i", "d", "x", "t", "b"}, []int64{0, 1, 10}, 1, maxLen)
}

func fsGenScriptsOver(kinds []string, stepMs []int64, minLen, maxLen int) (names []string, scripts [][]fsPack) {
	type step struct {
		n  string
		ms int64
	}
	var steps []step
	for _, ms := range stepMs {
		n := fmt.Sprintf("+%d", ms)
		if ms == 0 {
			n = "="
		}
		steps = append(steps, step{n, ms})
	}
	var rec func(name string, script []fsPack, ms, lg int64)
	rec = func(name string, script []fsPack, ms, lg int64) {
		if len(script) >= minLen {
			names = append(names, name)
			scripts = append(scripts, append([]fsPack{}, script...))
		}
		if len(script) == maxLen {
			return
		}
		for _, k := range kinds {
			for _, st := range steps {
				if len(script) == 0 && st != steps[0] {
					continue // the first pack has nothing before it
				}
				m, l := ms+st.ms, int64(0)
				if st.ms == 0 {
					l = lg + 1
				}
				var p fsPack
				switch k {
				case "i":
					p = fsPack{Msgs: []fsMsg{{Kind: "ins", Ms: m, Lg: l}}, TickMs: m, TickLg: l + 1}
				case "d":
					p = fsPack{Msgs: []fsMsg{{Kind: "del", Ms: m, Lg: l}}, TickMs: m, TickLg: l + 1}
				case "x":
					p = fsPack{Msgs: []fsMsg{{Kind: "ins", Ms: m, Lg: l}, {Kind: "del", Ms: m, Lg: l + 1}}, TickMs: m, TickLg: l + 2}
				case "t":
					p = fsPack{TickMs: m, TickLg: l}
				case "b": // an insert above the batcher's size threshold
					p = fsPack{Msgs: []fsMsg{{Kind: "bigins", Ms: m, Lg: l}}, TickMs: m, TickLg: l + 1}
				}
				rec(name+k+st.n, append(script, p), p.TickMs, p.TickLg)
			}
		}
	}
	rec("", nil, 1000, 0)
	return
}

// fsC05Generated: the generated family - every script (above) on one stream x batch size x {crash, downstream failure,
// store failure, manual pause} at every visible step (deviation bound 1 inside the family).
func fsC05Generated(thorough bool) []*fsScenario {
	maxLen, counts, one := 3, []int{1, 2, 3}, 1
	if thorough {
		one = 2 // two deviations: repeated failures, a failure and a crash, two crashes
	}
	names, scripts := fsGenScripts(maxLen)
	// longer scripts over {ins, tick-only} (a stream that goes idle after data: only its clock moves) for the larger batch
	// sizes: a batch that holds data followed by several tick-only packs of the same stream
	ln, ls := fsGenScriptsOver([]string{"i", "t"}, []int64{10}, 4, 5)
	nShort := len(scripts)
	names, scripts = append(names, ln...), append(scripts, ls...)
	var out []*fsScenario
	for i, script := range scripts {
		if i >= nShort {
			counts = []int{3, 4}
		}
		data := 0
		for _, p := range script {
			data += len(p.Msgs)
		}
		if data == 0 {
			continue // nothing to lose
		}
		for _, mc := range counts {
			if mc > len(script)+1 {
				continue // the batch never fills: same behaviour as the next smaller size
			}
			if mc == 1 && strings.Contains(names[i], "b") {
				continue // batches of one: the size threshold never decides anything
			}
			for _, mode := range []string{"crash", "down", "store", "pause"} {
				c := fsMkColl(101, "c1", "src-dml_0")
				c.Shards[0].Script = fsTail(append([]fsPack{}, script...), mc)
				sc := &fsScenario{Name: fmt.Sprintf("gen:%s/b%d/%s", names[i], mc, mode), Colls: []*fsColl{c}, Tasks: []fsTask{{ID: "t0", URI: fsURI, Coll: "c1"}}, MaxCount: mc, MaxMsgKB: 1, Bound: &one, Gen: true}
				switch mode {
				case "crash":
					sc.Crash = true
				case "down":
					sc.DownFault = true
				case "store":
					sc.StoreFault = true
				case "pause":
					sc.Pause = true
				}
				out = append(out, sc)
			}
		}
	}
	return out
}

func fsC06Scenarios(thorough bool) []*fsScenario {
	var out []*fsScenario
	layouts := []struct {
		name  string
		tasks []fsTask
	}{
		{"1task", []fsTask{{ID: "t0", URI: fsURI, Coll: "c1"}}},
		{"2tasks-1target", []fsTask{{ID: "t0", URI: fsURI, Coll: "c1"}, {ID: "t1", URI: fsURI, Coll: "c2"}}},
		{"2tasks-2targets", []fsTask{{ID: "t0", URI: fsURI, Coll: "c1"}, {ID: "t1", URI: "milvus-b:19530", Coll: "c2"}}},
	}
	for _, l := range layouts {
		mk := func(class string) *fsScenario {
			c1 := fsMkColl(101, "c1", "src-dml_0")
			c1.Shards[0].Script = fsTail([]fsPack{fpIns(1000), fpInsDel(1010), fpDel(1020)}, 1)
			colls := []*fsColl{c1}
			if len(l.tasks) > 1 {
				c2 := fsMkColl(102, "c2", "src-dml_1")
				c2.Shards[0].Script = fsTail([]fsPack{fpIns(1001), fpIns(1011)}, 1)
				colls = append(colls, c2)
			}
			return &fsScenario{Name: class + "/" + l.name, Colls: colls, Tasks: l.tasks, MaxCount: 1}
		}
		sc := mk("reject-write")
		sc.DownFault = true
		out = append(out, sc)
		// the rejected pack sits in the middle of a batch: later packs of the same stream are already in the batcher's hands
		for _, mc := range []int{2, 3} {
			sc = mk(fmt.Sprintf("reject-write-batch%d", mc))
			sc.MaxCount = mc
			sc.Colls[0].Shards[0].Script = fsTail([]fsPack{fpIns(1000), fpInsDel(1010), fpDel(1020), fpIns(1030)}, mc)
			sc.DownFault = true
			out = append(out, sc)
		}
		sc = mk("reject-write-repeated")
		sc.DownFault, sc.RepeatFault = true, true
		out = append(out, sc)
		sc = mk("reject-checkpoint")
		sc.StoreFault = true
		out = append(out, sc)
		sc = mk("reject-two")
		sc.DownFault, sc.StoreFault, sc.MaxFaults = true, true, 2
		out = append(out, sc)
		// a drop the downstream refuses
		sc = mk("reject-ddl")
		sc.Colls[0].Shards[0].Script = []fsPack{fpIns(1000), fpDrop(1050)}
		sc.DDLFault = true
		out = append(out, sc)
		// the start-up scan of a resumed task fails (downstream lookups of StartReadCollection): the failure happens inside
		// startInternal, before the task is back in its steady state
		sc = mk("start-scan-fails")
		sc.Pause, sc.TargetFault = true, true
		out = append(out, sc)
		// a collection created while the task runs: the downstream refuses the create request / the store refuses the
		// start positions
		sc = mk("reject-create")
		sc.Colls[0].Late = true
		sc.DDLFault = true
		out = append(out, sc)
		sc = mk("reject-start-position")
		sc.Colls[0].Late = true
		sc.StoreFault = true
		out = append(out, sc)
		// the source message queue refuses the connectivity check of a new channel handler at the task's start: the start of
		// that collection fails after the channel manager has registered it
		for n := 1; n <= len(l.tasks); n++ {
			sc = mk(fmt.Sprintf("connectivity-check-fails@%d", n))
			sc.ConnFailAt = n
			out = append(out, sc)
		}
		// a message for a partition the downstream never gets
		sc = mk("unknown-partition")
		sc.Colls[0].UnknownPart = true
		sc.Colls[0].Shards[0].Script = fsTail([]fsPack{fpIns(1000), fpInsPart(1010), fpDel(1020)}, 1)
		out = append(out, sc)
		// the same for a bulk-insert (import) message, whose partition list cannot be mapped
		sc = mk("unknown-partition-import")
		sc.Colls[0].UnknownPart = true
		sc.Colls[0].Shards[0].Script = fsTail([]fsPack{fpIns(1000), {Msgs: []fsMsg{{Kind: "impPart", Ms: 1010}}, TickMs: 1010, TickLg: 1}, fpDel(1020)}, 1)
		out = append(out, sc)
		if len(l.tasks) > 1 {
			// one task's failure (reported more than once: the write path pauses from the sender and from the batch loop, a
			// two-shard collection reports once per shard) followed by the OTHER task's own failure: that one must be
			// turned into a pause of its owner as well - the machinery shared by the tasks of a target (event loop,
			// replication entity, its reference count) survives the first failure as long as a task still uses it
			sc = mk("reject-then-other-fails")
			sc.DownFault = true
			sc.Colls[1].UnknownPart = true
			sc.Colls[1].Shards[0].Script = fsTail([]fsPack{fpIns(1001), fpIns(1011), fpInsPart(1021)}, 1)
			out = append(out, sc)
			sc = mk("two-shard-failure-then-other-fails")
			c1 := fsMkColl(101, "c1", "src-dml_0", "src-dml_2")
			c1.UnknownPart = true
			c1.Shards[0].Script = fsTail([]fsPack{fpIns(1000), fpInsPart(1010)}, 1)
			c1.Shards[1].Script = fsTail([]fsPack{fpInsPart(1005)}, 1)
			sc.Colls[0] = c1
			sc.Colls[1].UnknownPart = true
			sc.Colls[1].Shards[0].Script = fsTail([]fsPack{fpIns(1001), fpIns(1011), fpInsPart(1021)}, 1)
			out = append(out, sc)
		}
	}
	return out
}

// ------------------------------------------------------------------------------------------------
// driver

func fsExplore(t *testing.T, res *ev.Result, prop string, bound int, scs []*fsScenario, budget time.Duration) {
	log.Info("warm up the logger outside the bubble")
	schedQuiet()
	sched.StartWatchdog(120 * time.Second)
	cdcreader.VerifReleaseOutsidePools()
	e := sched.NewExplorer(t, bound)
	e.Horizon = 20 * time.Second
	e.IdleResets = true
	e.StrictCost = true
	e.MaxSteps = 900
	e.Deadline = time.Now().Add(ev.Budget(budget))
	e.OnExec = func(sc *sched.Scenario, choices []int) { fmt.Printf("EXEC %s %v\n", sc.Name, choices) }
	if os.Getenv("VERIF_FREE") != "" {
		e.Free, e.FreeRuns = true, 3
	}
	only := os.Getenv("VERIF_ONLY")
	var wrapped []*sched.Scenario
	var kept []*fsScenario
	for _, sc := range scs {
		if only != "" && !strings.Contains(sc.Name, only) {
			continue
		}
		wrapped = append(wrapped, fsWrap(sc))
		kept = append(kept, sc)
	}
	if p := os.Getenv("VERIF_REPLAY"); p != "" {
		fsReplay(t, res, e, wrapped, p)
		return
	}
	shard, nshard := ev.Shard()
	for i, sc := range wrapped {
		e.Bound = bound
		if kept[i].Bound != nil {
			e.Bound = *kept[i].Bound
		}
		e.Shard, e.NShard = shard, nshard
		if kept[i].Gen {
			// generated families are many small scenarios: whole scenarios are dealt to the shards
			if i%nshard != shard {
				continue
			}
			e.Shard, e.NShard = 0, 1
		}
		e.Explore(sc)
	}
	e.Bound = bound
	res.Evaluations += e.Stats.Executions
	res.States += e.Stats.Executions
	res.Transitions += e.Stats.Executions
	res.Traces += e.Stats.Executions
	res.Nontrivial += int64(len(e.Stats.Nontrivial))
	res.Exhaustive = res.Exhaustive && e.Stats.Exhaustive
	res.Bounds["deviation_bound"] = bound
	res.Bounds["max_depth"] = e.Stats.MaxDepth
	res.Bounds["scenarios"] = len(kept)
	res.Extra["executions_by_deviations"] = fmt.Sprint(e.Stats.ByCost)
	res.Extra["divergent_schedules"] = e.Stats.Divergent
	res.Extra["replay_retries"] = e.Stats.Retries
	res.Extra["step_capped"] = e.Stats.StepCapped
	res.Extra["executions_per_scenario"] = fmt.Sprint(e.Stats.PerScenario)
	if len(e.Stats.DivergeMsgs) > 0 {
		res.Extra["divergence_examples"] = e.Stats.DivergeMsgs
	}
	n := 0
	for k, v := range e.Stats.Outcomes {
		res.Outcomes[k] += v
		if n < 3 {
			res.Sample(map[string]interface{}{"outcome": k, "executions": v})
		}
		n++
	}
	for _, f := range e.Found {
		res.Violate(f.Sig, fmt.Sprintf("scenario %s choices %v (reproduced %d/5)\nschedule: %v\n%s", f.Scenario, f.Choices, f.Reproduced, f.Trace, f.Detail), f)
	}
}

func fsReplay(t *testing.T, res *ev.Result, e *sched.Explorer, scs []*sched.Scenario, path string) {
	var f struct {
		Replay sched.Found `json:"replay"`
	}
	b, _ := os.ReadFile(path)
	if err := jsonUnmarshalS(b, &f); err != nil {
		t.Fatal(err)
	}
	for _, sc := range scs {
		if sc.Name != f.Replay.Scenario {
			continue
		}
		r, ok := e.ReplayOnce(sc, f.Replay.Choices)
		if !ok {
			fmt.Println("REPLAY-DIVERGED")
			return
		}
		for _, v := range r.Violations {
			fmt.Println("REPLAY-VIOLATION", v.Sig, v.Detail)
			res.Violate(v.Sig, v.Detail, f.Replay)
		}
		if len(r.Violations) == 0 {
			fmt.Println("REPLAY-OK", r.Summary)
		}
		return
	}
	fmt.Println("REPLAY: scenario not found", f.Replay.Scenario)
}

func TestVerifC05Resume(t *testing.T) {
	res := ev.New("C05", "resume")
	defer res.Write()
	bound := 2
	if ev.Thorough() {
		bound = 3
	}
	res.Rule = "sched engine over the full stack (real MetaCDC, channel manager, readers, writer, batcher, etcd stores over fakeetcd / fakemq / fakedown): scheduling points = stream delivery (free), the downstream's answer to every replicate and DDL call and every checkpoint write, each with the alternatives proceed | fail | crash before | crash after (each non-default alternative costs one deviation), a manual pause; after a crash a new incarnation is started over the same store, downstream and source logs; paused tasks are resumed at quiescence; every execution ends, if anything is still unacknowledged, with a clean restart; oracle over the event log: a checkpoint write names the end of an acknowledged pack of its own stream with every earlier message of that stream acknowledged, acknowledgements have no gaps, checkpoints marked dropped never change, and after the final restart every source row has been acknowledged at least once"
	fsExplore(t, res, "C05", bound, append(fsC05Scenarios(ev.Thorough()), fsC05Generated(ev.Thorough())...), 150*time.Second)
}

// C03 across pause / resume / restart: the crash, fault and pause scenarios of C05 judged by the time clauses
func TestVerifC03Resume(t *testing.T) {
	res := ev.New("C03", "resume")
	defer res.Write()
	fsKeep = []string{"C03/"}
	bound := 2
	if ev.Thorough() {
		bound = 3
	}
	res.Rule = "full-stack harness of C05 (crash before / after every visible step, write and store failures, manual pause, restart from the persisted checkpoints, skewed streams sharing a downstream channel); oracle over the packs the downstream ACCEPTED on each channel, in order, across all incarnations: closing ticks never decrease, every data message is above every earlier accepted pack's closing tick and not above its own"
	fsExplore(t, res, "C03", bound, append(fsC05Scenarios(ev.Thorough()), fsC05Generated(ev.Thorough())...), 150*time.Second)
}

func TestVerifC11Fullstack(t *testing.T) {
	res := ev.New("C11", "fullstack")
	defer res.Write()
	fsKeep = []string{"C11/"}
	bound := 2
	if ev.Thorough() {
		bound = 3
	}
	res.Rule = "the full-stack failure scenarios of C06 (downstream rejects writes once / repeatedly / twice, store rejects a checkpoint, downstream rejects a drop, unknown partition; 1 task, 2 tasks on one target, 2 tasks on two targets; resume at quiescence, final clean restart) and the crash / pause scenarios of C05 under every schedule within the deviation bound; at every quiescent point the state of every task in memory, in the store, through the list API and in the per-state gauges must be the same"
	fsExplore(t, res, "C11", bound, append(fsC06Scenarios(ev.Thorough()), fsC05Scenarios(ev.Thorough())...), 150*time.Second)
}

// C13 on the full stack: the failure, crash, pause and late-creation scenarios judged by "a Running task has its
// replication started" at every quiescent point (task start = create, resume, restart)
func TestVerifC13Fullstack(t *testing.T) {
	res := ev.New("C13", "fullstack")
	defer res.Write()
	fsKeep = []string{"C13/"}
	bound := 2
	if ev.Thorough() {
		bound = 3
	}
	res.Rule = "the full-stack scenarios of C06 (failure classes x task layouts, including a connectivity check that fails at the task's start, resume at quiescence) and of C05 (crash / pause / collections created through the create-collection event while the task runs) under every schedule within the deviation bound; at every quiescent point every task that is Running in memory and in the store has a live source subscription for every shard of every collection it selects (collections not yet created or already dropped upstream excepted)"
	fsExplore(t, res, "C13", bound, append(fsC06Scenarios(ev.Thorough()), fsC05Scenarios(ev.Thorough())...), 150*time.Second)
}

func TestVerifC06Failure(t *testing.T) {
	res := ev.New("C06", "failure")
	defer res.Write()
	bound := 2
	if ev.Thorough() {
		bound = 3
	}
	res.Rule = "sched engine over the full stack: failure classes = downstream rejects a write (once / until resumed), the store rejects a checkpoint, two failures, the downstream rejects a drop, a message for a partition the downstream never gets; layouts = 1 task, 2 tasks on one target, 2 tasks on two targets; the failure is placed at every visible step (one deviation each); oracle at every quiescent point: the owner of the failure is Paused with a reason in memory, through list and in the store, no other task changed state, no later pack of a failed stream is acknowledged before the failed one, checkpoints stay behind acknowledgements, the process survives (a panic kills the worker), and after resume / clean restart the failed message is delivered"
	fsExplore(t, res, "C06", bound, fsC06Scenarios(ev.Thorough()), 150*time.Second)
}

var _ = context.Background
