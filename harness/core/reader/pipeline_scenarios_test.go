package reader

import (
	"fmt"
	"os"
	"strings"
	"testing"
	"time"

	"github.com/milvus-io/milvus/pkg/util/funcutil"

	"github.com/zilliztech/milvus-cdc/core/log"
	"github.com/zilliztech/milvus-cdc/core/pb"
	"github.com/zilliztech/milvus-cdc/core/verifkit/ev"
	"github.com/zilliztech/milvus-cdc/core/verifkit/sched"
)

// ------------------------------------------------------------------------------------------------
// builders

// mkColl places shard i of the collection on source pchannel srcP[i] and downstream pchannel tgtP[i].
func mkColl(id int64, name string, srcP, tgtP []string) *plColl {
	c := &plColl{ID: id, TgtID: id + 800, Name: name, DB: "default", Parts: map[string]int64{}, TgtParts: map[string]int64{}}
	for i := range srcP {
		c.Shards = append(c.Shards, &plShard{SrcV: fmt.Sprintf("%s_%dv%d", srcP[i], id, i), TgtV: fmt.Sprintf("%s_%dv%d", tgtP[i], id+800, i)})
	}
	return c
}

// kafkaIdentity: with a Kafka downstream the messages keep the source's addressing (collection id, partition ids,
// virtual and physical channels)
func kafkaIdentity(sc *plScenario) *plScenario {
	sc.Kafka = true
	sc.Name = "kafka:" + sc.Name
	for _, c := range sc.Colls {
		c.TgtID = c.ID
		c.TgtParts = map[string]int64{}
		for n, id := range c.Parts {
			c.TgtParts[n] = id
		}
		for _, sh := range c.Shards {
			sh.TgtV = sh.SrcV
		}
	}
	return sc
}

// pack letters
func pkIns(ms int64) plPack {
	return plPack{Msgs: []plMsg{{Kind: "ins", Ms: ms}}, TickMs: ms, TickLg: 5}
}
func pkDel(ms int64) plPack {
	return plPack{Msgs: []plMsg{{Kind: "del", Ms: ms}}, TickMs: ms, TickLg: 5}
}
func pkTick(ms int64) plPack { return plPack{TickMs: ms, TickLg: 5} }
func pkInsDelEq(ms int64) plPack {
	return plPack{Msgs: []plMsg{{Kind: "ins", Ms: ms}, {Kind: "del", Ms: ms}}, TickMs: ms, TickLg: 5}
}
func pkTwoIns(ms int64) plPack {
	return plPack{Msgs: []plMsg{{Kind: "ins", Ms: ms}, {Kind: "ins", Ms: ms}}, TickMs: ms, TickLg: 5}
}

// runs of three and more data messages with one source time (a large insert split into several messages, a delete
// that spans partitions): "equal stays equal" for every member of the run, not only for neighbours
func pkThreeIns(ms int64) plPack {
	return plPack{Msgs: []plMsg{{Kind: "ins", Ms: ms}, {Kind: "ins", Ms: ms}, {Kind: "ins", Ms: ms}}, TickMs: ms, TickLg: 5}
}
func pkEqRuns(ms int64) plPack {
	return plPack{Msgs: []plMsg{{Kind: "del", Ms: ms, Lg: 1}, {Kind: "del", Ms: ms, Lg: 1}, {Kind: "del", Ms: ms, Lg: 1}, {Kind: "ins", Ms: ms, Lg: 1}, {Kind: "ins", Ms: ms, Lg: 2}, {Kind: "ins", Ms: ms, Lg: 2}, {Kind: "ins", Ms: ms, Lg: 2}, {Kind: "del", Ms: ms, Lg: 4}}, TickMs: ms, TickLg: 5}
}
func pkMixedOrder(ms int64) plPack { // later message first: the pack is sorted by the reader
	return plPack{Msgs: []plMsg{{Kind: "ins", Ms: ms, Lg: 3}, {Kind: "del", Ms: ms, Lg: 1}, {Kind: "ins", Ms: ms, Lg: 1}}, TickMs: ms, TickLg: 5}
}
func pkBegin0(ms int64) plPack {
	return plPack{Msgs: []plMsg{{Kind: "ins", Ms: ms}}, TickMs: ms, TickLg: 5, BeginTs0: true}
}
func pkCreatePart(ms int64) plPack {
	return plPack{Msgs: []plMsg{{Kind: "createPart", Ms: ms, Part: "p1"}, {Kind: "ins", Ms: ms, Lg: 1}}, TickMs: ms, TickLg: 5}
}
func pkCreateColl(ms int64) plPack {
	return plPack{Msgs: []plMsg{{Kind: "createColl", Ms: ms}}, TickMs: ms, TickLg: 5}
}
func pkUnsupported(ms int64) plPack {
	return plPack{Msgs: []plMsg{{Kind: "unsupported", Ms: ms}, {Kind: "del", Ms: ms, Lg: 2}}, TickMs: ms, TickLg: 5}
}
func pkInsPart(ms int64) plPack {
	return plPack{Msgs: []plMsg{{Kind: "ins", Ms: ms, Part: "p1"}, {Kind: "del", Ms: ms, Lg: 1, Part: "p1"}}, TickMs: ms, TickLg: 5}
}
func pkDropPart(ms int64) plPack {
	return plPack{Msgs: []plMsg{{Kind: "dropPart", Ms: ms, Part: "p1"}}, TickMs: ms, TickLg: 5}
}
func pkDropColl(ms int64) plPack {
	return plPack{Msgs: []plMsg{{Kind: "dropColl", Ms: ms}}, TickMs: ms, TickLg: 5}
}

// a legal but not time-ordered pack: the drop message comes first, DML with a smaller timestamp after it
func pkUnsortedDropPart(ms int64) plPack {
	return plPack{Msgs: []plMsg{{Kind: "dropPart", Ms: ms, Lg: 3, Part: "p1"}, {Kind: "del", Ms: ms, Lg: 1, Part: "p1"}, {Kind: "ins", Ms: ms, Lg: 2, Part: "p1"}}, TickMs: ms, TickLg: 5}
}
func pkUnsortedDropColl(ms int64) plPack {
	return plPack{Msgs: []plMsg{{Kind: "dropColl", Ms: ms, Lg: 3}, {Kind: "ins", Ms: ms, Lg: 1}, {Kind: "del", Ms: ms, Lg: 2}}, TickMs: ms, TickLg: 5}
}

type plLetter struct {
	name string
	mk   func(ms int64) plPack
	part bool // needs partition p1
	last bool // nothing may follow on this shard
}

var plLetters = []plLetter{
	{"ins", pkIns, false, false}, {"del", pkDel, false, false}, {"ins+del=", pkInsDelEq, false, false}, {"2ins=", pkTwoIns, false, false},
	{"mixed", pkMixedOrder, false, false}, {"tick", pkTick, false, false}, {"begin0", pkBegin0, false, false}, {"createPart", pkCreatePart, false, false},
	{"createColl", pkCreateColl, false, false}, {"unsupported", pkUnsupported, false, false}, {"insPart", pkInsPart, true, false},
	{"dropPart", pkDropPart, true, false}, {"dropColl", pkDropColl, false, true},
	{"unsortedDropPart", pkUnsortedDropPart, true, false}, {"unsortedDropColl", pkUnsortedDropColl, false, true},
	{"3ins=", pkThreeIns, false, false}, {"eqRuns", pkEqRuns, false, false},
}

func withPartition(c *plColl, knownDownstream bool) {
	c.Parts["p1"] = c.ID*10 + 2
	if knownDownstream {
		c.TgtParts["p1"] = c.TgtID*10 + 7
	}
}

// ------------------------------------------------------------------------------------------------
// running a scenario under the explorer with a selection of oracles

type plCheck struct {
	props     string // which oracles: any of "1234"
	synthetic map[string]bool
}

func plWrap(sc *plScenario, chk plCheck) *sched.Scenario {
	return &sched.Scenario{Name: sc.Name, Run: func(t *testing.T, ctl *sched.Ctl) sched.Outcome {
		r := plExecute(t, sc, ctl)
		r.snapMapping() // (the assignment at the end of the execution: the last scheduling point may lie before it)
		a := plAnalyze(r)
		if strings.Contains(chk.props, "1") {
			a.checkC01()
		}
		if strings.Contains(chk.props, "2") {
			a.checkC02()
		}
		if strings.Contains(chk.props, "3") {
			a.checkC03()
		}
		if strings.Contains(chk.props, "4") {
			a.checkC04(chk.synthetic)
		}
		if strings.Contains(chk.props, "D") {
			a.checkDuplicates()
		}
		if strings.Contains(chk.props, "M") {
			a.checkMapping()
		}
		out := sched.Outcome{Summary: plSummary(r), Violations: a.viol}
		if os.Getenv("VERIF_REPLAY") != "" {
			fmt.Println(plDescribe(r))
		}
		// non-trivial: at least two packs of different streams were in flight inside the handler at the same time,
		// or a driver ran between two packs
		out.Nontrivial = plInterleaved(ctl) && len(sc.Colls)+len(sc.Drivers) > 2
		r.teardown()
		return out
	}}
}

// plInterleaved: some decision switched between two different goroutines while the first was inside its conflict window
func plInterleaved(ctl *sched.Ctl) bool {
	lastH := ""
	for _, d := range ctl.Trace {
		l := d.Enabled[d.Chosen]
		if strings.HasPrefix(l, "h:") {
			k := strings.SplitN(l, "@", 2)[0]
			if lastH != "" && lastH != k {
				return true
			}
			lastH = k
		} else if strings.HasPrefix(l, "drv:") && lastH != "" {
			return true
		} else if strings.HasPrefix(l, "stream:") && lastH != "" && d.Costs[d.Chosen] > 0 {
			return true
		}
	}
	return false
}

func plExplore(t *testing.T, res *ev.Result, prop string, bound int, scs []*plScenario, chk plCheck, budget time.Duration) {
	log.Info("warm up the logger outside the bubble")
	schedQuiet()
	sched.StartWatchdog(90 * time.Second)
	VerifReleaseOutsidePools()
	e := sched.NewExplorer(t, bound)
	e.Horizon = 12 * time.Second
	e.MaxSteps = 600
	e.Deadline = time.Now().Add(ev.Budget(budget))
	e.OnExec = func(sc *sched.Scenario, choices []int) { fmt.Printf("EXEC %s %v\n", sc.Name, choices) }
	if os.Getenv("VERIF_FREE") != "" {
		e.Free, e.FreeRuns = true, 3
	}
	var wrapped []*sched.Scenario
	for _, sc := range scs {
		wrapped = append(wrapped, plWrap(sc, chk))
	}
	if p := os.Getenv("VERIF_REPLAY"); p != "" {
		plReplay(t, res, e, wrapped, p)
		return
	}
	shard, nshard := ev.Shard()
	only := os.Getenv("VERIF_ONLY")
	for i, sc := range wrapped {
		if only != "" && !strings.Contains(sc.Name, only) {
			continue
		}
		e.Bound = bound
		e.Shard, e.NShard = 0, 1
		if scs[i].Bound != nil {
			// light scenarios (input-shape families) are dealt to the shards whole
			if !ev.Mine(i) {
				continue
			}
			e.Bound = *scs[i].Bound
		} else {
			// heavy scenarios: every shard runs the root schedule, first-level subtrees are dealt out
			e.Shard, e.NShard = shard, nshard
			if scs[i].HeavyBound > 0 && scs[i].HeavyBound < bound {
				e.Bound = scs[i].HeavyBound
			}
		}
		e.StrictCost = scs[i].Strict
		e.Explore(sc)
	}
	e.Bound, e.StrictCost = bound, false
	plReport(res, e, prop)
	res.Bounds["scenarios"] = len(scs)
}

func plReport(res *ev.Result, e *sched.Explorer, prop string) {
	res.Evaluations += e.Stats.Executions
	res.States += e.Stats.Executions
	res.Transitions += e.Stats.Executions
	res.Traces += e.Stats.Executions
	res.Nontrivial += int64(len(e.Stats.Nontrivial))
	res.Exhaustive = res.Exhaustive && e.Stats.Exhaustive
	res.Bounds["deviation_bound"] = e.Bound
	res.Bounds["max_depth"] = e.Stats.MaxDepth
	res.Extra["executions_by_deviations"] = fmt.Sprint(e.Stats.ByCost)
	res.Extra["divergent_schedules"] = e.Stats.Divergent
	res.Extra["replay_retries"] = e.Stats.Retries
	res.Extra["step_capped"] = e.Stats.StepCapped
	if len(e.Stats.DivergeMsgs) > 0 {
		res.Extra["divergence_examples"] = e.Stats.DivergeMsgs
	}
	heavy := map[string]int64{}
	for k, v := range e.Stats.PerScenario {
		if !strings.HasPrefix(k, "script:") {
			heavy[k] = v
		}
	}
	res.Extra["executions_per_scenario"] = fmt.Sprint(heavy)
	n := 0
	for k, v := range e.Stats.Outcomes {
		res.Outcomes[k] += v
		if n < 3 {
			res.Sample(map[string]interface{}{"outcome": k, "executions": v})
		}
		n++
	}
	for _, f := range e.Found {
		// a violation of a neighbouring property's oracle found in this family is reported too (its signature keeps its own prefix)
		res.Violate(f.Sig, fmt.Sprintf("scenario %s choices %v (reproduced %d/5)\nschedule: %v\n%s", f.Scenario, f.Choices, f.Reproduced, f.Trace, f.Detail), f)
	}
}

func plReplay(t *testing.T, res *ev.Result, e *sched.Explorer, scs []*sched.Scenario, path string) {
	var f struct {
		Replay sched.Found `json:"replay"`
	}
	b, _ := os.ReadFile(path)
	if err := jsonUnmarshalR(b, &f); err != nil {
		t.Fatal(err)
	}
	for _, sc := range scs {
		if sc.Name != f.Replay.Scenario {
			continue
		}
		r, ok := e.ReplayOnce(sc, f.Replay.Choices)
		if !ok {
			fmt.Println("REPLAY-DIVERGED")
			return
		}
		for _, v := range r.Violations {
			fmt.Println("REPLAY-VIOLATION", v.Sig, v.Detail)
			res.Violate(v.Sig, v.Detail, f.Replay)
		}
		if len(r.Violations) == 0 {
			fmt.Println("REPLAY-OK", r.Summary)
		}
		return
	}
	fmt.Println("REPLAY: scenario not found", f.Replay.Scenario)
}

// ------------------------------------------------------------------------------------------------
// scenario families

// single stream, every script of <= n letters
func plScriptScenarios(n int, scriptBound int) []*plScenario {
	var out []*plScenario
	var gen func(cur []int)
	gen = func(cur []int) {
		if len(cur) > 0 {
			c := mkColl(101, "c1", []string{"src-dml_0"}, []string{"tgt-dml_0"})
			needPart := false
			var names []string
			for i, li := range cur {
				l := plLetters[li]
				c.Shards[0].Script = append(c.Shards[0].Script, l.mk(int64(1000+10*i)))
				names = append(names, l.name)
				needPart = needPart || l.part
			}
			sc := &plScenario{Name: "script:" + strings.Join(names, ","), SrcN: 1, TgtN: 1, Colls: []*plColl{c}, Drivers: []plDriver{{Kind: "start", Coll: 0}}, Bound: &scriptBound}
			if needPart {
				withPartition(c, true)
				sc.Drivers = append(sc.Drivers, plDriver{Kind: "addpart", Coll: 0, Part: "p1", PartState: pb.PartitionState_PartitionCreated})
			}
			out = append(out, sc)
		}
		if len(cur) == n || (len(cur) > 0 && plLetters[cur[len(cur)-1]].last) {
			return
		}
		partDropped := false
		for _, li := range cur {
			partDropped = partDropped || plLetters[li].name == "dropPart" || plLetters[li].name == "unsortedDropPart"
		}
		for li := range plLetters {
			if partDropped && plLetters[li].part {
				continue // a source never addresses a partition after dropping it
			}
			gen(append(append([]int{}, cur...), li))
		}
	}
	gen(nil)
	return out
}

// two collections multiplexed on one source pchannel and one downstream pchannel
func plSharedScenario(name string, s1, s2 []plPack, clock int) *plScenario {
	c1 := mkColl(101, "c1", []string{"src-dml_0"}, []string{"tgt-dml_0"})
	c2 := mkColl(102, "c2", []string{"src-dml_0"}, []string{"tgt-dml_0"})
	c1.Shards[0].Script, c2.Shards[0].Script = s1, s2
	return &plScenario{Name: name, SrcN: 1, TgtN: 1, Colls: []*plColl{c1, c2}, Drivers: []plDriver{{Kind: "start", Coll: 0}, {Kind: "start", Coll: 1}}, Clock: clock}
}

// one collection with n shards on n pchannels each
func plShardedScenario(name string, n int, script func(shard int) []plPack) *plScenario {
	var sp, tp []string
	for i := 0; i < n; i++ {
		sp = append(sp, fmt.Sprintf("src-dml_%d", i))
		tp = append(tp, fmt.Sprintf("tgt-dml_%d", i))
	}
	c := mkColl(101, "c1", sp, tp)
	for i, sh := range c.Shards {
		sh.Script = script(i)
	}
	return &plScenario{Name: name, SrcN: n, TgtN: n, Colls: []*plColl{c}, Drivers: []plDriver{{Kind: "start", Coll: 0}}}
}

// ------------------------------------------------------------------------------------------------
// C01

func TestVerifC01Stream(t *testing.T) {
	res := ev.New("C01", "stream")
	defer res.Write()
	n, bound := 2, 2
	if ev.Thorough() {
		n, bound = 3, 3
	}
	sb := 0
	if ev.Thorough() {
		sb = 1
	}
	scs := plScriptScenarios(n, sb)
	scs = append(scs,
		plSharedScenario("shared:2x2", []plPack{pkIns(1000), pkInsDelEq(1010)}, []plPack{pkDel(1001), pkTwoIns(1011)}, 0),
		plSharedScenario("shared:tick-mix", []plPack{pkIns(1000), pkTick(1010), pkDel(1020)}, []plPack{pkTick(1001), pkIns(1011)}, 1),
		plShardedScenario("sharded:2-drop", 2, func(i int) []plPack { return []plPack{pkIns(int64(1000 + i)), pkDropColl(1020)} }),
	)
	scs = append(scs, plPlacementScenarios(ev.Thorough())...)
	// partition registered while messages arrive; downstream learns the partition only through the create event
	{
		c := mkColl(101, "c1", []string{"src-dml_0"}, []string{"tgt-dml_0"})
		withPartition(c, false)
		c.Shards[0].Script = []plPack{pkIns(1000), pkInsPart(1010), pkDropPart(1020), pkDel(1030)}
		scs = append(scs, &plScenario{Name: "partition-race", SrcN: 1, TgtN: 1, Colls: []*plColl{c},
			Drivers: []plDriver{{Kind: "start", Coll: 0}, {Kind: "addpart", Coll: 0, Part: "p1", PartState: pb.PartitionState_PartitionCreated}}})
	}
	// ids are allocated by each cluster on its own: the downstream id of one collection may equal the source id of
	// another one on the same channel (anything that mixes the two id spaces up hits the neighbour)
	{
		sc := plSharedScenario("shared:id-coincidence", []plPack{pkIns(1000), pkDropColl(1020)}, []plPack{pkIns(1001), pkInsDelEq(1030)}, 0)
		sc.Colls[0].TgtID = sc.Colls[1].ID
		sc.Colls[1].TgtID = sc.Colls[1].ID + 1
		for _, c := range sc.Colls {
			for i, sh := range c.Shards {
				sh.TgtV = fmt.Sprintf("%s_%dv%d", funcutil.ToPhysicalChannel(sh.TgtV), c.TgtID, i)
			}
		}
		scs = append(scs, sc)
	}
	// a partition name that is used again: the start-up listing announces the earlier incarnation as dropped (it is gone
	// downstream too), a message of that incarnation is still in the stream, then the partition is created again under a
	// new id - the messages of the new incarnation are not "addressed to a dropped partition"
	{
		c := mkColl(101, "c1", []string{"src-dml_0"}, []string{"tgt-dml_0"})
		withPartition(c, false)
		c.Shards[0].Script = []plPack{{Msgs: []plMsg{{Kind: "ins", Ms: 1000, Part: "p1", Old: true}}, TickMs: 1000, TickLg: 5}, pkIns(1005), pkInsPart(1010), pkDel(1020)}
		scs = append(scs, &plScenario{Name: "partition-recreated", SrcN: 1, TgtN: 1, Colls: []*plColl{c},
			Drivers: []plDriver{{Kind: "start", Coll: 0}, {Kind: "addpart", Coll: 0, Part: "p1", PartState: pb.PartitionState_PartitionDropped, OldPart: true},
				{Kind: "addpart", Coll: 0, Part: "p1", PartState: pb.PartitionState_PartitionCreated}}, HeavyBound: 1})
	}
	// the task starts while a partition drop is in flight: the source catalog already says Dropping, the downstream still
	// has the partition and the drop message (with a delete before it) is still in the backlog - the partition is not
	// "dropped on both sides", its messages are handed over
	{
		c := mkColl(101, "c1", []string{"src-dml_0"}, []string{"tgt-dml_0"})
		withPartition(c, true)
		c.Shards[0].Script = []plPack{pkInsPart(1000), {Msgs: []plMsg{{Kind: "del", Ms: 1010, Part: "p1"}}, TickMs: 1010, TickLg: 5}, pkDropPart(1020), pkIns(1030)}
		scs = append(scs, &plScenario{Name: "partition-dropping-at-start", SrcN: 1, TgtN: 1, Colls: []*plColl{c},
			Drivers: []plDriver{{Kind: "start", Coll: 0}, {Kind: "addpart", Coll: 0, Part: "p1", PartState: pb.PartitionState_PartitionDropping}}})
	}
	// a partition dropped on a two-shard collection: what one shard has already seen of the drop must not change what the
	// other shard hands over before its own drop message
	{
		sc := plShardedScenario("sharded:2-drop-partition", 2, func(i int) []plPack {
			if i == 0 {
				return []plPack{pkInsPart(1000), pkDropPart(1050)}
			}
			return []plPack{pkDropPart(1050), pkIns(1060)}
		})
		withPartition(sc.Colls[0], true)
		sc.Drivers = append(sc.Drivers, plDriver{Kind: "addpart", Coll: 0, Part: "p1", PartState: pb.PartitionState_PartitionCreated})
		sc.HeavyBound = 1
		scs = append(scs, sc)
	}
	// two shards of one collection plus a second collection sharing the first pchannel
	{
		c1 := mkColl(101, "c1", []string{"src-dml_0", "src-dml_1"}, []string{"tgt-dml_0", "tgt-dml_1"})
		c2 := mkColl(102, "c2", []string{"src-dml_0"}, []string{"tgt-dml_0"})
		c1.Shards[0].Script = []plPack{pkIns(1000), pkDel(1010)}
		c1.Shards[1].Script = []plPack{pkTwoIns(1001)}
		c2.Shards[0].Script = []plPack{pkInsDelEq(1002)}
		scs = append(scs, &plScenario{Name: "2colls-3streams", SrcN: 2, TgtN: 2, Colls: []*plColl{c1, c2}, Drivers: []plDriver{{Kind: "start", Coll: 0}, {Kind: "start", Coll: 1}}})
	}
	// Kafka downstream: the channel manager's other start path (no downstream catalog; the source's ids and channels
	// address the messages, partition ids come from the source catalog)
	{
		one := 1
		for _, sc := range plScriptScenarios(1, 0) {
			sc.Bound = &one
			scs = append(scs, kafkaIdentity(sc))
		}
		scs = append(scs,
			kafkaIdentity(plSharedScenario("shared:2x2", []plPack{pkIns(1000), pkInsDelEq(1010)}, []plPack{pkDel(1001), pkTwoIns(1011)}, 0)),
			kafkaIdentity(plShardedScenario("sharded:2-drop", 2, func(i int) []plPack { return []plPack{pkIns(int64(1000 + i)), pkDropColl(1020)} })))
		c := mkColl(101, "c1", []string{"src-dml_0"}, []string{"src-dml_0"})
		withPartition(c, true)
		c.Shards[0].Script = []plPack{pkIns(1000), pkInsPart(1010), pkDropPart(1020), pkDel(1030)}
		scs = append(scs, kafkaIdentity(&plScenario{Name: "partition-race", SrcN: 1, TgtN: 1, Colls: []*plColl{c},
			Drivers: []plDriver{{Kind: "start", Coll: 0}, {Kind: "addpart", Coll: 0, Part: "p1", PartState: pb.PartitionState_PartitionCreated}}}))
		// the partition is created after the collection was started: its id is learned lazily from the source catalog
		c2 := mkColl(101, "c1", []string{"src-dml_0"}, []string{"src-dml_0"})
		withPartition(c2, true)
		c2.Shards[0].Script = []plPack{pkIns(1000), pkInsPart(1010), pkDropPart(1020), pkDel(1030)}
		scs = append(scs, kafkaIdentity(&plScenario{Name: "partition-created-later", SrcN: 1, TgtN: 1, Colls: []*plColl{c2}, PartAppearsOnAnnounce: true,
			Drivers: []plDriver{{Kind: "start", Coll: 0}, {Kind: "addpart", Coll: 0, Part: "p1", PartState: pb.PartitionState_PartitionCreated}}}))
	}
	res.Rule = fmt.Sprintf("sched engine over the real replicateChannelManager fed by fakemq: (a) every single-stream script of <= %d packs over %d pack letters (insert, delete, insert+delete / two inserts at equal time, unsorted mixed pack, tick-only, BeginTs=0, create-partition / create-collection / unsupported messages, named-partition data, drop partition, drop collection), (b) two collections multiplexed on one source and one downstream channel, one collection on two shards ending in a drop, partition registration racing message arrival with the downstream learning the partition through the create event, three streams over two channels, (c) Kafka downstream (the manager's other start path: source ids / channels / partition ids address the messages): every single-letter script, two multiplexed collections, a two-shard drop, a partition race; scheduling points: stream delivery (free), driver start (free), the three verif yield points in handlePack/innerHandleReplicateMsg, the barrier signal; all schedules within the deviation bound; oracle: emitted non-tick messages per stream = source messages minus create/unsupported, in source-time order with deletes first at equal time, payload fingerprints equal, packs in read order with the stream's labels, nothing twice, nothing unread; non-trivial = executions in which two goroutines interleaved inside the handler", n, len(plLetters))
	plExplore(t, res, "C01", bound, scs, plCheck{props: "1"}, 150*time.Second)
}

// ------------------------------------------------------------------------------------------------
// placement families (C02, also run by C01)

func plPlacementScenarios(thorough bool) []*plScenario {
	var out []*plScenario
	data := func(i int) []plPack { return []plPack{pkIns(int64(1000 + i)), pkInsDelEq(int64(1010 + i))} }
	// differently named channels
	{
		c := mkColl(101, "c1", []string{"src-dml_0", "src-dml_1"}, []string{"tgt-x_3", "tgt-y_7"})
		for i, sh := range c.Shards {
			sh.Script = data(i)
		}
		out = append(out, &plScenario{Name: "place:renamed", SrcN: 2, TgtN: 2, Colls: []*plColl{c}, Drivers: []plDriver{{Kind: "start", Coll: 0}}})
	}
	// downstream vchannel names that sort differently from the source's: pairing is by sorted order
	{
		c := mkColl(101, "c1", []string{"src-dml_0", "src-dml_1"}, []string{"tgt-dml_9", "tgt-dml_2"})
		// mkColl pairs by index; the product pairs by sorted order, so describe the shards the way the product will pair them
		c.Shards[0].TgtV, c.Shards[1].TgtV = c.Shards[1].TgtV, c.Shards[0].TgtV
		c.Shards[0].TgtV = fmt.Sprintf("tgt-dml_2_%dv1", c.TgtID)
		c.Shards[1].TgtV = fmt.Sprintf("tgt-dml_9_%dv0", c.TgtID)
		for i, sh := range c.Shards {
			sh.Script = data(i)
		}
		out = append(out, &plScenario{Name: "place:sorted-pairing", SrcN: 2, TgtN: 2, Colls: []*plColl{c}, Drivers: []plDriver{{Kind: "start", Coll: 0}}})
		// the same with the source listing its vchannels in shard-index order that is not name order
		c2 := mkColl(101, "c1", []string{"src-dml_5", "src-dml_3"}, []string{"tgt-dml_0", "tgt-dml_1"})
		c2.Shards[0].TgtV = fmt.Sprintf("tgt-dml_1_%dv0", c2.TgtID) // src-dml_5 sorts second -> pairs with the second downstream name
		c2.Shards[1].TgtV = fmt.Sprintf("tgt-dml_0_%dv1", c2.TgtID)
		for i, sh := range c2.Shards {
			sh.Script = data(i)
		}
		out = append(out, &plScenario{Name: "place:source-unsorted", SrcN: 2, TgtN: 2, Colls: []*plColl{c2}, Drivers: []plDriver{{Kind: "start", Coll: 0}}, MsgPosPChannel: true})
	}
	// physical channel names in a prefix relation (dml_1 / dml_10, as in every deployment with more than ten channels),
	// listed in either shard order: anything that matches channels by substring pairs the wrong shards
	for vi, ord := range [][]int{{10, 1}, {1, 10}} {
		c := mkColl(101, "c1", []string{fmt.Sprintf("src-dml_%d", ord[0]), fmt.Sprintf("src-dml_%d", ord[1])}, []string{fmt.Sprintf("tgt-dml_%d", ord[0]), fmt.Sprintf("tgt-dml_%d", ord[1])})
		for i, sh := range c.Shards {
			sh.Script = data(i)
		}
		out = append(out, &plScenario{Name: fmt.Sprintf("place:prefix-names-%d", vi), SrcN: 2, TgtN: 2, Colls: []*plColl{c}, Drivers: []plDriver{{Kind: "start", Coll: 0}}, MsgPosPChannel: true})
	}
	two := 2
	// two collections with the SAME name in two databases, multiplexed on one source and one downstream channel: ids,
	// partitions and the database named in the events belong to the right one
	{
		c1 := mkColl(101, "a", []string{"src-dml_0"}, []string{"tgt-dml_0"})
		c2 := mkColl(102, "a", []string{"src-dml_0"}, []string{"tgt-dml_0"})
		c2.DB = "db1"
		withPartition(c1, true)
		c1.Shards[0].Script = []plPack{pkIns(1000), pkDel(1010)}
		c2.Shards[0].Script = []plPack{pkDel(1001), pkDropColl(1040)}
		// (the partition of default.a is announced after db1.a has been dropped)
		out = append(out, &plScenario{Name: "place:same-name-two-dbs", SrcN: 1, TgtN: 1, Colls: []*plColl{c1, c2},
			Drivers: []plDriver{{Kind: "start", Coll: 0}, {Kind: "start", Coll: 1},
				{Kind: "addpart", Coll: 0, Part: "p1", PartState: pb.PartitionState_PartitionCreated, AfterDrop: true}}, Strict: true, Bound: &two})
	}
	// two collections whose shards are placed crosswise: the second one is forwarded between handlers
	{
		// c1 pins source channel 0 -> downstream 0 and 1 -> 1; c2 lives on source 0 but downstream 1, c3 on source 1
		// but downstream 0: their packs are read by one handler and forwarded to the other
		c1 := mkColl(101, "c1", []string{"src-dml_0", "src-dml_1"}, []string{"tgt-dml_0", "tgt-dml_1"})
		c2 := mkColl(102, "c2", []string{"src-dml_0"}, []string{"tgt-dml_1"})
		c3 := mkColl(103, "c3", []string{"src-dml_1"}, []string{"tgt-dml_0"})
		c1.Shards[0].Script = []plPack{pkIns(1000)}
		c2.Shards[0].Script = []plPack{pkInsDelEq(1005)}
		c3.Shards[0].Script = []plPack{pkDel(1006)}
		cb := 1
		if thorough {
			cb = 2
		}
		out = append(out, &plScenario{Name: "place:crosswise", SrcN: 2, TgtN: 2, Colls: []*plColl{c1, c2, c3}, Drivers: []plDriver{{Kind: "start", Coll: 0}, {Kind: "start", Coll: 1}, {Kind: "start", Coll: 2}}, HeavyBound: cb, MsgPosPChannel: true})
	}
	// upstream and downstream use the SAME physical channel names (the stock by-dev-rootcoord-dml_N) but place the
	// collections differently: a: dml_0 -> dml_1, b: dml_1 -> dml_0, c: dml_0 -> dml_0 (c is read by a's handler and forwarded)
	{
		mk := func(id int64, name, sp, tp string) *plColl {
			c := &plColl{ID: id, TgtID: id + 800, Name: name, DB: "default", Parts: map[string]int64{}, TgtParts: map[string]int64{}}
			c.Shards = []*plShard{{SrcV: fmt.Sprintf("%s_%dv0", sp, id), TgtV: fmt.Sprintf("%s_%dv0", tp, id+800)}}
			return c
		}
		a, b, c := mk(101, "a", "by-dev-dml_0", "by-dev-dml_1"), mk(102, "b", "by-dev-dml_1", "by-dev-dml_0"), mk(103, "c", "by-dev-dml_0", "by-dev-dml_0")
		a.Shards[0].Script = []plPack{pkIns(1000)}
		b.Shards[0].Script = []plPack{pkDel(1001)}
		c.Shards[0].Script = []plPack{pkInsDelEq(1002), pkIns(1012)}
		cb := 1
		if thorough {
			cb = 2
		}
		out = append(out, &plScenario{Name: "place:same-names", SrcN: 2, TgtN: 2, Colls: []*plColl{a, b, c},
			Drivers: []plDriver{{Kind: "start", Coll: 0}, {Kind: "start", Coll: 1}, {Kind: "start", Coll: 2}}, HeavyBound: cb, MsgPosPChannel: true})
	}
	// downstream partition id is learned only after the create-partition event has been applied
	{
		c := mkColl(101, "c1", []string{"src-dml_0"}, []string{"tgt-dml_0"})
		withPartition(c, false)
		c.Shards[0].Script = []plPack{pkInsPart(1000), pkIns(1010), pkInsPart(1020)}
		out = append(out, &plScenario{Name: "place:lazy-partition", SrcN: 1, TgtN: 1, Colls: []*plColl{c},
			Drivers: []plDriver{{Kind: "start", Coll: 0}, {Kind: "addpart", Coll: 0, Part: "p1", PartState: pb.PartitionState_PartitionCreated}}})
	}
	// the same on a two-shard collection: both handlers learn the partition id lazily, one of them asks the downstream
	// before the partition exists there (what it learns, or fails to learn, must not reach the other shard's messages)
	{
		c := mkColl(101, "c1", []string{"src-dml_0", "src-dml_1"}, []string{"tgt-dml_0", "tgt-dml_1"})
		withPartition(c, false)
		c.Shards[0].Script = []plPack{pkInsPart(1000)}
		c.Shards[1].Script = []plPack{pkInsPart(1001), pkIns(1011)}
		out = append(out, &plScenario{Name: "place:lazy-partition-2-shards", SrcN: 2, TgtN: 2, Colls: []*plColl{c}, DelayPartitionOnTarget: true,
			Drivers: []plDriver{{Kind: "start", Coll: 0}, {Kind: "addpart", Coll: 0, Part: "p1", PartState: pb.PartitionState_PartitionCreated}}, HeavyBound: 1})
	}
	// a partition that is dropped and created again under the same name while the task runs: the messages of the new
	// incarnation carry the id the downstream gave IT (the create request for it has to be issued first)
	{
		c := mkColl(101, "c1", []string{"src-dml_0"}, []string{"tgt-dml_0"})
		withPartition(c, true)
		c.Shards[0].Script = []plPack{pkInsPart(1000), pkDropPart(1010), {Msgs: []plMsg{{Kind: "ins", Ms: 1030, Part: "p1", New: true}}, TickMs: 1030, TickLg: 5}}
		out = append(out, &plScenario{Name: "place:partition-dropped-and-recreated", SrcN: 1, TgtN: 1, Colls: []*plColl{c},
			Drivers: []plDriver{{Kind: "start", Coll: 0}, {Kind: "addpart", Coll: 0, Part: "p1", PartState: pb.PartitionState_PartitionCreated},
				{Kind: "addpart", Coll: 0, Part: "p1", PartState: pb.PartitionState_PartitionCreated, NewPart: true, AfterDrop: true}}, HeavyBound: 1})
	}
	// downstream collection does not exist yet: created through the create-collection event
	{
		c := mkColl(101, "c1", []string{"src-dml_0"}, []string{"tgt-dml_4"})
		c.TgtMissing = true
		c.Shards[0].Script = []plPack{pkIns(1000), pkDel(1010)}
		out = append(out, &plScenario{Name: "place:created-by-event", SrcN: 1, TgtN: 1, Colls: []*plColl{c}, Drivers: []plDriver{{Kind: "start", Coll: 0}}})
	}
	if thorough {
		// more source than downstream channels: two source shards land on one downstream pchannel
		c := mkColl(101, "c1", []string{"src-dml_0", "src-dml_1"}, []string{"tgt-dml_0", "tgt-dml_0"})
		for i, sh := range c.Shards {
			sh.Script = data(i)
		}
		out = append(out, &plScenario{Name: "place:2to1", SrcN: 2, TgtN: 1, Colls: []*plColl{c}, Drivers: []plDriver{{Kind: "start", Coll: 0}}})
		// fewer source than downstream channels: two collections on one source pchannel go to two downstream pchannels
		c1 := mkColl(101, "c1", []string{"src-dml_0"}, []string{"tgt-dml_0"})
		c2 := mkColl(102, "c2", []string{"src-dml_0"}, []string{"tgt-dml_1"})
		c1.Shards[0].Script, c2.Shards[0].Script = data(0), data(1)
		out = append(out, &plScenario{Name: "place:1to2", SrcN: 1, TgtN: 2, Colls: []*plColl{c1, c2}, Drivers: []plDriver{{Kind: "start", Coll: 0}, {Kind: "start", Coll: 1}}})
	}
	return out
}

func TestVerifC02Routing(t *testing.T) {
	res := ev.New("C02", "routing")
	defer res.Write()
	bound := 2
	if ev.Thorough() {
		bound = 3
	}
	scs := plPlacementScenarios(ev.Thorough())
	scs = append(scs, plSharedScenario("shared:2x2", []plPack{pkIns(1000), pkInsDelEq(1010)}, []plPack{pkDel(1001), pkTwoIns(1011)}, 0))
	one := 1
	for _, sc := range plScriptScenarios(1, 0) {
		sc.Bound = &one
		scs = append(scs, sc)
	}
	// Kafka downstream: the addressing is the source's own
	for _, sc := range plScriptScenarios(1, 0) {
		sc.Bound = &one
		scs = append(scs, kafkaIdentity(sc))
	}
	scs = append(scs, kafkaIdentity(plSharedScenario("shared:2x2", []plPack{pkIns(1000), pkInsDelEq(1010)}, []plPack{pkDel(1001), pkTwoIns(1011)}, 0)),
		kafkaIdentity(plShardedScenario("sharded:2", 2, func(i int) []plPack { return []plPack{pkIns(int64(1000 + i)), pkInsDelEq(int64(1010 + i))} })))
	res.Rule = "sched engine over the real channel manager: placements of source/downstream shards onto physical channels {renamed channels, downstream names sorting differently, channel names in a prefix relation (dml_1 / dml_10), two collections placed crosswise (forward path between handlers), downstream partition id learned through the create-partition event, downstream collection created through the create-collection event; thorough: 2:1 and 1:2 channel counts} plus every single-letter script; the single-letter scripts, two multiplexed collections and a two-shard collection also with a Kafka downstream (the source's own ids, partitions and channels address the messages); all start orders and schedules within the deviation bound; oracle per emitted message: downstream collection id, downstream partition id of the same-named partition, downstream vchannel paired by sorted order, arrival on the pchannel hosting that vchannel, every pack/message position naming that channel, source message id kept; non-trivial = executions with interleaving inside the handler"
	plExplore(t, res, "C02", bound, scs, plCheck{props: "12"}, 150*time.Second)
}

// ------------------------------------------------------------------------------------------------
// C16 (manager part): the channel assignment the real channel manager builds while collections are started
// concurrently, observed at every scheduling point through the public methods of util.ChannelMapping

func (a *plAnalysis) checkMapping() {
	r := a.r
	larger, smaller := r.sc.SrcN, r.sc.TgtN
	if larger < smaller {
		larger, smaller = smaller, larger
	}
	quota := 1
	if smaller > 0 {
		quota = (larger + smaller - 1) / smaller
	}
	first := map[string]string{}
	for i, snap := range r.mapSnaps {
		load := map[string]int{}
		for k, v := range snap {
			if strings.Contains(v, "|") {
				a.v("C16/manager/two-images", "at scheduling point %d channel %s is assigned to %s at the same time", i, k, v)
				continue
			}
			if old, ok := first[k]; ok && old != v {
				a.v("C16/manager/assignment-changed", "channel %s was assigned to %s and at scheduling point %d it is assigned to %s", k, old, i, v)
			} else if !ok {
				first[k] = v
			}
			load[v]++
		}
		for k := range first {
			if _, still := snap[k]; !still {
				a.v("C16/manager/assignment-lost", "the assignment of channel %s (to %s) is gone at scheduling point %d", k, first[k], i)
			}
		}
		for v, n := range load {
			if n > quota {
				a.v("C16/manager/overload", "at scheduling point %d channel %s serves %d channels of the other side, quota ceil(%d/%d) = %d", i, v, n, larger, smaller, quota)
			}
		}
	}
	// total: every source channel whose stream was subscribed has an assignment in the end
	if len(r.mapSnaps) > 0 {
		last := r.mapSnaps[len(r.mapSnaps)-1]
		used := map[string]bool{}
		for k, v := range last {
			used[k], used[v] = true, true
		}
		for _, reg := range r.mq.Registers {
			if pc := funcutil.ToPhysicalChannel(reg.VChannel); !used[pc] {
				a.v("C16/manager/unassigned", "source channel %s is read (stream %s) but has no downstream channel assigned: %v", pc, reg.VChannel, last)
			}
		}
	}
}

func TestVerifC16Manager(t *testing.T) {
	res := ev.New("C16", "manager")
	defer res.Write()
	bound := 2
	if ev.Thorough() {
		bound = 3
	}
	var scs []*plScenario
	for _, sc := range plPlacementScenarios(true) {
		if strings.Contains(sc.Name, "lazy-partition") || strings.Contains(sc.Name, "created-by-event") || strings.Contains(sc.Name, "partition-dropped") {
			continue
		}
		sc.WatchMapping = true
		scs = append(scs, sc)
	}
	// three source channels onto two downstream channels and the reverse, collections started concurrently
	{
		c1 := mkColl(101, "c1", []string{"src-dml_0", "src-dml_1"}, []string{"tgt-dml_0", "tgt-dml_1"})
		c2 := mkColl(102, "c2", []string{"src-dml_2"}, []string{"tgt-dml_1"})
		c1.Shards[0].Script, c1.Shards[1].Script, c2.Shards[0].Script = []plPack{pkIns(1000)}, []plPack{pkDel(1001)}, []plPack{pkIns(1002)}
		scs = append(scs, &plScenario{Name: "place:3to2", SrcN: 3, TgtN: 2, Colls: []*plColl{c1, c2}, Drivers: []plDriver{{Kind: "start", Coll: 0}, {Kind: "start", Coll: 1}}, WatchMapping: true, HeavyBound: 2})
		d1 := mkColl(101, "c1", []string{"src-dml_0", "src-dml_1"}, []string{"tgt-dml_0", "tgt-dml_1"})
		d2 := mkColl(102, "c2", []string{"src-dml_1"}, []string{"tgt-dml_2"})
		d1.Shards[0].Script, d1.Shards[1].Script, d2.Shards[0].Script = []plPack{pkIns(1000)}, []plPack{pkDel(1001)}, []plPack{pkIns(1002)}
		scs = append(scs, &plScenario{Name: "place:2to3", SrcN: 2, TgtN: 3, Colls: []*plColl{d1, d2}, Drivers: []plDriver{{Kind: "start", Coll: 0}, {Kind: "start", Coll: 1}}, WatchMapping: true, HeavyBound: 2})
	}
	// six source channels onto three downstream channels (quota 2): one downstream channel with one free place is offered
	// twice (two collections whose source channels are assigned elsewhere) while two new source channels wait for a place
	{
		pl := [][2]string{{"src-dml_1", "tgt-dml_1"}, {"src-dml_2", "tgt-dml_2"}, {"src-dml_3", "tgt-dml_2"}, {"src-dml_2", "tgt-dml_1"}, {"src-dml_3", "tgt-dml_1"}, {"src-dml_4", "tgt-dml_2"}, {"src-dml_5", "tgt-dml_2"}}
		var colls []*plColl
		var drv []plDriver
		for i, p := range pl {
			colls = append(colls, mkColl(int64(101+i), fmt.Sprintf("c%d", i+1), []string{p[0]}, []string{p[1]}))
			drv = append(drv, plDriver{Kind: "start", Coll: i})
		}
		scs = append(scs, &plScenario{Name: "place:6to3-offers", SrcN: 6, TgtN: 3, Colls: colls, Drivers: drv, WatchMapping: true, HeavyBound: 1})
	}
	// a collection whose second shard cannot be started (its connectivity check is refused) after the first one has been
	// assigned, then another collection that offers the same source channel with a different downstream channel: the
	// assignment made for the first shard stays
	for _, cnt := range [][2]int{{2, 2}, {4, 2}} {
		c1 := mkColl(101, "c1", []string{"src-dml_0", "src-dml_1"}, []string{"tgt-dml_0", "tgt-dml_1"})
		c2 := mkColl(102, "c2", []string{"src-dml_0"}, []string{"tgt-dml_1"})
		scs = append(scs, &plScenario{Name: fmt.Sprintf("place:%dto%d-partly-failed-start", cnt[0], cnt[1]), SrcN: cnt[0], TgtN: cnt[1], Colls: []*plColl{c1, c2},
			Drivers: []plDriver{{Kind: "start", Coll: 0}, {Kind: "start", Coll: 1}}, WatchMapping: true, ConnFailAt: 2, HeavyBound: 1})
	}
	// equal counts (3:3): a collection whose downstream channel has no owner yet has a pack forwarded (forwardMsg offers
	// the channel on every retry) before / while two new source channels wait for a channel: still one-to-one
	{
		pl := [][2]string{{"src-dml_0", "tgt-dml_0"}, {"src-dml_0", "tgt-dml_1"}, {"src-dml_1", "tgt-dml_0"}, {"src-dml_2", "tgt-dml_0"}}
		var colls []*plColl
		var drv []plDriver
		for i, p := range pl {
			colls = append(colls, mkColl(int64(101+i), fmt.Sprintf("c%d", i+1), []string{p[0]}, []string{p[1]}))
			drv = append(drv, plDriver{Kind: "start", Coll: i})
		}
		colls[1].Shards[0].Script = []plPack{pkIns(1000)}
		scs = append(scs, &plScenario{Name: "place:3to3-unowned-forward", SrcN: 3, TgtN: 3, Colls: colls, Drivers: drv, WatchMapping: true, HeavyBound: 1, MsgPosPChannel: true})
	}
	res.Rule = "sched engine over the real channel manager (startReadChannel / waitChannel / forwardChannel around util.ChannelMapping): placements {renamed, sorted pairing, crosswise (two collections share a source channel but live on different downstream channels), same names, 2:1, 1:2, 3:2, 2:3 channel counts, 6:3 with a downstream channel offered twice while two source channels wait, 3:3 with a pack forwarded to a downstream channel that has no owner yet, a collection whose second shard fails its connectivity check} with the collections started concurrently; all start orders and schedules within the deviation bound; the connectivity check of a new handler is a scheduling point whenever the manager's channel lock is not held there; the assignment table is read through CheckKeyExist for every channel pair at every scheduling point: one image per key at any time, an image never changes or disappears, no channel serves more than ceil(larger/smaller), every subscribed source channel is assigned; plus the C02 routing oracle on what is emitted"
	plExplore(t, res, "C16", bound, scs, plCheck{props: "2M"}, 150*time.Second)
}

// ------------------------------------------------------------------------------------------------
// C03

func plSkewScenarios(thorough bool) []*plScenario {
	var out []*plScenario
	skews := []int64{0, 1000}
	if thorough {
		skews = []int64{0, 1, 1000, -500}
	}
	for _, sk := range skews {
		s1 := []plPack{pkIns(1000), pkTick(1010)}
		s2 := []plPack{pkInsDelEq(1000 + sk), pkIns(1012 + sk)}
		clock := 0
		if thorough {
			s1 = append(s1, pkDel(1020))
			clock = 1
		}
		sc := plSharedScenario(fmt.Sprintf("skew:%+dms", sk), s1, s2, clock)
		sc.Hooks = "all"
		out = append(out, sc)
	}
	// tick-only streams racing a data stream
	{
		sc := plSharedScenario("skew:ticks-vs-data", []plPack{pkTick(1000), pkTick(1600), pkTick(2200)}, []plPack{pkIns(1001), pkIns(1601)}, 1)
		sc.HeavyBound = 1
		out = append(out, sc)
	}
	// 2:1 again, two collections: the second one is started later (its handler joins a downstream channel whose clock has
	// moved on) from a checkpoint that is older than what the channel has already emitted
	{
		c1 := mkColl(101, "c1", []string{"src-dml_0"}, []string{"tgt-dml_0"})
		c2 := mkColl(102, "c2", []string{"src-dml_1"}, []string{"tgt-dml_0"})
		c1.Shards[0].Script = []plPack{pkIns(1000), pkDel(1020)}
		c2.Shards[0].Script = []plPack{pkIns(995), pkIns(997)} // (older than what c1 has put on the channel by then)
		c2.SeekMs = 990
		out = append(out, &plScenario{Name: "skew:2to1-late-join", SrcN: 2, TgtN: 1, Colls: []*plColl{c1, c2}, Drivers: []plDriver{{Kind: "start", Coll: 0}, {Kind: "start", Coll: 1}}, HeavyBound: 1})
	}
	// two source channels multiplexed onto one downstream channel (2:1), the handlers share the channel clock
	{
		c := mkColl(101, "c1", []string{"src-dml_0", "src-dml_1"}, []string{"tgt-dml_0", "tgt-dml_0"})
		c.Shards[0].Script = []plPack{pkIns(1000), pkDel(1010)}
		c.Shards[1].Script = []plPack{pkTwoIns(1001), pkTick(1011)}
		out = append(out, &plScenario{Name: "skew:2to1", SrcN: 2, TgtN: 1, Colls: []*plColl{c}, Drivers: []plDriver{{Kind: "start", Coll: 0}}, HeavyBound: 1, Clock: 1})
	}
	// stream resumed from a seek position (clock floor initialised from it)
	{
		c1 := mkColl(101, "c1", []string{"src-dml_0"}, []string{"tgt-dml_0"})
		c2 := mkColl(102, "c2", []string{"src-dml_0"}, []string{"tgt-dml_0"})
		c1.SeekMs, c2.SeekMs = 995, 2000 // c2's checkpoint time is ahead of c1's data
		c1.Shards[0].Script = []plPack{pkIns(1000), pkDel(1010)}
		c2.Shards[0].Script = []plPack{pkIns(2001)}
		out = append(out, &plScenario{Name: "skew:seek-floor", SrcN: 1, TgtN: 1, Colls: []*plColl{c1, c2}, Drivers: []plDriver{{Kind: "start", Coll: 0}, {Kind: "start", Coll: 1}}, HeavyBound: 1, Hooks: "all"})
	}
	return out
}

func TestVerifC03Time(t *testing.T) {
	res := ev.New("C03", "time")
	defer res.Write()
	bound := 2
	if ev.Thorough() {
		bound = 3
	}
	scs := plSkewScenarios(ev.Thorough())
	n := 2
	for _, sc := range plScriptScenarios(n, 0) {
		sc.Clock = 1
		scs = append(scs, sc)
	}
	for _, sc := range plPlacementScenarios(false) {
		if strings.Contains(sc.Name, "same-name-two-dbs") {
			// (the yield points are keyed by collection NAME: with two collections of one name the oracle cannot tell which
			// pack was computed first, i.e. cannot attribute a pair to the recorded overtake finding)
			continue
		}
		sc.HeavyBound = 1
		scs = append(scs, sc)
	}
	res.Rule = "sched engine over the real channel manager + TS manager: two collections multiplexed on one source and one downstream channel with clock skew {0,+1ms,+1s,-0.5s} and data/tick-only mixes, tick-only stream racing a data stream, two source channels onto one downstream channel (one collection, and two collections of which the second joins late from an older checkpoint), streams started from seek positions, every single-stream script of <= 2 packs, the placement scenarios; scheduling points: delivery (free), the yield points after begin-ts collection / before the channel lock / between computing and enqueueing a pack, optional clock advance of one tick interval; all schedules within the deviation bound; oracle per downstream channel: packs end with a tick, closing ticks never decrease, every non-tick message is newer than every earlier closing tick and not newer than its own, data packs are self-consistent (pack begin/end, message, row and position timestamps), relative time order per source shard preserved; violating pairs where the later-enqueued pack was computed first are classified C03/overtake; non-trivial = executions with interleaving inside the handler"
	plExplore(t, res, "C03", bound, scs, plCheck{props: "3"}, 150*time.Second)
}

func plDescribe(r *plRun) string {
	s := ""
	for pch, packs := range r.outs {
		s += fmt.Sprintf("== %s\n", pch)
		for i, p := range packs {
			s += fmt.Sprintf("  pack %d coll=%d/%s src=%s begin=%d end=%d endpos=%s@%d\n", i, p.CollectionID, p.CollectionName, p.PChannelName, p.MsgPack.BeginTs, p.MsgPack.EndTs, p.MsgPack.EndPositions[0].MsgID, p.MsgPack.EndPositions[0].Timestamp)
			for _, m := range p.MsgPack.Msgs {
				s += fmt.Sprintf("     %s ts=%d/%d id=%s\n", m.Type(), m.BeginTs(), m.EndTs(), m.Position().GetMsgID())
			}
		}
	}
	for _, e := range r.events {
		s += fmt.Sprintf("event %s ts=%d task=%s err=%v\n", e.EventType, e.ReplicateInfo.GetMsgTimestamp(), e.TaskID, e.Error)
	}
	return s + fmt.Sprintf("computed=%v\n", r.computed)
}

// ------------------------------------------------------------------------------------------------
// C04

func plDropScenarios(thorough bool) ([]*plScenario, map[string]map[string]bool) {
	var out []*plScenario
	synth := map[string]map[string]bool{}
	maxShards := 2
	if thorough {
		maxShards = 3
	}
	for n := 1; n <= maxShards; n++ {
		n := n
		// every shard: data, then the drop message (same timestamp on every shard), shard 0 with an extra data pack before it
		sc := plShardedScenario(fmt.Sprintf("drop:collection/%d-shards", n), n, func(i int) []plPack {
			s := []plPack{pkIns(int64(1000 + i))}
			if i == 0 {
				s = append(s, pkDel(1010))
			}
			return append(s, pkDropColl(1050))
		})
		if n == 3 {
			sc.HeavyBound = 1
		}
		out = append(out, sc)
	}
	// partition drop on a 2-shard collection, partition registration racing the streams
	{
		sc := plShardedScenario("drop:partition/2-shards", 2, func(i int) []plPack {
			if i == 0 {
				return []plPack{pkInsPart(1000), pkDropPart(1050)}
			}
			return []plPack{pkDropPart(1050), pkIns(1060)}
		})
		withPartition(sc.Colls[0], true)
		sc.Drivers = append(sc.Drivers, plDriver{Kind: "addpart", Coll: 0, Part: "p1", PartState: pb.PartitionState_PartitionCreated})
		sc.HeavyBound = 1
		out = append(out, sc)
	}
	// the same with registration itself a scheduling point: only one of two handlers may have recorded the collection yet
	{
		sc := plShardedScenario("drop:partition/register-race", 2, func(i int) []plPack {
			return []plPack{pkDropPart(1050)}
		})
		withPartition(sc.Colls[0], true)
		sc.Drivers = append(sc.Drivers, plDriver{Kind: "addpart", Coll: 0, Part: "p1", PartState: pb.PartitionState_PartitionCreated})
		sc.ParkRegister = true
		sc.HeavyBound = 1
		out = append(out, sc)
	}
	// the same partition is announced twice at the same time (start-up listing and live watch): the two calls may
	// interleave between the per-shard registrations; still exactly one drop request after both shards dropped it
	{
		sc := plShardedScenario("drop:partition/announced-twice", 2, func(i int) []plPack { return []plPack{pkDropPart(1050)} })
		withPartition(sc.Colls[0], true)
		sc.Drivers = append(sc.Drivers, plDriver{Kind: "addpart", Coll: 0, Part: "p1", PartState: pb.PartitionState_PartitionCreated},
			plDriver{Kind: "addpart", Coll: 0, Part: "p1", PartState: pb.PartitionState_PartitionCreated})
		sc.PointInAddPartition = true
		sc.HeavyBound = 2
		out = append(out, sc)
	}
	// stopping a collection never produces a drop request
	{
		sc := plShardedScenario("drop:stop-no-drop", 2, func(i int) []plPack { return []plPack{pkIns(int64(1000 + i)), pkDel(int64(1010 + i))} })
		sc.Drivers = append(sc.Drivers, plDriver{Kind: "stop", Coll: 0})
		out = append(out, sc)
	}
	// stop racing a drop that is half way through the barrier
	{
		sc := plShardedScenario("drop:stop-vs-drop", 2, func(i int) []plPack { return []plPack{pkIns(int64(1000 + i)), pkDropColl(1050)} })
		sc.Drivers = append(sc.Drivers, plDriver{Kind: "stop", Coll: 0})
		sc.HeavyBound = 1
		out = append(out, sc)
	}
	// dropped upstream while CDC was down, still present downstream: one synthetic drop after restart
	{
		c := mkColl(101, "c1", []string{"src-dml_0", "src-dml_1"}, []string{"tgt-dml_0", "tgt-dml_1"})
		c.Dropped, c.SeekMs = true, 990
		out = append(out, &plScenario{Name: "drop:restart-collection", SrcN: 2, TgtN: 2, Colls: []*plColl{c}, Drivers: []plDriver{{Kind: "start", Coll: 0}}})
		synth["drop:restart-collection"] = map[string]bool{"coll/default/c1": true}
	}
	{
		c := mkColl(101, "c1", []string{"src-dml_0", "src-dml_1"}, []string{"tgt-dml_0", "tgt-dml_1"})
		c.SeekMs = 990
		withPartition(c, true)
		for i, sh := range c.Shards {
			sh.Script = []plPack{pkIns(int64(1000 + i))}
		}
		out = append(out, &plScenario{Name: "drop:restart-partition", SrcN: 2, TgtN: 2, Colls: []*plColl{c},
			Drivers: []plDriver{{Kind: "start", Coll: 0}, {Kind: "addpart", Coll: 0, Part: "p1", PartState: pb.PartitionState_PartitionDropped}}})
		synth["drop:restart-partition"] = map[string]bool{"part/default/c1/p1": true}
	}
	// the dropped collection joins a handler that, at that moment, is busy with a pack FORWARDED to it by another handler
	// (c2 is read from src-dml_0 but lives on tgt-dml_1): the synthetic drop waits in the handler's own queue while the
	// forwarded pack is being emitted, and must still go through the handler's own path (barrier signal, one drop request)
	{
		c1 := mkColl(101, "c1", []string{"src-dml_0", "src-dml_1"}, []string{"tgt-dml_0", "tgt-dml_1"})
		c2 := mkColl(102, "c2", []string{"src-dml_0"}, []string{"tgt-dml_1"})
		d := mkColl(103, "d", []string{"src-dml_1"}, []string{"tgt-dml_1"})
		c1.SeekMs = 990
		c1.Shards[0].Script = []plPack{pkIns(1000)}
		c2.Shards[0].Script = []plPack{pkIns(1005)}
		d.Dropped, d.SeekMs = true, 990
		out = append(out, &plScenario{Name: "drop:restart-collection-beside-forwarded", SrcN: 2, TgtN: 2, Colls: []*plColl{c1, c2, d},
			Drivers: []plDriver{{Kind: "start", Coll: 0}, {Kind: "start", Coll: 1}, {Kind: "start", Coll: 2}}, HeavyBound: 1, MsgPosPChannel: true})
		synth["drop:restart-collection-beside-forwarded"] = map[string]bool{"coll/default/d": true}
	}
	// the same for a partition dropped while the task was down: its synthetic drop messages are generated on both
	// handlers of the collection while one of them is emitting a pack forwarded to it
	{
		c1 := mkColl(101, "c1", []string{"src-dml_0", "src-dml_1"}, []string{"tgt-dml_0", "tgt-dml_1"})
		c2 := mkColl(102, "c2", []string{"src-dml_0"}, []string{"tgt-dml_1"})
		c1.SeekMs = 990
		withPartition(c1, true)
		c1.Shards[0].Script = []plPack{pkIns(1000)}
		c2.Shards[0].Script = []plPack{pkIns(1005)}
		out = append(out, &plScenario{Name: "drop:restart-partition-beside-forwarded", SrcN: 2, TgtN: 2, Colls: []*plColl{c1, c2},
			Drivers: []plDriver{{Kind: "start", Coll: 0}, {Kind: "start", Coll: 1, AfterFirst: true},
				{Kind: "addpart", Coll: 0, Part: "p1", PartState: pb.PartitionState_PartitionDropped, AfterFirst: true}}, HeavyBound: 1, MsgPosPChannel: true})
		synth["drop:restart-partition-beside-forwarded"] = map[string]bool{"part/default/c1/p1": true}
	}
	// the dropped collection has no checkpoint of its own (created and dropped while the task was down) and joins the
	// handler of a collection that was resumed from one: the synthetic drop is generated at the handler's position
	{
		c1 := mkColl(101, "c1", []string{"src-dml_0"}, []string{"tgt-dml_0"})
		d := mkColl(103, "d", []string{"src-dml_0"}, []string{"tgt-dml_0"})
		c1.SeekMs = 990
		c1.Shards[0].Script = []plPack{pkIns(1000)}
		d.Dropped = true
		out = append(out, &plScenario{Name: "drop:restart-collection-joins-resumed-handler", SrcN: 1, TgtN: 1, Colls: []*plColl{c1, d},
			Drivers: []plDriver{{Kind: "start", Coll: 0}, {Kind: "start", Coll: 1, AfterFirst: true}}})
		synth["drop:restart-collection-joins-resumed-handler"] = map[string]bool{"coll/default/d": true}
	}
	// the dropped collection has no checkpoint and nothing else is on its channel (it was created downstream through CDC
	// and the process died before the first checkpoint of that collection was written; the reader then starts it without
	// seek positions): recorded finding C04/missing-synthetic-drop/no-checkpoint
	{
		d := mkColl(103, "d", []string{"src-dml_0"}, []string{"tgt-dml_0"})
		d.Dropped = true
		out = append(out, &plScenario{Name: "drop:restart-collection-without-checkpoint", SrcN: 1, TgtN: 1, Colls: []*plColl{d},
			Drivers: []plDriver{{Kind: "start", Coll: 0}}})
		synth["drop:restart-collection-without-checkpoint"] = map[string]bool{"coll/default/d": true}
	}
	// restart from a checkpoint that lies before the drop message of a collection already dropped upstream:
	// every shard sees a synthetic drop AND re-reads the real one; still exactly one request, after all shards
	{
		c := mkColl(101, "c1", []string{"src-dml_0", "src-dml_1"}, []string{"tgt-dml_0", "tgt-dml_1"})
		c.Dropped, c.SeekMs = true, 990
		c.Shards[0].Script = []plPack{pkIns(1000), pkDropColl(1050)}
		c.Shards[1].Script = []plPack{pkDropColl(1050)}
		out = append(out, &plScenario{Name: "drop:restart-replayed-drop", SrcN: 2, TgtN: 2, Colls: []*plColl{c}, Drivers: []plDriver{{Kind: "start", Coll: 0}}, HeavyBound: 1})
		synth["drop:restart-replayed-drop"] = map[string]bool{"coll/default/c1": true}
	}
	// the task is paused and resumed (same channel manager) after the drop has been replayed, while the source catalog
	// still lists the dropped object (its garbage collection has not run) and the downstream either has applied the
	// request or still lists the object (the request is slow): the drop is not requested a second time
	for _, slow := range []bool{false, true} {
		tag := map[bool]string{false: "", true: "/slow-target"}[slow]
		{
			sc := plShardedScenario("drop:partition/pause-resume"+tag, 2, func(i int) []plPack { return []plPack{pkInsPart(int64(1000 + i)), pkDropPart(1050)} })
			withPartition(sc.Colls[0], true)
			sc.Colls[0].SeekMs = 990 // (the first life starts from a checkpoint too: the handlers keep the seek position they were created with)
			sc.Drivers = append(sc.Drivers, plDriver{Kind: "addpart", Coll: 0, Part: "p1", PartState: pb.PartitionState_PartitionCreated},
				plDriver{Kind: "resume", Coll: 0, AfterDrop: true, ResumeSeekMs: 1060, Part: "p1", PartState: pb.PartitionState_PartitionDropped})
			sc.HeavyBound, sc.SlowDropOnTarget = 1, slow
			out = append(out, sc)
		}
		{
			sc := plShardedScenario("drop:collection/pause-resume"+tag, 2, func(i int) []plPack { return []plPack{pkIns(int64(1000 + i)), pkDropColl(1050)} })
			sc.Colls[0].SeekMs = 990
			sc.Drivers = append(sc.Drivers, plDriver{Kind: "resume", Coll: 0, AfterDrop: true, ResumeSeekMs: 1060, ResumeDropped: true})
			sc.HeavyBound, sc.SlowDropOnTarget = 1, slow
			out = append(out, sc)
		}
	}
	// the task is paused and resumed on the same channel manager before anything was read, and the start-up scan of the
	// resume announces the partition while the collection's shards are still being registered again: the barrier of the
	// partition still counts every shard
	{
		sc := plShardedScenario("drop:partition/resume-register-race", 2, func(i int) []plPack { return []plPack{pkDropPart(1050)} })
		withPartition(sc.Colls[0], true)
		sc.Colls[0].SeekMs = 990
		sc.Drivers = append(sc.Drivers, plDriver{Kind: "resume", Coll: 0, ResumeSeekMs: 990, ResumeFromStart: true},
			plDriver{Kind: "addpart", Coll: 0, Part: "p1", PartState: pb.PartitionState_PartitionCreated, AfterStop: true})
		sc.ParkRegister = true
		// (two lives of two streams, three drivers and the retry loops of a partition that is not announced yet: the free
		// arrival orders alone are ~10^5 executions, so this scenario counts every departure from the default order)
		sc.Strict = true
		three := 3
		sc.Bound = &three
		out = append(out, sc)
	}
	// Kafka downstream: drops of a collection and of a partition over two shards, and a collection dropped upstream while
	// CDC was down
	{
		out = append(out, kafkaIdentity(plShardedScenario("drop:collection/2-shards", 2, func(i int) []plPack {
			s := []plPack{pkIns(int64(1000 + i))}
			if i == 0 {
				s = append(s, pkDel(1010))
			}
			return append(s, pkDropColl(1050))
		})))
		sc := plShardedScenario("drop:partition/2-shards", 2, func(i int) []plPack {
			if i == 0 {
				return []plPack{pkInsPart(1000), pkDropPart(1050)}
			}
			return []plPack{pkDropPart(1050), pkIns(1060)}
		})
		withPartition(sc.Colls[0], true)
		sc.Drivers = append(sc.Drivers, plDriver{Kind: "addpart", Coll: 0, Part: "p1", PartState: pb.PartitionState_PartitionCreated})
		sc.HeavyBound = 1
		out = append(out, kafkaIdentity(sc))
		c := mkColl(101, "c1", []string{"src-dml_0", "src-dml_1"}, []string{"src-dml_0", "src-dml_1"})
		c.Dropped, c.SeekMs = true, 990
		out = append(out, kafkaIdentity(&plScenario{Name: "drop:restart-collection", SrcN: 2, TgtN: 2, Colls: []*plColl{c}, Drivers: []plDriver{{Kind: "start", Coll: 0}}}))
		synth["kafka:drop:restart-collection"] = map[string]bool{"coll/default/c1": true}
	}
	// every shard has read the drop, but the event queue is full: the task is paused before the queue takes the request
	// (the pause closes the barrier) and resumed on the same manager while the catalog still lists the collection as
	// dropped and the downstream still has it - the drop is still requested, once
	{
		sc := plShardedScenario("drop:collection/pause-resume/queue-full", 2, func(i int) []plPack { return []plPack{pkIns(int64(1000 + i)), pkDropColl(1050)} })
		sc.Colls[0].SeekMs = 990
		sc.Drivers = append(sc.Drivers, plDriver{Kind: "resume", Coll: 0, AfterBarrier: true, ResumeSeekMs: 1060, ResumeDropped: true})
		sc.SlowEvents, sc.SlowDropOnTarget = true, true
		sc.Strict = true
		one := 1
		sc.Bound = &one
		out = append(out, sc)
		synth["drop:collection/pause-resume/queue-full"] = map[string]bool{"coll/default/c1": true}
	}
	// the same collection is announced a second time (list + watch both report it): no second replication, no second drop
	{
		sc := plShardedScenario("drop:announced-twice", 2, func(i int) []plPack { return []plPack{pkIns(int64(1000 + i)), pkDropColl(1050)} })
		sc.Drivers = append(sc.Drivers, plDriver{Kind: "start", Coll: 0})
		sc.HeavyBound = 1
		out = append(out, sc)
	}
	return out, synth
}

func TestVerifC04Drop(t *testing.T) {
	res := ev.New("C04", "drop")
	defer res.Write()
	bound := 2
	if ev.Thorough() {
		bound = 3
	}
	scs, synth := plDropScenarios(ev.Thorough())
	res.Rule = "sched engine over the real channel manager and barriers: drop of a collection with 1..2 (3 thorough) shards where every shard's script ends with the drop message after differing amounts of data, drop of a partition on a 2-shard collection with partition registration racing the streams (and stream registration itself a scheduling point), stop without drop, stop racing a half-completed drop, restart with the collection / the partition already dropped upstream but present downstream (synthetic drop); all schedules within the deviation bound over delivery, driver start, pack.computed and barrier.signal points; oracle: exactly one drop request per dropped object with the right database / collection / partition / task / message timestamp, issued only after every shard delivered its drop message, none for stop, exactly one after restart; non-trivial = executions with interleaving inside the handler"
	// the synthetic-drop expectation is per scenario
	log.Info("warm up the logger outside the bubble")
	schedQuiet()
	sched.StartWatchdog(90 * time.Second)
	VerifReleaseOutsidePools()
	e := sched.NewExplorer(t, bound)
	e.Horizon = 12 * time.Second
	e.MaxSteps = 600
	e.Deadline = time.Now().Add(ev.Budget(150 * time.Second))
	e.OnExec = func(sc *sched.Scenario, choices []int) { fmt.Printf("EXEC %s %v\n", sc.Name, choices) }
	if os.Getenv("VERIF_FREE") != "" {
		e.Free, e.FreeRuns = true, 3
	}
	var wrapped []*sched.Scenario
	for _, sc := range scs {
		props := "14"
		if sc.Name == "drop:announced-twice" {
			props = "14"
		} else if strings.Contains(sc.Name, "stop") || strings.Contains(sc.Name, "restart") || strings.Contains(sc.Name, "pause-resume") || strings.Contains(sc.Name, "resume-register-race") {
			props = "4" // a stopped stream is cut short by design; a synthetic drop message was never read from the source
		}
		wrapped = append(wrapped, plWrap(sc, plCheck{props: props, synthetic: synth[sc.Name]}))
	}
	if p := os.Getenv("VERIF_REPLAY"); p != "" {
		plReplay(t, res, e, wrapped, p)
		return
	}
	shard, nshard := ev.Shard()
	only := os.Getenv("VERIF_ONLY")
	for i, sc := range wrapped {
		if only != "" && !strings.Contains(sc.Name, only) {
			continue
		}
		e.Bound = bound
		if scs[i].HeavyBound > 0 && scs[i].HeavyBound < bound {
			e.Bound = scs[i].HeavyBound
		}
		if scs[i].Bound != nil {
			e.Bound = *scs[i].Bound
		}
		e.StrictCost = scs[i].Strict
		e.Shard, e.NShard = shard, nshard
		e.Explore(sc)
	}
	e.Bound, e.StrictCost = bound, false
	plReport(res, e, "C04")
	res.Bounds["scenarios"] = len(scs)
}

// ------------------------------------------------------------------------------------------------
// C13 (duplicate notifications at the real channel manager)

// checkDuplicates: being notified twice about the same collection / partition has no further effect: every source
// vchannel is subscribed once, no notification ends in an error (an error pauses the task), and (through the C01 / C04
// oracles run with it) nothing is emitted twice and a drop is requested once.
func (a *plAnalysis) checkDuplicates() {
	r := a.r
	n := map[string]int{}
	for _, reg := range r.mq.Registers {
		n[reg.VChannel]++
	}
	for v, c := range n {
		if c > 1 {
			a.v("C13/dup/subscribed-twice", "source vchannel %s was subscribed %d times although its collection was announced more than once for the same incarnation", v, c)
		}
	}
	for _, v := range r.mq.DupRegisters {
		a.v("C13/dup/subscribed-twice", "a second subscription of source vchannel %s was attempted while the first was live: its collection was started twice", v)
	}
	for name, err := range r.driverErr {
		if err != nil && (strings.HasPrefix(name, "start:") || strings.HasPrefix(name, "addpart:")) {
			a.v("C13/dup/notification-failed/"+strings.SplitN(name, ":", 2)[0], "notification %s ended in an error (the reader reports it and the task is paused): %v", name, err)
		}
	}
	for name, done := range r.driverDone {
		_ = done
		_ = name
	}
	for i, d := range r.sc.Drivers {
		name := fmt.Sprintf("%s:%s%s#%d", d.Kind, r.sc.Colls[d.Coll].Name, d.Part, i)
		if !r.driverDone[name] {
			a.v("C13/dup/notification-stuck/"+d.Kind, "notification %s never returned", name)
		}
	}
}

func plDuplicateScenarios(thorough bool) []*plScenario {
	var out []*plScenario
	for _, shards := range []int{1, 2} {
		shards := shards
		// the same collection announced twice (start-up listing and live watch), the two calls interleaving at the
		// downstream lookups; data, then a drop
		sc := plShardedScenario(fmt.Sprintf("dup:collection/%d-shards", shards), shards, func(i int) []plPack {
			return []plPack{pkIns(int64(1000 + i)), pkDropColl(1050)}
		})
		sc.Drivers = append(sc.Drivers, plDriver{Kind: "start", Coll: 0})
		sc.ParkTargetInStart = true
		if shards == 2 {
			sc.HeavyBound = 1
		}
		out = append(out, sc)
	}
	{
		// announced twice, data only
		sc := plShardedScenario("dup:collection/data", 1, func(i int) []plPack { return []plPack{pkIns(1000), pkDel(1010)} })
		sc.Drivers = append(sc.Drivers, plDriver{Kind: "start", Coll: 0})
		sc.ParkTargetInStart = true
		out = append(out, sc)
	}
	{
		// a collection the downstream does not have yet: both notifications may send the create event
		sc := plShardedScenario("dup:collection/created-by-event", 1, func(i int) []plPack { return []plPack{pkIns(1000)} })
		sc.Colls[0].TgtMissing = true
		sc.Drivers = append(sc.Drivers, plDriver{Kind: "start", Coll: 0})
		sc.ParkTargetInStart = true
		out = append(out, sc)
	}
	{
		// partition announced twice (as in the C04 family), judged for subscriptions and errors as well
		sc := plShardedScenario("dup:partition", 2, func(i int) []plPack { return []plPack{pkDropPart(1050)} })
		withPartition(sc.Colls[0], true)
		sc.Drivers = append(sc.Drivers, plDriver{Kind: "addpart", Coll: 0, Part: "p1", PartState: pb.PartitionState_PartitionCreated},
			plDriver{Kind: "addpart", Coll: 0, Part: "p1", PartState: pb.PartitionState_PartitionCreated})
		sc.PointInAddPartition = true
		sc.HeavyBound = 1
		out = append(out, sc)
	}
	if thorough {
		sc := plShardedScenario("dup:collection/3-times", 1, func(i int) []plPack { return []plPack{pkIns(1000), pkDropColl(1050)} })
		sc.Drivers = append(sc.Drivers, plDriver{Kind: "start", Coll: 0}, plDriver{Kind: "start", Coll: 0})
		sc.ParkTargetInStart = true
		sc.HeavyBound = 2
		out = append(out, sc)
	}
	return out
}

func TestVerifC13Duplicates(t *testing.T) {
	res := ev.New("C13", "duplicates")
	defer res.Write()
	bound := 2
	if ev.Thorough() {
		bound = 3
	}
	res.Rule = "sched engine over the real replicateChannelManager fed by fakemq: the same collection (1 or 2 shards, present downstream or created through the event) and the same partition announced two (thorough: three) times by concurrent StartReadCollection / AddPartition calls; scheduling points: the calls themselves, every downstream lookup inside StartReadCollection (the check-then-act window of the duplicate handling), the dropped-collection probes inside AddPartition, stream delivery, pack.computed, barrier.signal; all schedules within the deviation bound; oracle: every source vchannel subscribed once, no notification returns an error or hangs, nothing emitted twice / missing (C01 oracle), exactly one drop request (C04 oracle)"
	plExplore(t, res, "C13", bound, plDuplicateScenarios(ev.Thorough()), plCheck{props: "14D"}, 150*time.Second)
}
