// Package fakesql is an in-memory database/sql driver that understands exactly the statement shapes the
// MySQL metadata stores of milvus-cdc issue:
//
//	CREATE TABLE IF NOT EXISTS t (...)
//	INSERT INTO t (c1, c2, ...) VALUES (?, ?, ...) ON DUPLICATE KEY UPDATE cK = ?, ...   (primary key = first column)
//	SELECT c... FROM t WHERE k LIKE '<pattern>' [AND c = ?]...      (LIKE with % and _ , backslash escape)
//	SELECT c... FROM t WHERE c = ? [AND c = ?]...
//	DELETE FROM t WHERE c = ? [AND c = ?]...
//	BEGIN / COMMIT / ROLLBACK (statements of a transaction are applied atomically at COMMIT)
//
// String comparison is binary (MySQL's default collations are case-insensitive: deliberately not
// modelled, so a check built on this fake demands less, never more). Any other SQL is an error that the
// harness reports as a harness error, never as a pass.
package fakesql

import (
	"database/sql"
	"database/sql/driver"
	"fmt"
	"io"
	"regexp"
	"sort"
	"strings"
	"sync"
)

type row map[string]interface{}

type table struct {
	pk   string
	rows map[string]row // by primary key value
}

type DB struct {
	mu     sync.Mutex
	tables map[string]*table
	// Fault, when set, is called before every statement execution / commit with (kind, sql); a non-nil
	// error is returned to the caller instead of executing.
	Fault func(kind, sql string) error
	Stmts []string // log of executed statements
}

var (
	regMu sync.Mutex
	regN  int
)

// Open registers a fresh in-memory database under a unique driver name and opens it.
func Open() (*sql.DB, *DB) {
	regMu.Lock()
	regN++
	name := fmt.Sprintf("verifsql%d", regN)
	regMu.Unlock()
	d := &DB{tables: map[string]*table{}}
	sql.Register(name, &drv{d})
	db, err := sql.Open(name, "")
	if err != nil {
		panic(err)
	}
	db.SetMaxOpenConns(4) // a pool, as in production: a statement that is not bound to the transaction runs on another connection
	return db, d
}

// Dump returns every row of every table as "table|pk|col=val;..." lines (sorted).
func (d *DB) Dump() []string {
	d.mu.Lock()
	defer d.mu.Unlock()
	var out []string
	for tn, t := range d.tables {
		for pk, r := range t.rows {
			var cols []string
			for c, v := range r {
				cols = append(cols, fmt.Sprintf("%s=%v", c, v))
			}
			sort.Strings(cols)
			out = append(out, fmt.Sprintf("%s|%s|%s", tn, pk, strings.Join(cols, ";")))
		}
	}
	sort.Strings(out)
	return out
}

type drv struct{ d *DB }

func (x *drv) Open(name string) (driver.Conn, error) { return &conn{d: x.d}, nil }

type conn struct {
	d       *DB
	inTx    bool
	pending []func()
}

func (c *conn) Prepare(q string) (driver.Stmt, error) { return &stmt{c: c, q: q}, nil }
func (c *conn) Close() error                          { return nil }
func (c *conn) Begin() (driver.Tx, error) {
	if c.d.Fault != nil {
		if err := c.d.Fault("begin", "BEGIN"); err != nil {
			return nil, err
		}
	}
	c.inTx = true
	c.pending = nil
	return &tx{c}, nil
}

type tx struct{ c *conn }

func (t *tx) Commit() error {
	defer func() { t.c.inTx, t.c.pending = false, nil }()
	if t.c.d.Fault != nil {
		if err := t.c.d.Fault("commit", "COMMIT"); err != nil {
			return err
		}
	}
	t.c.d.mu.Lock()
	for _, f := range t.c.pending {
		f()
	}
	t.c.d.mu.Unlock()
	return nil
}

func (t *tx) Rollback() error {
	t.c.inTx, t.c.pending = false, nil
	return nil
}

type stmt struct {
	c *conn
	q string
}

func (s *stmt) Close() error  { return nil }
func (s *stmt) NumInput() int { return -1 }

var (
	reCreate = regexp.MustCompile(`(?is)^\s*CREATE TABLE IF NOT EXISTS (\w+)\s*\((.*)\)\s*$`)
	reInsert = regexp.MustCompile(`(?is)^\s*INSERT INTO (\w+)\s*\(([^)]*)\)\s*VALUES\s*\(([^)]*)\)\s*ON DUPLICATE KEY UPDATE\s+(.*)$`)
	reSelect = regexp.MustCompile(`(?is)^\s*SELECT (.*?) FROM (\w+) WHERE (.*)$`)
	reDelete = regexp.MustCompile(`(?is)^\s*DELETE FROM (\w+) WHERE (.*)$`)
	reLike   = regexp.MustCompile(`(?is)^(\w+) LIKE '(.*)'$`)
	reEq     = regexp.MustCompile(`(?is)^(\w+) = \?$`)
)

type cond struct {
	col  string
	like string
	eq   bool
	arg  interface{}
}

func parseWhere(w string, args []driver.Value) ([]cond, error) {
	var out []cond
	ai := 0
	for _, part := range regexp.MustCompile(`(?i)\s+AND\s+`).Split(strings.TrimSpace(w), -1) {
		part = strings.TrimSpace(part)
		if m := reLike.FindStringSubmatch(part); m != nil {
			out = append(out, cond{col: m[1], like: m[2]})
			continue
		}
		if m := reEq.FindStringSubmatch(part); m != nil {
			if ai >= len(args) {
				return nil, fmt.Errorf("fakesql: missing argument for %q", part)
			}
			out = append(out, cond{col: m[1], eq: true, arg: args[ai]})
			ai++
			continue
		}
		return nil, fmt.Errorf("fakesql: unsupported predicate %q", part)
	}
	return out, nil
}

// likeMatch implements SQL LIKE: % any sequence, _ any single character, backslash escapes the next character.
func likeMatch(pat, s string) bool {
	p, t := []rune(pat), []rune(s)
	var rec func(i, j int) bool
	rec = func(i, j int) bool {
		for i < len(p) {
			switch p[i] {
			case '%':
				for k := j; k <= len(t); k++ {
					if rec(i+1, k) {
						return true
					}
				}
				return false
			case '_':
				if j >= len(t) {
					return false
				}
				i, j = i+1, j+1
			case '\\':
				if i+1 < len(p) {
					i++
				}
				fallthrough
			default:
				if j >= len(t) || t[j] != p[i] {
					return false
				}
				i, j = i+1, j+1
			}
		}
		return j == len(t)
	}
	return rec(0, 0)
}

func valEq(a, b interface{}) bool { return fmt.Sprint(a) == fmt.Sprint(b) }

func (t *table) match(conds []cond) []string {
	var pks []string
	for pk, r := range t.rows {
		ok := true
		for _, c := range conds {
			v, has := r[c.col]
			if !has {
				ok = false
				break
			}
			if c.eq {
				ok = ok && valEq(v, c.arg)
			} else {
				ok = ok && likeMatch(c.like, fmt.Sprint(v))
			}
		}
		if ok {
			pks = append(pks, pk)
		}
	}
	sort.Strings(pks)
	return pks
}

func splitCols(s string) []string {
	var out []string
	for _, c := range strings.Split(s, ",") {
		out = append(out, strings.TrimSpace(c))
	}
	return out
}

func (s *stmt) Exec(args []driver.Value) (driver.Result, error) {
	d := s.c.d
	if d.Fault != nil {
		if err := d.Fault("exec", s.q); err != nil {
			return nil, err
		}
	}
	d.mu.Lock()
	d.Stmts = append(d.Stmts, s.q)
	d.mu.Unlock()
	if m := reCreate.FindStringSubmatch(s.q); m != nil {
		d.mu.Lock()
		defer d.mu.Unlock()
		if _, ok := d.tables[m[1]]; !ok {
			first := strings.Fields(strings.TrimSpace(m[2]))[0]
			d.tables[m[1]] = &table{pk: first, rows: map[string]row{}}
		}
		return driver.RowsAffected(0), nil
	}
	var apply func()
	if m := reInsert.FindStringSubmatch(s.q); m != nil {
		cols := splitCols(m[2])
		if len(splitCols(m[3])) != len(cols) {
			return nil, fmt.Errorf("fakesql: column/value count mismatch in %q", s.q)
		}
		var upd []string
		for _, u := range splitCols(m[4]) {
			mm := reEq.FindStringSubmatch(u)
			if mm == nil {
				return nil, fmt.Errorf("fakesql: unsupported update clause %q", u)
			}
			upd = append(upd, mm[1])
		}
		if len(args) != len(cols)+len(upd) {
			return nil, fmt.Errorf("fakesql: %d arguments for %d placeholders in %q", len(args), len(cols)+len(upd), s.q)
		}
		a := append([]driver.Value{}, args...)
		tn := m[1]
		apply = func() {
			t := d.tables[tn]
			pk := fmt.Sprint(a[0])
			if r, ok := t.rows[pk]; ok {
				for i, c := range upd {
					r[c] = a[len(cols)+i]
				}
			} else {
				r := row{}
				for i, c := range cols {
					r[c] = a[i]
				}
				t.rows[pk] = r
			}
		}
	} else if m := reDelete.FindStringSubmatch(s.q); m != nil {
		conds, err := parseWhere(m[2], args)
		if err != nil {
			return nil, err
		}
		tn := m[1]
		apply = func() {
			t := d.tables[tn]
			for _, pk := range t.match(conds) {
				delete(t.rows, pk)
			}
		}
	} else {
		return nil, fmt.Errorf("fakesql: unsupported statement %q", s.q)
	}
	d.mu.Lock()
	if _, ok := d.tables[tableOf(s.q)]; !ok {
		d.mu.Unlock()
		return nil, fmt.Errorf("fakesql: table of %q does not exist", s.q)
	}
	d.mu.Unlock()
	if s.c.inTx {
		s.c.pending = append(s.c.pending, apply)
		return driver.RowsAffected(1), nil
	}
	d.mu.Lock()
	apply()
	d.mu.Unlock()
	return driver.RowsAffected(1), nil
}

func tableOf(q string) string {
	if m := reInsert.FindStringSubmatch(q); m != nil {
		return m[1]
	}
	if m := reDelete.FindStringSubmatch(q); m != nil {
		return m[1]
	}
	if m := reSelect.FindStringSubmatch(q); m != nil {
		return m[2]
	}
	return ""
}

func (s *stmt) Query(args []driver.Value) (driver.Rows, error) {
	d := s.c.d
	if d.Fault != nil {
		if err := d.Fault("query", s.q); err != nil {
			return nil, err
		}
	}
	m := reSelect.FindStringSubmatch(s.q)
	if m == nil {
		return nil, fmt.Errorf("fakesql: unsupported query %q", s.q)
	}
	cols := splitCols(m[1])
	conds, err := parseWhere(m[3], args)
	if err != nil {
		return nil, err
	}
	d.mu.Lock()
	defer d.mu.Unlock()
	d.Stmts = append(d.Stmts, s.q)
	t, ok := d.tables[m[2]]
	if !ok {
		return nil, fmt.Errorf("fakesql: table %s does not exist", m[2])
	}
	res := &rows{cols: cols}
	for _, pk := range t.match(conds) {
		var vals []driver.Value
		for _, c := range cols {
			vals = append(vals, t.rows[pk][c])
		}
		res.data = append(res.data, vals)
	}
	return res, nil
}

type rows struct {
	cols []string
	data [][]driver.Value
	i    int
}

func (r *rows) Columns() []string { return r.cols }
func (r *rows) Close() error      { return nil }
func (r *rows) Next(dest []driver.Value) error {
	if r.i >= len(r.data) {
		return io.EOF
	}
	copy(dest, r.data[r.i])
	r.i++
	return nil
}
