package writer

// C07 (concurrency): 2-3 concurrent HandleReplicateMessage calls on different channels through the
// real ChannelWriter + replicate message manager; every interleaving of the callers and of the
// per-channel sender goroutines at the downstream call, with an injected downstream error, explored
// by the sched engine. Each caller must get its own checkpoint / its own error.

import (
	"context"
	"fmt"
	"os"
	"strings"
	"testing"
	"time"

	"google.golang.org/protobuf/proto"
	"github.com/milvus-io/milvus/pkg/mq/msgstream"

	"github.com/zilliztech/milvus-cdc/core/api"
	"github.com/zilliztech/milvus-cdc/core/log"
	"github.com/zilliztech/milvus-cdc/core/verifkit/ev"
	"github.com/zilliztech/milvus-cdc/core/verifkit/sched"
)

type c07Call struct {
	cp, tp []byte
	err    error
	done   bool
}

func c07SchedScenario(nCallers int, channels []string) *sched.Scenario {
	name := fmt.Sprintf("callers=%d channels=%v", nCallers, channels)
	return &sched.Scenario{Name: name, Run: func(t *testing.T, ctl *sched.Ctl) sched.Outcome {
		fd := &fakeDown{}
		failed := map[string]bool{}
		pristine := map[string][]msgstream.TsMsg{}
		var byteViol []sched.Violation
		// what the downstream reads: the request may be serialized as soon as the call is made (gate) or as late as just
		// before it answers (a pooled client that has to be dialled first, a retry of the RPC) - the bytes must decode to
		// the caller's own pack at both moments
		readBytes := func(when string, rp *api.ReplicateMessageParam) {
			if msg := c07DecodesTo(rp, pristine[rp.ChannelName]); msg != "" {
				byteViol = append(byteViol, sched.Violation{Sig: "C07/sched/foreign-bytes/" + when, Detail: fmt.Sprintf("downstream call on %s, read %s: %s", rp.ChannelName, when, msg)})
			}
		}
		fd.gate = func(kind string, p interface{}) { readBytes("at-call", p.(*api.ReplicateMessageParam)) }
		fd.answer = func(kind string, p interface{}) error {
			rp := p.(*api.ReplicateMessageParam)
			// scheduling + fault point: the sender goroutine of this channel is about to get the downstream's answer
			alt := ctl.Choose("down:"+rp.ChannelName, "answer", false, 2, 1)
			readBytes("before-answer", rp)
			if alt == 1 {
				failed[fmt.Sprintf("%s/%d", rp.ChannelName, rp.EndTs)] = true
				return c07ErrDown
			}
			return nil
		}
		w, _ := newVerifWriter(fd, "", nil)
		calls := make([]*c07Call, nCallers)
		packs := make([]*msgstream.MsgPack, nCallers)
		for i := 0; i < nCallers; i++ {
			i := i
			calls[i] = &c07Call{}
			ts := uint64(7000 + i)
			packs[i] = dmlPack(ts, buildDML("Insert", opVals{DB: "db1", Coll: "a", Part: "p", TS: ts}, i+1), buildDML("TimeTick", opVals{TS: ts}, 0))
			ch := channels[i]
			pristine[ch] = []msgstream.TsMsg{buildDML("Insert", opVals{DB: "db1", Coll: "a", Part: "p", TS: ts}, i+1), buildDML("TimeTick", opVals{TS: ts}, 0)}
			for _, p := range packs[i].EndPositions {
				p.ChannelName = ch
			}
			go func() {
				ctl.Point(fmt.Sprintf("caller%d", i), "start", true)
				c := calls[i]
				c.cp, c.tp, c.err = w.HandleReplicateMessage(context.Background(), ch, packs[i])
				c.done = true
			}()
		}
		ctl.Loop(func() bool {
			for _, c := range calls {
				if !c.done {
					return false
				}
			}
			return true
		})
		var out sched.Outcome
		out.Violations = append(out.Violations, byteViol...)
		var sum []string
		for i, c := range calls {
			key := fmt.Sprintf("%s/%d", channels[i], packs[i].EndTs)
			switch {
			case !c.done:
				out.Violations = append(out.Violations, sched.Violation{Sig: "C07/sched/stuck", Detail: fmt.Sprintf("caller %d never returned", i)})
			case failed[key]:
				if c.err == nil {
					out.Violations = append(out.Violations, sched.Violation{Sig: "C07/sched/error-lost", Detail: fmt.Sprintf("caller %d: downstream rejected its pack but it got checkpoint %q and no error", i, c.cp)})
				}
				sum = append(sum, "E")
			default:
				want := string(packs[i].EndPositions[len(packs[i].EndPositions)-1].MsgID)
				if c.err != nil {
					out.Violations = append(out.Violations, sched.Violation{Sig: "C07/sched/foreign-error", Detail: fmt.Sprintf("caller %d: downstream accepted its pack but it got error %v", i, c.err)})
				} else if string(c.cp) != want || string(c.tp) != fmt.Sprintf("tgt:%s:%d", channels[i], packs[i].EndTs) {
					out.Violations = append(out.Violations, sched.Violation{Sig: "C07/sched/foreign-answer", Detail: fmt.Sprintf("caller %d: got checkpoint %q / target %q, its own pack ends at %q on %s", i, c.cp, c.tp, want, channels[i])})
				}
				sum = append(sum, "ok")
			}
		}
		// every pack reached the downstream exactly once, on its own channel
		seen := map[string]int{}
		for _, c := range fd.calls {
			rp := c.Param.(*api.ReplicateMessageParam)
			seen[fmt.Sprintf("%s/%d", rp.ChannelName, rp.EndTs)]++
		}
		for i := range calls {
			key := fmt.Sprintf("%s/%d", channels[i], packs[i].EndTs)
			if seen[key] != 1 {
				out.Violations = append(out.Violations, sched.Violation{Sig: "C07/sched/send-count", Detail: fmt.Sprintf("pack of caller %d reached the downstream %d times (calls %v)", i, seen[key], seen)})
			}
		}
		order := ""
		for _, c := range fd.calls {
			order += c.Param.(*api.ReplicateMessageParam).ChannelName + ">"
		}
		out.Summary = strings.Join(sum, ",") + " order=" + order
		out.Nontrivial = len(fd.calls) >= 2
		return out
	}}
}

// c07CancelScenario: one caller hands two packs of ONE channel over, one after the other; the context of the first call
// may be cancelled while the call is in flight (a caller that gives up), the downstream may reject either pack. Whatever
// the first call returns, the second call is told the outcome of its own pack.
func c07CancelScenario() *sched.Scenario {
	return &sched.Scenario{Name: "same-channel,first-call-cancelled", Run: func(t *testing.T, ctl *sched.Ctl) sched.Outcome {
		fd := &fakeDown{}
		failed := map[uint64]bool{}
		fd.answer = func(kind string, p interface{}) error {
			rp := p.(*api.ReplicateMessageParam)
			if ctl.Choose("down:"+rp.ChannelName, "answer", false, 2, 1) == 1 {
				failed[rp.EndTs] = true
				return c07ErrDown
			}
			return nil
		}
		w, _ := newVerifWriter(fd, "", nil)
		mk := func(i int) *msgstream.MsgPack {
			ts := uint64(7000 + i)
			p := dmlPack(ts, buildDML("Insert", opVals{DB: "db1", Coll: "a", Part: "p", TS: ts}, i+1), buildDML("TimeTick", opVals{TS: ts}, 0))
			for _, ep := range p.EndPositions {
				ep.ChannelName = "chA"
			}
			return p
		}
		packs := []*msgstream.MsgPack{mk(0), mk(1)}
		calls := []*c07Call{{}, {}}
		ctx1, cancel1 := context.WithCancel(context.Background())
		cancelled, inFirst := false, false
		go func() {
			ctl.Point("caller", "start", true)
			inFirst = true
			calls[0].cp, calls[0].tp, calls[0].err = w.HandleReplicateMessage(ctx1, "chA", packs[0])
			inFirst = false
			calls[0].done = true
			ctl.Point("caller", "second", true)
			calls[1].cp, calls[1].tp, calls[1].err = w.HandleReplicateMessage(context.Background(), "chA", packs[1])
			calls[1].done = true
		}()
		ctl.Actions = func() []sched.Action {
			if cancelled || !inFirst {
				return nil
			}
			return []sched.Action{{Label: "cancel-first-call", Cost: 1, Do: func() { cancelled = true; cancel1() }}}
		}
		ctl.Loop(func() bool { return calls[0].done && calls[1].done })
		var out sched.Outcome
		for i, c := range calls {
			ts := packs[i].EndTs
			switch {
			case !c.done:
				out.Violations = append(out.Violations, sched.Violation{Sig: "C07/sched/stuck", Detail: fmt.Sprintf("call %d never returned", i)})
			case i == 0 && cancelled && c.err != nil && !failed[ts]:
				// a cancelled call may report the cancellation
			case failed[ts] && c.err == nil:
				out.Violations = append(out.Violations, sched.Violation{Sig: "C07/sched/error-lost", Detail: fmt.Sprintf("call %d: the downstream rejected its pack but it returned checkpoint %q and no error (first call cancelled: %v)", i, c.cp, cancelled)})
			case !failed[ts] && c.err != nil:
				out.Violations = append(out.Violations, sched.Violation{Sig: "C07/sched/foreign-error", Detail: fmt.Sprintf("call %d: the downstream accepted its pack but it returned error %v (first call cancelled: %v)", i, c.err, cancelled)})
			case !failed[ts] && string(c.cp) != string(packs[i].EndPositions[len(packs[i].EndPositions)-1].MsgID):
				out.Violations = append(out.Violations, sched.Violation{Sig: "C07/sched/foreign-answer", Detail: fmt.Sprintf("call %d returned checkpoint %q, its pack ends at %q", i, c.cp, packs[i].EndPositions[len(packs[i].EndPositions)-1].MsgID)})
			}
		}
		out.Summary = fmt.Sprintf("cancelled=%v failed=%v errs=[%v %v]", cancelled, len(failed), calls[0].err != nil, calls[1].err != nil)
		out.Nontrivial = cancelled || len(failed) > 0
		return out
	}}
}

func TestVerifC07Sched(t *testing.T) {
	res := ev.New("C07", "sched")
	defer res.Write()
	log.Info("warm up the logger outside the bubble")
	schedQuiet()
	sched.StartWatchdog(60 * time.Second)
	bound := 2
	if ev.Thorough() {
		bound = 3
	}
	scs := []*sched.Scenario{
		c07SchedScenario(2, []string{"chA", "chB"}),
		c07SchedScenario(3, []string{"chA", "chB", "chC"}),
		c07CancelScenario(),
	}
	e := sched.NewExplorer(t, bound)
	e.Shard, e.NShard = ev.Shard()
	e.Deadline = time.Now().Add(ev.Budget(120 * time.Second))
	if p := os.Getenv("VERIF_REPLAY"); p != "" {
		schedReplay(t, res, e, scs, p)
		return
	}
	for _, sc := range scs {
		e.Explore(sc)
	}
	schedReport(res, e, "C07")
	res.Rule = "sched engine: 2 and 3 concurrent HandleReplicateMessage callers on distinct channels; scheduling points = caller start (free) and the downstream answer of each channel's sender goroutine (2 alternatives: ok | error, the error costs one deviation); all schedules within the deviation bound; oracle per execution: every caller gets its own checkpoint or its own error, every pack reaches the downstream exactly once; plus one caller handing two packs of one channel over in sequence, the context of the first call cancelled at any point while it is in flight (the second call must be told the outcome of its own pack); non-trivial = executions in which at least two downstream calls happened"
}

// c07DecodesTo decodes the serialized messages of a downstream call the way the proxy does and compares them with the
// (pristine copies of the) messages of the pack that was handed to the writer for that channel.
func c07DecodesTo(rp *api.ReplicateMessageParam, want []msgstream.TsMsg) string {
	if len(rp.MsgsBytes) != len(want) {
		return fmt.Sprintf("%d serialized messages, the pack has %d", len(rp.MsgsBytes), len(want))
	}
	for i, b := range rp.MsgsBytes {
		got, err := decodeLikeProxy(b)
		if err != nil {
			return fmt.Sprintf("message %d is undecodable: %v", i, err)
		}
		if got.Type() != want[i].Type() {
			return fmt.Sprintf("message %d decodes to %v, the pack has %v", i, got.Type(), want[i].Type())
		}
		if !proto.Equal(c07Req(got), c07Req(want[i])) {
			return fmt.Sprintf("message %d decodes to %v, the pack message is %v", i, c07Req(got), c07Req(want[i]))
		}
	}
	return ""
}
