// Package fakedown models the downstream Milvus as milvus-cdc sees it: api.DataHandler (every call is
// recorded with its parameter; replicated message bytes are decoded with Milvus' own unmarshal
// dispatcher, exactly as the proxy does, and remembered as acknowledged) and api.TargetAPI (collection /
// partition ids and channels of a small downstream catalog that DDL calls update).
package fakedown

import (
	"context"
	"encoding/base64"
	"fmt"
	"sort"
	"sync"

	"github.com/cockroachdb/errors"
	"github.com/milvus-io/milvus-proto/go-api/v2/commonpb"
	"github.com/milvus-io/milvus/pkg/mq/msgstream"
	"google.golang.org/protobuf/proto"

	"github.com/zilliztech/milvus-cdc/core/api"
	"github.com/zilliztech/milvus-cdc/core/model"
)

type Call struct {
	Seq   int
	Kind  string
	Param interface{}
	Err   error
}

// AckedMsg is one message of an acknowledged ReplicateMessage call.
type AckedMsg struct {
	Seq     int    // sequence number of the call
	Channel string // downstream pchannel
	Type    commonpb.MsgType
	ID      string // source message id (position MsgID is not serialised; identity comes from the request base MsgID / row ids) - see Key
	Key     string // identity key derived from the decoded request
	Ts      uint64
	Msg     msgstream.TsMsg
}

type AckedPack struct {
	Seq      int
	Channel  string
	BeginTs  uint64
	EndTs    uint64
	EndMsgID string
	Msgs     []AckedMsg
}

type Coll struct {
	ID         int64
	DB, Name   string
	VChannels  []string
	Partitions map[string]int64
}

type Down struct {
	mu       sync.Mutex
	seq      int
	Calls    []Call
	Acked    []AckedPack
	colls    map[string]*Coll // db/name
	dbs      map[string]bool
	nextID   int64
	PChannels []string // downstream physical channels; shard i of a new collection goes to PChannels[i % n]
	// Answer decides the downstream's answer to a call (nil = accept). It runs before the call takes effect.
	Answer func(kind string, param interface{}) error
	// Gate is called first (scheduling hook), outside the lock.
	Gate func(kind string, param interface{})
}

func New(pchannels []string) *Down {
	return &Down{colls: map[string]*Coll{}, dbs: map[string]bool{"default": true}, nextID: 9000, PChannels: pchannels}
}

func key(db, name string) string {
	if db == "" {
		db = "default"
	}
	return db + "/" + name
}

var dispatcher = (&msgstream.ProtoUDFactory{}).NewUnmarshalDispatcher()

// Decode decodes one serialized message like the Milvus proxy: header -> type -> dispatcher.
func Decode(b []byte) (msgstream.TsMsg, error) {
	h := &commonpb.MsgHeader{}
	if err := proto.Unmarshal(b, h); err != nil {
		return nil, err
	}
	if h.GetBase() == nil {
		return nil, fmt.Errorf("no base in header")
	}
	return dispatcher.Unmarshal(b, h.GetBase().GetMsgType())
}

func (d *Down) do(kind string, p interface{}, apply func()) error {
	if d.Gate != nil {
		d.Gate(kind, p)
	}
	var err error
	if d.Answer != nil {
		err = d.Answer(kind, p)
	}
	d.mu.Lock()
	d.seq++
	d.Calls = append(d.Calls, Call{Seq: d.seq, Kind: kind, Param: p, Err: err})
	if err == nil && apply != nil {
		apply()
	}
	d.mu.Unlock()
	return err
}

// AddCollection installs a downstream collection (pre-existing state).
func (d *Down) AddCollection(db, name string, shards int, parts ...string) *Coll {
	d.mu.Lock()
	defer d.mu.Unlock()
	return d.addLocked(db, name, shards, parts...)
}

func (d *Down) addLocked(db, name string, shards int, parts ...string) *Coll {
	if db == "" {
		db = "default"
	}
	d.nextID++
	c := &Coll{ID: d.nextID, DB: db, Name: name, Partitions: map[string]int64{}}
	for i := 0; i < shards; i++ {
		c.VChannels = append(c.VChannels, fmt.Sprintf("%s_%dv%d", d.PChannels[i%len(d.PChannels)], c.ID, i))
	}
	d.nextID++
	c.Partitions["_default"] = d.nextID
	for _, p := range parts {
		d.nextID++
		c.Partitions[p] = d.nextID
	}
	d.colls[key(db, name)] = c
	d.dbs[db] = true
	return c
}

// AddCollectionOn installs a downstream collection whose shard i lives on the given physical channel.
func (d *Down) AddCollectionOn(db, name string, pchannels []string, parts ...string) *Coll {
	d.mu.Lock()
	defer d.mu.Unlock()
	saved := d.PChannels
	d.PChannels = pchannels
	c := d.addLocked(db, name, len(pchannels), parts...)
	d.PChannels = saved
	return c
}

func (d *Down) Collection(db, name string) *Coll {
	d.mu.Lock()
	defer d.mu.Unlock()
	c := d.colls[key(db, name)]
	if c == nil {
		return nil
	}
	cp := *c
	cp.Partitions = map[string]int64{}
	for k, v := range c.Partitions {
		cp.Partitions[k] = v
	}
	return &cp
}

func (d *Down) Kinds() []string {
	d.mu.Lock()
	defer d.mu.Unlock()
	var out []string
	for _, c := range d.Calls {
		out = append(out, c.Kind)
	}
	return out
}

func (d *Down) Snapshot() ([]Call, []AckedPack) {
	d.mu.Lock()
	defer d.mu.Unlock()
	return append([]Call{}, d.Calls...), append([]AckedPack{}, d.Acked...)
}

// ---- api.DataHandler --------------------------------------------------------------------------

func (d *Down) CreateCollection(ctx context.Context, p *api.CreateCollectionParam) error {
	return d.do("CreateCollection", p, func() {
		if _, ok := d.colls[key(p.Database, p.Schema.CollectionName)]; !ok {
			d.addLocked(p.Database, p.Schema.CollectionName, int(p.ShardsNum))
		}
	})
}
func (d *Down) DropCollection(ctx context.Context, p *api.DropCollectionParam) error {
	return d.do("DropCollection", p, func() { delete(d.colls, key(p.Database, p.CollectionName)) })
}
func (d *Down) CreatePartition(ctx context.Context, p *api.CreatePartitionParam) error {
	return d.do("CreatePartition", p, func() {
		if c := d.colls[key(p.Database, p.CollectionName)]; c != nil {
			if _, ok := c.Partitions[p.PartitionName]; !ok {
				d.nextID++
				c.Partitions[p.PartitionName] = d.nextID
			}
		}
	})
}
func (d *Down) DropPartition(ctx context.Context, p *api.DropPartitionParam) error {
	return d.do("DropPartition", p, func() {
		if c := d.colls[key(p.Database, p.CollectionName)]; c != nil {
			delete(c.Partitions, p.PartitionName)
		}
	})
}
func (d *Down) Insert(ctx context.Context, p *api.InsertParam) error { return d.do("Insert", p, nil) }
func (d *Down) Delete(ctx context.Context, p *api.DeleteParam) error { return d.do("Delete", p, nil) }
func (d *Down) Flush(ctx context.Context, p *api.FlushParam) error   { return d.do("Flush", p, nil) }
func (d *Down) LoadCollection(ctx context.Context, p *api.LoadCollectionParam) error {
	return d.do("LoadCollection", p, nil)
}
func (d *Down) ReleaseCollection(ctx context.Context, p *api.ReleaseCollectionParam) error {
	return d.do("ReleaseCollection", p, nil)
}
func (d *Down) LoadPartitions(ctx context.Context, p *api.LoadPartitionsParam) error {
	return d.do("LoadPartitions", p, nil)
}
func (d *Down) ReleasePartitions(ctx context.Context, p *api.ReleasePartitionsParam) error {
	return d.do("ReleasePartitions", p, nil)
}
func (d *Down) CreateIndex(ctx context.Context, p *api.CreateIndexParam) error {
	return d.do("CreateIndex", p, nil)
}
func (d *Down) DropIndex(ctx context.Context, p *api.DropIndexParam) error {
	return d.do("DropIndex", p, nil)
}
func (d *Down) AlterIndex(ctx context.Context, p *api.AlterIndexParam) error {
	return d.do("AlterIndex", p, nil)
}
func (d *Down) CreateDatabase(ctx context.Context, p *api.CreateDatabaseParam) error {
	return d.do("CreateDatabase", p, func() { d.dbs[p.GetDbName()] = true })
}
func (d *Down) DropDatabase(ctx context.Context, p *api.DropDatabaseParam) error {
	return d.do("DropDatabase", p, func() { delete(d.dbs, p.GetDbName()) })
}
func (d *Down) AlterDatabase(ctx context.Context, p *api.AlterDatabaseParam) error {
	return d.do("AlterDatabase", p, nil)
}
func (d *Down) ReplicateMessage(ctx context.Context, p *api.ReplicateMessageParam) error {
	return d.do("ReplicateMessage", p, func() {
		ap := AckedPack{Seq: d.seq, Channel: p.ChannelName, BeginTs: p.BeginTs, EndTs: p.EndTs}
		if n := len(p.EndPositions); n > 0 {
			ap.EndMsgID = string(p.EndPositions[n-1].MsgID)
		}
		for _, b := range p.MsgsBytes {
			m, err := Decode(b)
			if err != nil {
				ap.Msgs = append(ap.Msgs, AckedMsg{Seq: d.seq, Channel: p.ChannelName, Key: "undecodable:" + err.Error()})
				continue
			}
			ap.Msgs = append(ap.Msgs, AckedMsg{Seq: d.seq, Channel: p.ChannelName, Type: m.Type(), Key: MsgKey(m), Ts: m.EndTs(), Msg: m})
		}
		d.Acked = append(d.Acked, ap)
		p.TargetMsgPosition = base64.StdEncoding.EncodeToString([]byte(fmt.Sprintf("tgt:%s:%d", p.ChannelName, p.EndTs)))
	})
}

// MsgKey derives a stable identity from a decoded message (positions are not serialised, so the
// identity must come from the request itself: the base MsgID the source assigned).
func MsgKey(m msgstream.TsMsg) string {
	type based interface{ GetBase() *commonpb.MsgBase }
	if b, ok := m.(based); ok && b.GetBase() != nil {
		return fmt.Sprintf("%s#%d", m.Type(), b.GetBase().GetMsgID())
	}
	return m.Type().String()
}

func (d *Down) DescribeCollection(ctx context.Context, p *api.DescribeCollectionParam) error {
	return d.do("DescribeCollection", p, nil)
}
func (d *Down) DescribeDatabase(ctx context.Context, p *api.DescribeDatabaseParam) error {
	return d.do("DescribeDatabase", p, nil)
}
func (d *Down) DescribePartition(ctx context.Context, p *api.DescribePartitionParam) error {
	return d.do("DescribePartition", p, nil)
}
func (d *Down) CreateUser(ctx context.Context, p *api.CreateUserParam) error {
	return d.do("CreateUser", p, nil)
}
func (d *Down) DeleteUser(ctx context.Context, p *api.DeleteUserParam) error {
	return d.do("DeleteUser", p, nil)
}
func (d *Down) UpdateUser(ctx context.Context, p *api.UpdateUserParam) error {
	return d.do("UpdateUser", p, nil)
}
func (d *Down) CreateRole(ctx context.Context, p *api.CreateRoleParam) error {
	return d.do("CreateRole", p, nil)
}
func (d *Down) DropRole(ctx context.Context, p *api.DropRoleParam) error {
	return d.do("DropRole", p, nil)
}
func (d *Down) OperateUserRole(ctx context.Context, p *api.OperateUserRoleParam) error {
	return d.do("OperateUserRole", p, nil)
}
func (d *Down) OperatePrivilege(ctx context.Context, p *api.OperatePrivilegeParam) error {
	return d.do("OperatePrivilege", p, nil)
}

var _ api.DataHandler = (*Down)(nil)

// ---- api.TargetAPI ----------------------------------------------------------------------------

type Target struct{ D *Down }

func (t Target) GetCollectionInfo(ctx context.Context, name, db string) (*model.CollectionInfo, error) {
	c := t.D.Collection(db, name)
	if c == nil {
		return nil, errors.Newf("collection not found[collection=%s]", name)
	}
	ci := &model.CollectionInfo{DatabaseName: c.DB, CollectionID: c.ID, CollectionName: c.Name, Partitions: c.Partitions}
	ci.VChannels = append(ci.VChannels, c.VChannels...)
	sort.Strings(ci.VChannels)
	return ci, nil
}

func (t Target) GetPartitionInfo(ctx context.Context, name, db string) (*model.CollectionInfo, error) {
	return t.GetCollectionInfo(ctx, name, db)
}

func (t Target) GetDatabaseName(ctx context.Context, coll, db string) (string, error) {
	return db, nil
}

var _ api.TargetAPI = Target{}
