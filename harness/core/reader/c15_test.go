package reader

// C15: the start-up snapshot of dropped objects. Catalogs are generated from histories of legal
// root-coord operations (BFS, deduplicated on catalog content), written to fakeetcd and read by the
// real EtcdOp.GetAllDroppedObj; the result is compared with an expectation computed from the model.

import (
	"context"
	"fmt"
	"os"
	"sort"
	"strings"
	"testing"
	"time"

	"github.com/zilliztech/milvus-cdc/core/model"
	"github.com/zilliztech/milvus-cdc/core/util"
	"github.com/zilliztech/milvus-cdc/core/verifkit/ev"
	"github.com/zilliztech/milvus-cdc/core/verifkit/fakeetcd"
)

// fake downstream: where does a collection name live downstream (for databases gone upstream)
type c15Target struct{ down map[string]string }

func (t *c15Target) GetCollectionInfo(ctx context.Context, c, d string) (*model.CollectionInfo, error) {
	return nil, fmt.Errorf("unused")
}
func (t *c15Target) GetPartitionInfo(ctx context.Context, c, d string) (*model.CollectionInfo, error) {
	return nil, fmt.Errorf("unused")
}
func (t *c15Target) GetDatabaseName(ctx context.Context, coll, db string) (string, error) {
	if !IsDroppedObject(db) {
		return db, nil
	}
	if d, ok := t.down[coll]; ok {
		return d, nil
	}
	return "", util.NotFoundDatabase
}

type c15Expect struct {
	// key -> constraint
	exact map[string]uint64 // value must equal
	below map[string]uint64 // value must be < bound
	floor map[string]uint64 // and >= floor
}

// c15Reference computes, per kind, the expected entries from the catalog model.
func c15Reference(c *catalog, withTarget bool, down map[string]string) map[string]*c15Expect {
	tt := c.NowTT()
	out := map[string]*c15Expect{}
	for _, k := range []string{util.DroppedDatabaseKey, util.DroppedCollectionKey, util.DroppedPartitionKey} {
		out[k] = &c15Expect{exact: map[string]uint64{}, below: map[string]uint64{}, floor: map[string]uint64{}}
	}
	// the downstream name of the database a collection incarnation belongs to ("" = not resolvable -> ignored)
	dbNameOf := func(x *catColl) string {
		d := c.Db(x.DB)
		if d.State == "live" {
			return d.Name
		}
		if !withTarget {
			return TomeObject
		}
		if dn, ok := down[x.Name]; ok {
			_, dk := util.GetDBInfoKeys(dn)
			out[util.DroppedDatabaseKey].exact[dk] = tt - 1 // database gone upstream, still present downstream
			return dn
		}
		return ""
	}
	type grp struct {
		droppedFloor uint64
		hasDropped   bool
		liveCreate   uint64
		hasLive      bool
	}
	cg := map[string]*grp{}
	collName := map[int64]string{}
	collDB := map[int64]string{}
	for _, x := range c.Colls {
		if x.State == "tombstone" {
			continue
		}
		dn := dbNameOf(x)
		collName[x.ID] = x.Name
		collDB[x.ID] = dn
		if dn == "" {
			continue
		}
		_, dk := util.GetCollectionInfoKeys(x.Name, dn)
		g := cg[dk]
		if g == nil {
			g = &grp{}
			cg[dk] = g
		}
		switch x.State {
		case "created", "creating":
			g.hasLive, g.liveCreate = true, x.CreateTs
		case "dropping", "dropped":
			g.hasDropped = true
			if x.CreateTs > g.droppedFloor {
				g.droppedFloor = x.CreateTs
			}
		}
	}
	fill := func(kind string, groups map[string]*grp, liveIsLive bool) {
		for k, g := range groups {
			if !g.hasDropped {
				continue
			}
			// "a newer live incarnation": the live namesake must have been created after the dropped one
			if g.hasLive && g.liveCreate > g.droppedFloor {
				out[kind].below[k] = g.liveCreate
				out[kind].floor[k] = g.droppedFloor
			} else if g.hasLive && liveIsLive {
				// a live collection that took the name over by a rename (it keeps its own, older creation time): it is the
				// holder of the name now and "operations on live objects are never skipped because of the snapshot", so the
				// horizon has to stay below its creation time (nothing of the dropped namesake can be skipped then)
				out[kind].below[k] = g.liveCreate
			} else {
				out[kind].exact[k] = tt - 1
			}
		}
	}
	fill(util.DroppedCollectionKey, cg, true)
	pg := map[string]*grp{}
	for _, p := range c.Parts {
		if p.State == "tombstone" {
			continue
		}
		cn, ok := collName[p.Coll]
		if !ok || collDB[p.Coll] == "" {
			continue
		}
		_, dk := util.GetPartitionInfoKeys(p.Name, cn, collDB[p.Coll])
		g := pg[dk]
		if g == nil {
			g = &grp{}
			pg[dk] = g
		}
		switch p.State {
		case "created", "creating":
			g.hasLive, g.liveCreate = true, p.CreateTs
		case "dropping", "dropped":
			g.hasDropped = true
			if p.CreateTs > g.droppedFloor {
				g.droppedFloor = p.CreateTs
			}
		}
	}
	// (a partition record in state created may belong to a dropped incarnation of its collection: not a live object)
	fill(util.DroppedPartitionKey, pg, false)
	return out
}

func c15Check(c *catalog, withTarget bool, down map[string]string) (viol string, outcome string) {
	fe := fakeetcd.New()
	c.Write(fe)
	var op *EtcdOp
	if withTarget {
		op = newVerifEtcdOp(fe, &c15Target{down: down})
	} else {
		op = newVerifEtcdOp(fe, nil)
	}
	got := op.GetAllDroppedObj()
	want := c15Reference(c, withTarget, down)
	var obs []string
	for _, kind := range []string{util.DroppedDatabaseKey, util.DroppedCollectionKey, util.DroppedPartitionKey} {
		w := want[kind]
		for k, v := range got[kind] {
			obs = append(obs, fmt.Sprintf("%s/%s=%d", kind, k, v))
			ex, okE := w.exact[k]
			bd, okB := w.below[k]
			switch {
			case okE:
				if v != ex {
					return fmt.Sprintf("horizon-now: %s entry %q = %d, want just below the source's current time (%d)", kind, k, v, ex), ""
				}
			case okB:
				if v >= bd {
					return fmt.Sprintf("horizon-live: %s entry %q = %d is not strictly before the creation time %d of the live namesake", kind, k, v, bd), ""
				}
				if v < w.floor[k] {
					return fmt.Sprintf("horizon-floor: %s entry %q = %d is before the creation time %d of the dropped incarnation", kind, k, v, w.floor[k]), ""
				}
			default:
				return fmt.Sprintf("spurious: %s entry %q = %d but that name has no dropped incarnation", kind, k, v), ""
			}
		}
		for k := range w.exact {
			if _, ok := got[kind][k]; !ok {
				return fmt.Sprintf("missing: %s has no entry %q although that name has a dropped incarnation", kind, k), ""
			}
		}
		for k := range w.below {
			if _, ok := got[kind][k]; !ok {
				return fmt.Sprintf("missing: %s has no entry %q although that name has a dropped incarnation (and a live namesake)", kind, k), ""
			}
		}
	}
	sort.Strings(obs)
	return "", strings.Join(obs, ",")
}

func c15Ops(thorough bool) []catOp {
	var ops []catOp
	ops = append(ops, catOp{Kind: "createDB", DB: 2, Name: "db1"}, catOp{Kind: "dropDB", DB: 101})
	names := []string{"a"}
	if thorough {
		names = []string{"a", "b"}
	}
	for _, db := range []int64{1, 101} {
		for _, n := range names {
			for _, k := range []string{"createColl", "beginCreateColl", "finishCreateColl", "abortCreateColl", "dropColl", "droppedColl", "gcColl", "createPart", "dropPart", "gcPart"} {
				ops = append(ops, catOp{Kind: k, DB: db, Name: n})
			}
		}
		// a second name that exists to be renamed: a live collection takes over the name of a dropped one and keeps its own
		// (older) creation time
		if !thorough {
			ops = append(ops, catOp{Kind: "createColl", DB: db, Name: "b"})
		}
		ops = append(ops, catOp{Kind: "renameColl", DB: db, Name: "b"})
		if thorough {
			ops = append(ops, catOp{Kind: "renameColl", DB: db, Name: "a"})
		}
	}
	return ops
}

func TestVerifC15Snapshot(t *testing.T) {
	// user partitions: "p" in the default database, "p_default" (a name that CONTAINS the default partition's name) in db1
	catSetPartName(func(db int64) string {
		if db == 1 {
			return "p"
		}
		return "p_default"
	})
	res := ev.New("C15", "snapshot")
	defer res.Write()
	if p := os.Getenv("VERIF_REPLAY"); p != "" {
		var f struct {
			Replay struct {
				History    []catOp           `json:"history"`
				WithTarget bool              `json:"with_target"`
				Down       map[string]string `json:"down"`
			} `json:"replay"`
		}
		b, _ := os.ReadFile(p)
		if err := jsonUnmarshalR(b, &f); err != nil {
			t.Fatal(err)
		}
		c, ok := catBuild(f.Replay.History)
		if !ok {
			t.Fatal("illegal history")
		}
		if msg, _ := c15Check(c, f.Replay.WithTarget, f.Replay.Down); msg != "" {
			fmt.Println("REPLAY-VIOLATION", msg)
			res.Violate("replay", msg, f.Replay)
			return
		}
		fmt.Println("REPLAY-OK")
		return
	}
	depth := 7
	if ev.Thorough() {
		depth = 7
	}
	res.Bounds["depth"] = depth
	res.Rule = "BFS over histories of legal root-coord operations {create/drop database db1; per (db in {default, db1}, collection name): create / begin-create / finish-create / abort-create / drop(->dropping) / dropped / gc(->tombstone) collection, create / drop / gc partition p} with increasing hybrid timestamps; catalogs deduplicated on content; each catalog written to fakeetcd and read by the real EtcdOp.GetAllDroppedObj for downstream in {Milvus fake knowing / not knowing the collection names of databases gone upstream, none (Kafka)}; every entry compared with the model's expectation; non-trivial = catalogs with at least one dropped incarnation visible"
	ops := c15Ops(ev.Thorough())
	deadline := time.Now().Add(ev.Budget(150 * time.Second))
	seen := map[string]bool{newCatalog().Canon(): true}
	frontier := [][]catOp{nil}
	res.States = 1
	nontriv := 0
	for d := 0; d < depth && len(frontier) > 0; d++ {
		var next [][]catOp
		for _, h := range frontier {
			if time.Now().After(deadline) {
				res.Exhaustive = false
				res.Bounds["stopped_at_depth"] = d
				goto done
			}
			for oi, o := range ops {
				if len(h) == 0 && !ev.Mine(oi) {
					continue
				}
				nh := append(append([]catOp{}, h...), o)
				c, ok := catBuild(nh)
				if !ok {
					continue
				}
				res.Transitions++
				k := c.Canon()
				if seen[k] {
					continue
				}
				seen[k] = true
				res.States++
				next = append(next, nh)
				hasDropped := strings.Contains(k, ":dropping:") || strings.Contains(k, ":dropped:")
				if hasDropped {
					nontriv++
				}
				for _, cfg := range []struct {
					target bool
					down   map[string]string
				}{{true, map[string]string{"a": "db1", "b": "db1"}}, {true, map[string]string{}}, {false, nil}} {
					msg, obs := c15Check(c, cfg.target, cfg.down)
					res.Evaluations++
					res.Traces++
					if msg != "" {
						tag := strings.SplitN(msg, ":", 2)[0]
						res.Violate(fmt.Sprintf("C15/%s/target=%v", tag, cfg.target), fmt.Sprintf("history %v (target=%v down=%v): %s\ncatalog: %s", nh, cfg.target, cfg.down, msg, k),
							map[string]interface{}{"history": nh, "with_target": cfg.target, "down": cfg.down})
						continue
					}
					res.Outcome(obs)
					if hasDropped && res.States%401 == 0 {
						res.Sample(map[string]interface{}{"history": fmt.Sprint(nh), "target": cfg.target, "result": obs})
					}
				}
			}
		}
		frontier = next
	}
done:
	res.Nontrivial = int64(nontriv)
}
