package writer

// message / event builders shared by the writer harnesses

import (
	"fmt"

	"github.com/milvus-io/milvus-proto/go-api/v2/commonpb"
	"github.com/milvus-io/milvus-proto/go-api/v2/milvuspb"
	"github.com/milvus-io/milvus-proto/go-api/v2/msgpb"
	"github.com/milvus-io/milvus-proto/go-api/v2/schemapb"
	"github.com/milvus-io/milvus/pkg/mq/msgstream"

	"github.com/zilliztech/milvus-cdc/core/api"
	"github.com/zilliztech/milvus-cdc/core/pb"
)

type opVals struct {
	DB, Coll, Part string
	Colls, Parts   []string
	TS             uint64
	Index, Field   string
	Params         map[string]string
	Replica        int32
	User, Role     string
	Pwd, OldPwd    string
	Priv, Obj      string
	ObjName        string
	URType         milvuspb.OperateUserRoleType
	PrivType       milvuspb.OperatePrivilegeType
	Force          bool
}

var opKinds = []string{
	"CreateDatabase", "DropDatabase", "AlterDatabase", "Flush", "CreateIndex", "DropIndex", "AlterIndex",
	"LoadCollection", "ReleaseCollection", "LoadPartitions", "ReleasePartitions",
	"CreateCredential", "DeleteCredential", "UpdateCredential", "CreateRole", "DropRole", "OperateUserRole", "OperatePrivilege",
}

var opMsgType = map[string]commonpb.MsgType{
	"CreateDatabase": commonpb.MsgType_CreateDatabase, "DropDatabase": commonpb.MsgType_DropDatabase, "AlterDatabase": commonpb.MsgType_AlterDatabase,
	"Flush": commonpb.MsgType_Flush, "CreateIndex": commonpb.MsgType_CreateIndex, "DropIndex": commonpb.MsgType_DropIndex, "AlterIndex": commonpb.MsgType_AlterIndex,
	"LoadCollection": commonpb.MsgType_LoadCollection, "ReleaseCollection": commonpb.MsgType_ReleaseCollection,
	"LoadPartitions": commonpb.MsgType_LoadPartitions, "ReleasePartitions": commonpb.MsgType_ReleasePartitions,
	"CreateCredential": commonpb.MsgType_CreateCredential, "DeleteCredential": commonpb.MsgType_DeleteCredential, "UpdateCredential": commonpb.MsgType_UpdateCredential,
	"CreateRole": commonpb.MsgType_CreateRole, "DropRole": commonpb.MsgType_DropRole, "OperateUserRole": commonpb.MsgType_OperateUserRole, "OperatePrivilege": commonpb.MsgType_OperatePrivilege,
}

// kind -> name of the downstream call it must produce
var opCallKind = map[string]string{
	"CreateDatabase": "CreateDatabase", "DropDatabase": "DropDatabase", "AlterDatabase": "AlterDatabase", "Flush": "Flush",
	"CreateIndex": "CreateIndex", "DropIndex": "DropIndex", "AlterIndex": "AlterIndex", "LoadCollection": "LoadCollection",
	"ReleaseCollection": "ReleaseCollection", "LoadPartitions": "LoadPartitions", "ReleasePartitions": "ReleasePartitions",
	"CreateCredential": "CreateUser", "DeleteCredential": "DeleteUser", "UpdateCredential": "UpdateUser", "CreateRole": "CreateRole",
	"DropRole": "DropRole", "OperateUserRole": "OperateUserRole", "OperatePrivilege": "OperatePrivilege",
}

func kvPairs(m map[string]string) []*commonpb.KeyValuePair {
	var out []*commonpb.KeyValuePair
	for _, k := range sortedKeys(m) {
		out = append(out, &commonpb.KeyValuePair{Key: k, Value: m[k]})
	}
	return out
}

func sortedKeys(m map[string]string) []string {
	ks := make([]string, 0, len(m))
	for k := range m {
		ks = append(ks, k)
	}
	for i := range ks {
		for j := i + 1; j < len(ks); j++ {
			if ks[j] < ks[i] {
				ks[i], ks[j] = ks[j], ks[i]
			}
		}
	}
	return ks
}

func buildOp(kind string, v opVals) msgstream.TsMsg {
	bm := msgstream.BaseMsg{BeginTimestamp: v.TS, EndTimestamp: v.TS, HashValues: []uint32{0}}
	base := &commonpb.MsgBase{MsgType: opMsgType[kind], Timestamp: v.TS, MsgID: 77, SourceID: 5}
	colls := v.Colls
	if colls == nil && v.Coll != "" {
		colls = []string{v.Coll}
	}
	switch kind {
	case "CreateDatabase":
		return &msgstream.CreateDatabaseMsg{BaseMsg: bm, CreateDatabaseRequest: &milvuspb.CreateDatabaseRequest{Base: base, DbName: v.DB}}
	case "DropDatabase":
		return &msgstream.DropDatabaseMsg{BaseMsg: bm, DropDatabaseRequest: &milvuspb.DropDatabaseRequest{Base: base, DbName: v.DB}}
	case "AlterDatabase":
		return &msgstream.AlterDatabaseMsg{BaseMsg: bm, AlterDatabaseRequest: &milvuspb.AlterDatabaseRequest{Base: base, DbName: v.DB, Properties: kvPairs(v.Params)}}
	case "Flush":
		return &msgstream.FlushMsg{BaseMsg: bm, FlushRequest: &milvuspb.FlushRequest{Base: base, DbName: v.DB, CollectionNames: colls}}
	case "CreateIndex":
		return &msgstream.CreateIndexMsg{BaseMsg: bm, CreateIndexRequest: &milvuspb.CreateIndexRequest{Base: base, DbName: v.DB, CollectionName: v.Coll, FieldName: v.Field, IndexName: v.Index, ExtraParams: kvPairs(v.Params)}}
	case "DropIndex":
		return &msgstream.DropIndexMsg{BaseMsg: bm, DropIndexRequest: &milvuspb.DropIndexRequest{Base: base, DbName: v.DB, CollectionName: v.Coll, FieldName: v.Field, IndexName: v.Index}}
	case "AlterIndex":
		return &msgstream.AlterIndexMsg{BaseMsg: bm, AlterIndexRequest: &milvuspb.AlterIndexRequest{Base: base, DbName: v.DB, CollectionName: v.Coll, IndexName: v.Index, ExtraParams: kvPairs(v.Params)}}
	case "LoadCollection":
		return &msgstream.LoadCollectionMsg{BaseMsg: bm, LoadCollectionRequest: &milvuspb.LoadCollectionRequest{Base: base, DbName: v.DB, CollectionName: v.Coll, ReplicaNumber: v.Replica}}
	case "ReleaseCollection":
		return &msgstream.ReleaseCollectionMsg{BaseMsg: bm, ReleaseCollectionRequest: &milvuspb.ReleaseCollectionRequest{Base: base, DbName: v.DB, CollectionName: v.Coll}}
	case "LoadPartitions":
		return &msgstream.LoadPartitionsMsg{BaseMsg: bm, LoadPartitionsRequest: &milvuspb.LoadPartitionsRequest{Base: base, DbName: v.DB, CollectionName: v.Coll, PartitionNames: v.Parts, ReplicaNumber: v.Replica}}
	case "ReleasePartitions":
		return &msgstream.ReleasePartitionsMsg{BaseMsg: bm, ReleasePartitionsRequest: &milvuspb.ReleasePartitionsRequest{Base: base, DbName: v.DB, CollectionName: v.Coll, PartitionNames: v.Parts}}
	case "CreateCredential":
		return &msgstream.CreateUserMsg{BaseMsg: bm, CreateCredentialRequest: &milvuspb.CreateCredentialRequest{Base: base, Username: v.User, Password: v.Pwd}}
	case "DeleteCredential":
		return &msgstream.DeleteUserMsg{BaseMsg: bm, DeleteCredentialRequest: &milvuspb.DeleteCredentialRequest{Base: base, Username: v.User}}
	case "UpdateCredential":
		return &msgstream.UpdateUserMsg{BaseMsg: bm, UpdateCredentialRequest: &milvuspb.UpdateCredentialRequest{Base: base, Username: v.User, OldPassword: v.OldPwd, NewPassword: v.Pwd}}
	case "CreateRole":
		return &msgstream.CreateRoleMsg{BaseMsg: bm, CreateRoleRequest: &milvuspb.CreateRoleRequest{Base: base, Entity: &milvuspb.RoleEntity{Name: v.Role}}}
	case "DropRole":
		return &msgstream.DropRoleMsg{BaseMsg: bm, DropRoleRequest: &milvuspb.DropRoleRequest{Base: base, RoleName: v.Role, ForceDrop: v.Force}}
	case "OperateUserRole":
		return &msgstream.OperateUserRoleMsg{BaseMsg: bm, OperateUserRoleRequest: &milvuspb.OperateUserRoleRequest{Base: base, Username: v.User, RoleName: v.Role, Type: v.URType}}
	case "OperatePrivilege":
		return &msgstream.OperatePrivilegeMsg{BaseMsg: bm, OperatePrivilegeRequest: &milvuspb.OperatePrivilegeRequest{Base: base, Type: v.PrivType, Entity: &milvuspb.GrantEntity{
			Role: &milvuspb.RoleEntity{Name: v.Role}, Object: &milvuspb.ObjectEntity{Name: v.Obj}, ObjectName: v.ObjName, DbName: v.DB,
			Grantor: &milvuspb.GrantorEntity{User: &milvuspb.UserEntity{Name: v.User}, Privilege: &milvuspb.PrivilegeEntity{Name: v.Priv}},
		}}}
	}
	panic("unknown op kind " + kind)
}

func opPack(endTs uint64, msgs ...msgstream.TsMsg) *msgstream.MsgPack {
	return &msgstream.MsgPack{
		BeginTs: endTs, EndTs: endTs, Msgs: msgs,
		StartPositions: []*msgpb.MsgPosition{{ChannelName: "src-rpc", MsgID: []byte("s0"), Timestamp: endTs}},
		EndPositions:   []*msgpb.MsgPosition{{ChannelName: "src-rpc", MsgID: []byte(fmt.Sprintf("e%d", endTs)), Timestamp: endTs}},
	}
}

var eventKinds = []api.ReplicateAPIEventType{api.ReplicateCreateCollection, api.ReplicateDropCollection, api.ReplicateCreatePartition, api.ReplicateDropPartition}

func buildEvent(t api.ReplicateAPIEventType, v opVals) *api.ReplicateAPIEvent {
	return &api.ReplicateAPIEvent{
		EventType: t,
		CollectionInfo: &pb.CollectionInfo{
			ID: 11, ShardsNum: 2, ConsistencyLevel: commonpb.ConsistencyLevel_Bounded, CreateTime: v.TS,
			Properties: kvPairs(v.Params),
			Schema: &schemapb.CollectionSchema{Name: v.Coll, Description: "d", Fields: []*schemapb.FieldSchema{
				{FieldID: 100, Name: "pk", IsPrimaryKey: true, DataType: schemapb.DataType_Int64},
				{FieldID: 101, Name: "vec", DataType: schemapb.DataType_FloatVector, TypeParams: []*commonpb.KeyValuePair{{Key: "dim", Value: "4"}}},
			}},
		},
		PartitionInfo:  &pb.PartitionInfo{PartitionID: 22, PartitionName: v.Part, CollectionId: 11, PartitionCreatedTimestamp: v.TS},
		ReplicateInfo:  &commonpb.ReplicateInfo{IsReplicate: true, MsgTimestamp: v.TS},
		ReplicateParam: api.ReplicateParam{Database: v.DB},
		TaskID:         "task1",
		MsgID:          "m1",
	}
}

var dmlKinds = []string{"Insert", "Delete", "DropPartition", "DropCollection", "Import"}

func buildDML(kind string, v opVals, id int) msgstream.TsMsg {
	pos := &msgpb.MsgPosition{ChannelName: "tgt-ch_1v0", MsgID: []byte(fmt.Sprintf("id%d", id)), Timestamp: v.TS}
	bm := msgstream.BaseMsg{BeginTimestamp: v.TS, EndTimestamp: v.TS, HashValues: []uint32{0}, MsgPosition: pos}
	switch kind {
	case "Insert":
		n := 2
		return &msgstream.InsertMsg{BaseMsg: bm, InsertRequest: &msgpb.InsertRequest{
			Base:   &commonpb.MsgBase{MsgType: commonpb.MsgType_Insert, Timestamp: v.TS, MsgID: int64(id)},
			DbName: v.DB, CollectionName: v.Coll, PartitionName: v.Part, CollectionID: 1001, PartitionID: 2002, ShardName: "tgt-ch_1v0",
			NumRows: uint64(n), Version: msgpb.InsertDataVersion_ColumnBased, RowIDs: []int64{int64(id)*10 + 1, int64(id)*10 + 2}, Timestamps: []uint64{v.TS, v.TS},
			FieldsData: []*schemapb.FieldData{{Type: schemapb.DataType_Int64, FieldName: "pk", FieldId: 100, Field: &schemapb.FieldData_Scalars{Scalars: &schemapb.ScalarField{
				Data: &schemapb.ScalarField_LongData{LongData: &schemapb.LongArray{Data: []int64{int64(id) * 100, int64(id)*100 + 1}}}}}}},
		}}
	case "Delete":
		return &msgstream.DeleteMsg{BaseMsg: bm, DeleteRequest: &msgpb.DeleteRequest{
			Base:   &commonpb.MsgBase{MsgType: commonpb.MsgType_Delete, Timestamp: v.TS, MsgID: int64(id)},
			DbName: v.DB, CollectionName: v.Coll, PartitionName: v.Part, CollectionID: 1001, PartitionID: 2002, ShardName: "tgt-ch_1v0",
			NumRows: 1, Timestamps: []uint64{v.TS}, PrimaryKeys: &schemapb.IDs{IdField: &schemapb.IDs_IntId{IntId: &schemapb.LongArray{Data: []int64{int64(id) * 100}}}},
		}}
	case "DropPartition":
		return &msgstream.DropPartitionMsg{BaseMsg: bm, DropPartitionRequest: &msgpb.DropPartitionRequest{
			Base:   &commonpb.MsgBase{MsgType: commonpb.MsgType_DropPartition, Timestamp: v.TS, MsgID: int64(id)},
			DbName: v.DB, CollectionName: v.Coll, PartitionName: v.Part, CollectionID: 1001, PartitionID: 2002,
		}}
	case "DropCollection":
		return &msgstream.DropCollectionMsg{BaseMsg: bm, DropCollectionRequest: &msgpb.DropCollectionRequest{
			Base:   &commonpb.MsgBase{MsgType: commonpb.MsgType_DropCollection, Timestamp: v.TS, MsgID: int64(id)},
			DbName: v.DB, CollectionName: v.Coll, CollectionID: 1001,
		}}
	case "Import":
		return &msgstream.ImportMsg{BaseMsg: bm, ImportMsg: &msgpb.ImportMsg{
			Base:   &commonpb.MsgBase{MsgType: commonpb.MsgType_Import, Timestamp: v.TS, MsgID: int64(id)},
			DbName: v.DB, CollectionName: v.Coll, CollectionID: 1001, PartitionIDs: []int64{2002}, JobID: int64(id),
			Files: []*msgpb.ImportFile{{Id: 1, Paths: []string{"a.json"}}}, Options: map[string]string{"k": "v"},
		}}
	case "TimeTick":
		return &msgstream.TimeTickMsg{BaseMsg: bm, TimeTickMsg: &msgpb.TimeTickMsg{
			Base: &commonpb.MsgBase{MsgType: commonpb.MsgType_TimeTick, Timestamp: v.TS, MsgID: 0, SourceID: -1},
		}}
	}
	panic("unknown dml kind " + kind)
}

func dmlPack(ts uint64, msgs ...msgstream.TsMsg) *msgstream.MsgPack {
	return &msgstream.MsgPack{
		BeginTs: ts, EndTs: ts, Msgs: msgs,
		StartPositions: []*msgpb.MsgPosition{{ChannelName: "tgt-ch", MsgID: []byte("start"), Timestamp: ts}},
		EndPositions:   []*msgpb.MsgPosition{{ChannelName: "tgt-ch", MsgID: []byte(fmt.Sprintf("end%d", ts)), Timestamp: ts}},
	}
}
