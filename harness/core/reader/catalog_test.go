package reader

// Source catalog model shared by the C13 / C15 harnesses: a catalog is produced by a *history* of
// legal root-coord operations (so impossible catalogs cannot raise alarms) and written into fakeetcd
// with the key layout and value encodings Milvus uses.

import (
	"encoding/binary"
	"fmt"
	"time"

	"github.com/milvus-io/milvus-proto/go-api/v2/commonpb"
	"github.com/milvus-io/milvus-proto/go-api/v2/schemapb"
	"github.com/milvus-io/milvus/pkg/util/conc"
	"github.com/milvus-io/milvus/pkg/util/tsoutil"
	"google.golang.org/protobuf/proto"

	"github.com/zilliztech/milvus-cdc/core/api"
	"github.com/zilliztech/milvus-cdc/core/pb"
	"github.com/zilliztech/milvus-cdc/core/util"
	"github.com/zilliztech/milvus-cdc/core/verifkit/fakeetcd"
)

const (
	catRoot = "by-dev"
	catMeta = "meta"
)

type catColl struct {
	ID, DB   int64
	Name     string
	State    string // creating | created | dropping | dropped | tombstone
	CreateTs uint64
	Shards   int
}

type catPart struct {
	ID, Coll int64
	Name     string
	State    string
	CreateTs uint64
}

type catDB struct {
	ID    int64
	Name  string
	State string // live | tombstone
}

type catalog struct {
	DBs    []*catDB
	Colls  []*catColl
	Parts  []*catPart
	NowMs  int64 // source clock in ms; every op advances it
	nextID int64
}

type catOp struct {
	Kind string `json:"k"`
	DB   int64  `json:"db,omitempty"`
	Name string `json:"n,omitempty"`
}

func (o catOp) String() string { return fmt.Sprintf("%s(%d,%s)", o.Kind, o.DB, o.Name) }

func newCatalog() *catalog {
	return &catalog{DBs: []*catDB{{ID: 1, Name: "default", State: "live"}}, NowMs: 1000, nextID: 100}
}

func (c *catalog) ts() uint64 { return tsoutil.ComposeTS(c.NowMs, 0) }

func (c *catalog) db(id int64) *catDB {
	for _, d := range c.DBs {
		if d.ID == id {
			return d
		}
	}
	return nil
}

// live (created or creating) incarnation of a collection name in a db
func (c *catalog) liveColl(db int64, name string) *catColl {
	for _, x := range c.Colls {
		if x.DB == db && x.Name == name && (x.State == "created" || x.State == "creating") {
			return x
		}
	}
	return nil
}

func (c *catalog) newestColl(db int64, name string, states ...string) *catColl {
	var best *catColl
	for _, x := range c.Colls {
		if x.DB != db || x.Name != name {
			continue
		}
		for _, s := range states {
			if x.State == s {
				best = x
			}
		}
	}
	return best
}

func (c *catalog) livePart(coll int64, name string) *catPart {
	for _, p := range c.Parts {
		if p.Coll == coll && p.Name == name && (p.State == "created" || p.State == "creating") {
			return p
		}
	}
	return nil
}

// apply executes one op if it is legal in the current catalog; returns false otherwise.
func (c *catalog) apply(o catOp) bool {
	c.NowMs += 10
	d := c.db(o.DB)
	switch o.Kind {
	case "createDB":
		if d != nil && d.State == "live" {
			return false
		}
		c.nextID++
		c.DBs = append(c.DBs, &catDB{ID: c.nextID, Name: o.Name, State: "live"})
		return true
	case "dropDB": // only an empty database can be dropped
		if d == nil || d.State != "live" || d.ID == 1 {
			return false
		}
		for _, x := range c.Colls {
			if x.DB == d.ID && (x.State == "created" || x.State == "creating") {
				return false
			}
		}
		d.State = "tombstone"
		return true
	}
	if d == nil || d.State != "live" {
		// collections of a dropped database can still be garbage collected
		if o.Kind != "gcColl" {
			return false
		}
	}
	switch o.Kind {
	case "createColl", "beginCreateColl":
		if c.liveColl(o.DB, o.Name) != nil {
			return false
		}
		c.nextID++
		st := "created"
		if o.Kind == "beginCreateColl" {
			st = "creating"
		}
		c.Colls = append(c.Colls, &catColl{ID: c.nextID, DB: o.DB, Name: o.Name, State: st, CreateTs: c.ts(), Shards: 1})
		return true
	case "finishCreateColl":
		x := c.newestColl(o.DB, o.Name, "creating")
		if x == nil {
			return false
		}
		x.State = "created"
		return true
	case "abortCreateColl": // creating -> tombstone
		x := c.newestColl(o.DB, o.Name, "creating")
		if x == nil {
			return false
		}
		x.State = "tombstone"
		return true
	case "dropColl": // created -> dropping
		x := c.newestColl(o.DB, o.Name, "created")
		if x == nil {
			return false
		}
		x.State = "dropping"
		return true
	case "droppedColl": // dropping -> dropped
		x := c.newestColl(o.DB, o.Name, "dropping")
		if x == nil {
			return false
		}
		x.State = "dropped"
		return true
	case "gcColl": // dropping/dropped -> tombstone (its partitions too)
		x := c.newestColl(o.DB, o.Name, "dropping", "dropped")
		if x == nil {
			return false
		}
		x.State = "tombstone"
		for _, p := range c.Parts {
			if p.Coll == x.ID {
				p.State = "tombstone"
			}
		}
		return true
	case "createPart":
		x := c.newestColl(o.DB, o.Name, "created")
		if x == nil || c.livePart(x.ID, "p") != nil {
			return false
		}
		c.nextID++
		c.Parts = append(c.Parts, &catPart{ID: c.nextID, Coll: x.ID, Name: "p", State: "created", CreateTs: c.ts()})
		return true
	case "dropPart":
		x := c.newestColl(o.DB, o.Name, "created")
		if x == nil {
			return false
		}
		p := c.livePart(x.ID, "p")
		if p == nil {
			return false
		}
		p.State = "dropped"
		return true
	case "gcPart":
		x := c.newestColl(o.DB, o.Name, "created")
		if x == nil {
			return false
		}
		for _, p := range c.Parts {
			if p.Coll == x.ID && p.State == "dropped" {
				p.State = "tombstone"
				return true
			}
		}
		return false
	}
	return false
}

func catBuild(hist []catOp) (*catalog, bool) {
	c := newCatalog()
	for _, o := range hist {
		if !c.apply(o) {
			return nil, false
		}
	}
	return c, true
}

// canon: catalog content without ids/timestamps (ids and clocks are assigned deterministically from the history,
// but two histories with the same shape and different lengths differ only in absolute values)
func (c *catalog) canon() string {
	s := ""
	for _, d := range c.DBs {
		s += fmt.Sprintf("D%d:%s:%s;", d.ID, d.Name, d.State)
	}
	for _, x := range c.Colls {
		s += fmt.Sprintf("C%d@%d:%s:%s:%d;", x.ID, x.DB, x.Name, x.State, x.CreateTs)
	}
	for _, p := range c.Parts {
		s += fmt.Sprintf("P%d@%d:%s:%s:%d;", p.ID, p.Coll, p.Name, p.State, p.CreateTs)
	}
	return s
}

var catTombstone = []byte{0xE2, 0x9B, 0xBC}

func catCollState(s string) pb.CollectionState {
	return map[string]pb.CollectionState{"created": pb.CollectionState_CollectionCreated, "creating": pb.CollectionState_CollectionCreating,
		"dropping": pb.CollectionState_CollectionDropping, "dropped": pb.CollectionState_CollectionDropped}[s]
}

func catPartState(s string) pb.PartitionState {
	return map[string]pb.PartitionState{"created": pb.PartitionState_PartitionCreated, "creating": pb.PartitionState_PartitionCreating,
		"dropping": pb.PartitionState_PartitionDropping, "dropped": pb.PartitionState_PartitionDropped}[s]
}

func catDBKey(id int64) string {
	return fmt.Sprintf("%s/%s/%s/%d", catRoot, catMeta, databasePrefix, id)
}
func catCollKey(db, id int64) string {
	return fmt.Sprintf("%s/%s/%s/%d/%d", catRoot, catMeta, collectionPrefix, db, id)
}
func catPartKey(coll, id int64) string {
	return fmt.Sprintf("%s/%s/%s/%d/%d", catRoot, catMeta, partitionPrefix, coll, id)
}
func catFieldKey(coll, id int64) string {
	return fmt.Sprintf("%s/%s/%s/%d/%d", catRoot, catMeta, fieldPrefix, coll, id)
}

func (x *catColl) vchannels() ([]string, []string) {
	var v, p []string
	for i := 0; i < x.Shards; i++ {
		pc := fmt.Sprintf("src-dml_%d", i)
		p = append(p, pc)
		v = append(v, fmt.Sprintf("%s_%dv%d", pc, x.ID, i))
	}
	return v, p
}

func (x *catColl) info() *pb.CollectionInfo {
	v, p := x.vchannels()
	var sp []*commonpb.KeyDataPair
	for _, pc := range p {
		sp = append(sp, &commonpb.KeyDataPair{Key: pc, Data: []byte("start-" + pc)})
	}
	return &pb.CollectionInfo{ID: x.ID, DbId: x.DB, CreateTime: x.CreateTs, State: catCollState(x.State), ShardsNum: int32(x.Shards),
		Schema: &schemapb.CollectionSchema{Name: x.Name}, VirtualChannelNames: v, PhysicalChannelNames: p, StartPositions: sp}
}

func (p *catPart) info() *pb.PartitionInfo {
	return &pb.PartitionInfo{PartitionID: p.ID, PartitionName: p.Name, CollectionId: p.Coll, PartitionCreatedTimestamp: p.CreateTs, State: catPartState(p.State)}
}

func mustMarshal(m proto.Message) []byte {
	b, err := proto.Marshal(m)
	if err != nil {
		panic(err)
	}
	return b
}

// write stores the whole catalog into fe (raw, no hooks, no ordering significance).
func (c *catalog) write(fe *fakeetcd.Fake) {
	for _, d := range c.DBs {
		if d.State == "tombstone" {
			fe.PutRaw(catDBKey(d.ID), catTombstone)
		} else {
			fe.PutRaw(catDBKey(d.ID), mustMarshal(&pb.DatabaseInfo{Id: d.ID, Name: d.Name, State: pb.DatabaseState_DatabaseCreated}))
		}
	}
	for _, x := range c.Colls {
		c.writeColl(fe, x)
	}
	for _, p := range c.Parts {
		c.writePart(fe, p)
	}
	c.writeTSO(fe)
}

func (c *catalog) writeColl(fe *fakeetcd.Fake, x *catColl) {
	if x.State == "tombstone" {
		fe.PutRaw(catCollKey(x.DB, x.ID), catTombstone)
		return
	}
	fe.PutRaw(catFieldKey(x.ID, 100), mustMarshal(&schemapb.FieldSchema{FieldID: 100, Name: "pk", IsPrimaryKey: true, DataType: schemapb.DataType_Int64}))
	fe.PutRaw(catCollKey(x.DB, x.ID), mustMarshal(x.info()))
}

func (c *catalog) writePart(fe *fakeetcd.Fake, p *catPart) {
	if p.State == "tombstone" {
		fe.PutRaw(catPartKey(p.Coll, p.ID), catTombstone)
		return
	}
	fe.PutRaw(catPartKey(p.Coll, p.ID), mustMarshal(p.info()))
}

func (c *catalog) writeTSO(fe *fakeetcd.Fake) {
	b := make([]byte, 8)
	binary.BigEndian.PutUint64(b, uint64(time.UnixMilli(c.NowMs+5).UnixNano()))
	fe.PutRaw(fmt.Sprintf("%s/%s", catRoot, tsPrefix), b)
}

func (c *catalog) nowTT() uint64 { return tsoutil.ComposeTSByTime(time.UnixMilli(c.NowMs+5), 0) }

// newVerifEtcdOp builds the real EtcdOp white-box around a fake etcd client (NewEtcdOp dials a server).
func newVerifEtcdOp(fe *fakeetcd.Fake, target api.TargetAPI) *EtcdOp {
	return &EtcdOp{
		endpoints:             []string{"fake"},
		rootPath:              catRoot,
		metaSubPath:           catMeta,
		defaultPartitionName:  "_default",
		etcdClient:            fe.Client(),
		retryOptions:          util.NoRetryOption(),
		handlerWatchEventPool: conc.NewPool[struct{}](16),
		startWatch:            make(chan struct{}),
		targetMilvus:          target,
	}
}
