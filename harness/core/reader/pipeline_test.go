package reader

// pipeline harness shared by C01-C04 (and C16b): the real replicateChannelManager fed by fakemq,
// with a fake downstream catalog (api.TargetAPI), a fake api.MetaOp and the real ReplicateMeteImpl
// over an in-memory store, run under the sched engine inside a synctest bubble.

import (
	"context"
	"encoding/json"
	"fmt"
	"sort"
	"strings"
	"sync"
	"testing"
	"time"

	"github.com/cockroachdb/errors"
	"github.com/milvus-io/milvus-proto/go-api/v2/commonpb"
	"github.com/milvus-io/milvus-proto/go-api/v2/msgpb"
	"github.com/milvus-io/milvus-proto/go-api/v2/schemapb"
	"github.com/milvus-io/milvus/pkg/mq/msgstream"
	"github.com/milvus-io/milvus/pkg/util/conc"
	"github.com/milvus-io/milvus/pkg/util/funcutil"
	"github.com/milvus-io/milvus/pkg/util/lock"
	"github.com/milvus-io/milvus/pkg/util/tsoutil"
	"github.com/milvus-io/milvus/pkg/util/typeutil"

	"github.com/zilliztech/milvus-cdc/core/api"
	"github.com/zilliztech/milvus-cdc/core/config"
	"github.com/zilliztech/milvus-cdc/core/log"
	"github.com/zilliztech/milvus-cdc/core/meta"
	"github.com/zilliztech/milvus-cdc/core/model"
	"github.com/zilliztech/milvus-cdc/core/pb"
	"github.com/zilliztech/milvus-cdc/core/util"
	"github.com/zilliztech/milvus-cdc/core/verifkit/fakemq"
	"github.com/zilliztech/milvus-cdc/core/verifkit/sched"
)

// ------------------------------------------------------------------------------------------------
// scenario description

type plMsg struct {
	Kind string // ins | del | dropPart | dropColl | createPart | createColl | unsupported
	Ms   int64  // physical ms
	Lg   int64  // logical part
	Part string // partition name ("" = default)
	Old  bool   // addressed to the earlier, dropped incarnation of the partition (another partition id, same name)
	New  bool   // addressed to the NEXT incarnation of the partition: the name is dropped and created again during the run
}

type plPack struct {
	Msgs    []plMsg
	TickMs  int64 // closing tick (EndTs)
	TickLg  int64
	BeginTs0 bool // deliver with BeginTs = 0
}

type plShard struct {
	SrcV, TgtV string
	Script     []plPack
}

type plColl struct {
	ID, TgtID  int64
	Name, DB   string
	Shards     []*plShard
	Parts      map[string]int64 // source partition name -> id (besides _default)
	TgtParts   map[string]int64 // downstream partitions known at start
	TgtMissing bool             // downstream does not have the collection yet (create event expected)
	Dropped    bool             // source state dropped at start (restart case)
	SeekMs     int64            // seek position timestamp (ms) handed to StartReadCollection (0 = none)
}

type plDriver struct {
	Kind string // start | addpart | stop | resume
	Coll int
	Part string
	PartState pb.PartitionState
	// resume = the pause and resume of a task on the same channel manager (the manager belongs to the target and
	// outlives the pause): StopReadCollection, StartReadCollection with the checkpoint ResumeSeekMs (and the collection
	// reported as dropped by the catalog if ResumeDropped), then the start-up listing announces partition Part in
	// state PartState. AfterDrop: the driver becomes enabled when the first drop request has been issued.
	AfterDrop     bool
	ResumeSeekMs  int64
	ResumeDropped bool
	// ResumeFromStart: the resumed streams are read from the start of their logs (the pause came before anything was
	// checkpointed); AfterStop: the driver becomes enabled when a resume driver has stopped the collection (it then runs
	// concurrently with the resume's StartReadCollection)
	ResumeFromStart bool
	AfterStop       bool
	// AfterBarrier: the driver becomes enabled when every shard of the first collection has signalled its barrier
	AfterBarrier bool
	// AfterFirst: the driver becomes enabled when the scenario's first driver has returned
	AfterFirst bool
	// OldPart: the announcement is about the earlier incarnation of the partition (its old id); NewPart: about the next one
	OldPart bool
	NewPart bool
}

type plScenario struct {
	Name     string
	Colls    []*plColl
	Drivers  []plDriver
	SrcN     int
	TgtN     int
	Clock    int  // number of optional "advance the clock by one tick interval" actions
	ParkRegister bool
	RetryTimes int
	PointInAddPartition bool // the per-handler dropped-collection probe inside AddPartition is a scheduling point
	MsgPosPChannel bool // message positions name the source pchannel (as the MQ layer does) instead of the vchannel
	HeavyBound int // lower deviation bound for a scenario with many streams
	ConnFailAt int  // the n-th connectivity check of a new channel handler is refused (scripted: the check runs under the channel lock)
	SlowEvents bool // the event queue of the channel manager is full and its consumer takes an event only when nothing else can run
	PartAppearsOnAnnounce bool // the source catalog lists a named partition only from the moment its creation is announced (addpart driver)
	Kafka      bool // the downstream is Kafka: no downstream catalog, the source's own ids / channels / partitions address the messages
	Strict     bool // strict cost model for this scenario: every choice other than the default one costs a deviation (arrival orders included)
	Hooks      string // which verif yield points park: "" = pack.computed + barrier.signal, "all" = every hook
	Bound      *int // deviation bound override for this scenario
	DelayPartitionOnTarget bool // downstream partition id appears only when the create-partition event is applied
	WatchMapping bool // record the manager's channel assignment at every scheduling point (C16)
	SlowDropOnTarget bool // the downstream has not applied a drop request yet when it is asked again: it still lists the dropped object
	ParkTargetInStart bool // the downstream lookups made by StartReadCollection are scheduling points (check-then-act window of the duplicate-start handling)
}

// physChannels lists the physical channel names the scenario's collections live on (source side, downstream side).
func (sc *plScenario) physChannels() (srcs, tgts []string) {
	ss, ts := map[string]bool{}, map[string]bool{}
	for _, c := range sc.Colls {
		for _, sh := range c.Shards {
			ss[funcutil.ToPhysicalChannel(sh.SrcV)] = true
			ts[funcutil.ToPhysicalChannel(sh.TgtV)] = true
		}
	}
	for k := range ss {
		srcs = append(srcs, k)
	}
	for k := range ts {
		tgts = append(tgts, k)
	}
	sort.Strings(srcs)
	sort.Strings(tgts)
	return
}

func (sc *plScenario) retryTimes() int {
	if sc.RetryTimes > 0 {
		return sc.RetryTimes
	}
	return 6
}

func plTs(ms, lg int64) uint64 { return tsoutil.ComposeTS(ms, lg) }

// ------------------------------------------------------------------------------------------------
// fakes

type plTarget struct {
	mu    sync.Mutex
	colls map[string]*model.CollectionInfo // "db/name"
	calls []string
	park  func(name string) // optional scheduling hook, called outside the lock
}

func (t *plTarget) key(db, name string) string {
	if db == "" {
		db = "default"
	}
	return db + "/" + name
}

func (t *plTarget) GetCollectionInfo(ctx context.Context, name, db string) (*model.CollectionInfo, error) {
	if t.park != nil {
		t.park(name)
	}
	t.mu.Lock()
	defer t.mu.Unlock()
	t.calls = append(t.calls, "GetCollectionInfo:"+name)
	c, ok := t.colls[t.key(db, name)]
	if !ok {
		return nil, errors.Newf("collection not found[collection=%s]", name)
	}
	cp := *c
	cp.Partitions = map[string]int64{}
	for k, v := range c.Partitions {
		cp.Partitions[k] = v
	}
	return &cp, nil
}

func (t *plTarget) GetPartitionInfo(ctx context.Context, name, db string) (*model.CollectionInfo, error) {
	return t.GetCollectionInfo(ctx, name, db)
}

func (t *plTarget) GetDatabaseName(ctx context.Context, coll, db string) (string, error) {
	return db, nil
}

// plNewIncOffset: downstream id of the second incarnation of a partition = id of the first + this
const plNewIncOffset = 100

// plFillerEvent: requests of other collections that fill the event queue (the consumer discards them)
const plFillerEvent = api.ReplicateAPIEventType(99)

type plMetaOp struct {
	api.DefaultMetaOp
	colls map[int64]*plColl
	// hidden: named partitions the source catalog does not list yet (they appear when their creation is announced)
	hidden func(part string) bool
}

// GetAllPartition: the source catalog's partitions (the Kafka downstream has no catalog of its own: the channel manager
// takes partition ids from here)
func (m *plMetaOp) GetAllPartition(ctx context.Context, filter api.PartitionFilter) ([]*pb.PartitionInfo, error) {
	var ids []int64
	for id := range m.colls {
		ids = append(ids, id)
	}
	sort.Slice(ids, func(i, j int) bool { return ids[i] < ids[j] })
	var out []*pb.PartitionInfo
	for _, id := range ids {
		c := m.colls[id]
		names := []string{"_default"}
		for n := range c.Parts {
			if m.hidden == nil || !m.hidden(n) {
				names = append(names, n)
			}
		}
		sort.Strings(names)
		for _, n := range names {
			pi := &pb.PartitionInfo{PartitionID: c.partID(n), PartitionName: n, CollectionId: c.ID, State: pb.PartitionState_PartitionCreated}
			if filter != nil && filter(pi) {
				continue
			}
			out = append(out, pi)
		}
	}
	return out, nil
}

func (m *plMetaOp) GetCollectionNameByID(ctx context.Context, id int64) string {
	if c, ok := m.colls[id]; ok {
		return c.Name
	}
	return ""
}

func (m *plMetaOp) GetDatabaseInfoForCollection(ctx context.Context, id int64) model.DatabaseInfo {
	if c, ok := m.colls[id]; ok {
		return model.DatabaseInfo{ID: 1, Name: c.DB}
	}
	return model.DatabaseInfo{Dropped: true}
}

type plStore struct {
	mu sync.Mutex
	kv map[string]string
}

func (s *plStore) Get(ctx context.Context, key string, withPrefix bool) ([]api.MetaMsg, error) {
	s.mu.Lock()
	defer s.mu.Unlock()
	var keys []string
	for k := range s.kv {
		if k == key || (withPrefix && strings.HasPrefix(k, key)) {
			keys = append(keys, k)
		}
	}
	sort.Strings(keys)
	var out []api.MetaMsg
	for _, k := range keys {
		var m api.MetaMsg
		if err := json.Unmarshal([]byte(s.kv[k]), &m); err != nil {
			return nil, err
		}
		out = append(out, m)
	}
	return out, nil
}
func (s *plStore) Put(ctx context.Context, key string, value api.MetaMsg) error {
	b, _ := json.Marshal(value)
	s.mu.Lock()
	s.kv[key] = string(b)
	s.mu.Unlock()
	return nil
}
func (s *plStore) Remove(ctx context.Context, key string) error {
	s.mu.Lock()
	delete(s.kv, key)
	s.mu.Unlock()
	return nil
}

// ------------------------------------------------------------------------------------------------
// source log construction

type plSrcMsg struct {
	ID      string // identity = MsgID of its position
	Stream  string // source vchannel
	Coll    int64
	Kind    string
	Ts      uint64
	Part    string
	PartID  int64
	Pack    int
	Finger  string // payload fingerprint
	NewInc  bool   // addressed to the second incarnation of its partition
}

func plFinger(m msgstream.TsMsg) string {
	switch x := m.(type) {
	case *msgstream.InsertMsg:
		return fmt.Sprintf("ins rows=%d rowids=%v pk=%v part=%s", x.NumRows, x.RowIDs, x.FieldsData[0].GetScalars().GetLongData().GetData(), x.PartitionName)
	case *msgstream.DeleteMsg:
		return fmt.Sprintf("del rows=%d pk=%v part=%s", x.NumRows, x.PrimaryKeys.GetIntId().GetData(), x.PartitionName)
	case *msgstream.DropPartitionMsg:
		return fmt.Sprintf("dropPart %s/%s", x.CollectionName, x.PartitionName)
	case *msgstream.DropCollectionMsg:
		return fmt.Sprintf("dropColl %s", x.CollectionName)
	}
	return m.Type().String()
}

// newPartID: the id the partition name gets when it is created again during the run
func (c *plColl) newPartID(name string) int64 { return c.partID(name) + 7000 }

// oldPartID: the id the partition name had in its earlier, dropped incarnation
func (c *plColl) oldPartID(name string) int64 { return c.partID(name) + 5000 }

func (c *plColl) partID(name string) int64 {
	if name == "" || name == "_default" {
		return c.ID*10 + 1
	}
	return c.Parts[name]
}

func plBuildLog(c *plColl, sh *plShard, seq *int, posPChannel bool) ([]*msgstream.MsgPack, []*plSrcMsg) {
	var packs []*msgstream.MsgPack
	var src []*plSrcMsg
	srcP := funcutil.ToPhysicalChannel(sh.SrcV)
	prevTick := uint64(0)
	prevID := []byte("start-" + srcP)
	for pi, p := range sh.Script {
		endTs := plTs(p.TickMs, p.TickLg)
		pack := &msgstream.MsgPack{BeginTs: prevTick, EndTs: endTs}
		if p.BeginTs0 {
			pack.BeginTs = 0
		}
		tickID := []byte(fmt.Sprintf("%s#%d.tick", sh.SrcV, pi))
		pack.StartPositions = []*msgpb.MsgPosition{{ChannelName: srcP, MsgID: prevID, Timestamp: prevTick}}
		pack.EndPositions = []*msgpb.MsgPosition{{ChannelName: srcP, MsgID: tickID, Timestamp: endTs}}
		for mi, m := range p.Msgs {
			*seq++
			ts := plTs(m.Ms, m.Lg)
			id := fmt.Sprintf("%s#%d.%d", sh.SrcV, pi, mi)
			pos := &msgpb.MsgPosition{ChannelName: sh.SrcV, MsgID: []byte(id), Timestamp: ts}
			if posPChannel {
				pos.ChannelName = srcP
			}
			bm := msgstream.BaseMsg{BeginTimestamp: ts, EndTimestamp: ts, HashValues: []uint32{0}, MsgPosition: pos}
			part := m.Part
			if part == "" {
				part = "_default"
			}
			var tm msgstream.TsMsg
			switch m.Kind {
			case "ins":
				tm = &msgstream.InsertMsg{BaseMsg: bm, InsertRequest: &msgpb.InsertRequest{
					Base: &commonpb.MsgBase{MsgType: commonpb.MsgType_Insert, Timestamp: ts, MsgID: int64(*seq)}, DbName: c.DB, CollectionName: c.Name, PartitionName: part,
					CollectionID: c.ID, PartitionID: c.partID(m.Part), ShardName: sh.SrcV, NumRows: 2, Version: msgpb.InsertDataVersion_ColumnBased,
					RowIDs: []int64{int64(*seq)*10 + 1, int64(*seq)*10 + 2}, Timestamps: []uint64{ts, ts},
					FieldsData: []*schemapb.FieldData{{Type: schemapb.DataType_Int64, FieldName: "pk", FieldId: 100, Field: &schemapb.FieldData_Scalars{Scalars: &schemapb.ScalarField{
						Data: &schemapb.ScalarField_LongData{LongData: &schemapb.LongArray{Data: []int64{int64(*seq) * 100, int64(*seq)*100 + 1}}}}}}},
				}}
			case "del":
				tm = &msgstream.DeleteMsg{BaseMsg: bm, DeleteRequest: &msgpb.DeleteRequest{
					Base: &commonpb.MsgBase{MsgType: commonpb.MsgType_Delete, Timestamp: ts, MsgID: int64(*seq)}, DbName: c.DB, CollectionName: c.Name, PartitionName: part,
					CollectionID: c.ID, PartitionID: c.partID(m.Part), ShardName: sh.SrcV, NumRows: 1, Timestamps: []uint64{ts},
					PrimaryKeys: &schemapb.IDs{IdField: &schemapb.IDs_IntId{IntId: &schemapb.LongArray{Data: []int64{int64(*seq) * 100}}}},
				}}
			case "dropPart":
				tm = &msgstream.DropPartitionMsg{BaseMsg: bm, DropPartitionRequest: &msgpb.DropPartitionRequest{
					Base: &commonpb.MsgBase{MsgType: commonpb.MsgType_DropPartition, Timestamp: ts, MsgID: int64(*seq)}, DbName: c.DB, CollectionName: c.Name, PartitionName: part,
					CollectionID: c.ID, PartitionID: c.partID(m.Part),
				}}
			case "dropColl":
				tm = &msgstream.DropCollectionMsg{BaseMsg: bm, DropCollectionRequest: &msgpb.DropCollectionRequest{
					Base: &commonpb.MsgBase{MsgType: commonpb.MsgType_DropCollection, Timestamp: ts, MsgID: int64(*seq)}, DbName: c.DB, CollectionName: c.Name, CollectionID: c.ID,
				}}
			case "createPart":
				tm = &msgstream.CreatePartitionMsg{BaseMsg: bm, CreatePartitionRequest: &msgpb.CreatePartitionRequest{
					Base: &commonpb.MsgBase{MsgType: commonpb.MsgType_CreatePartition, Timestamp: ts, MsgID: int64(*seq)}, DbName: c.DB, CollectionName: c.Name, PartitionName: part,
					CollectionID: c.ID, PartitionID: c.partID(m.Part),
				}}
			case "createColl":
				tm = &msgstream.CreateCollectionMsg{BaseMsg: bm, CreateCollectionRequest: &msgpb.CreateCollectionRequest{
					Base: &commonpb.MsgBase{MsgType: commonpb.MsgType_CreateCollection, Timestamp: ts, MsgID: int64(*seq)}, DbName: c.DB, CollectionName: c.Name, CollectionID: c.ID,
				}}
			case "unsupported":
				tm = &msgstream.FlushMsg{BaseMsg: bm}
				tm = &msgstream.DataNodeTtMsg{BaseMsg: bm, DataNodeTtMsg: &msgpb.DataNodeTtMsg{Base: &commonpb.MsgBase{MsgType: commonpb.MsgType_DataNodeTt, Timestamp: ts}, ChannelName: sh.SrcV, Timestamp: ts}}
			default:
				panic("unknown msg kind " + m.Kind)
			}
			kind, pid := m.Kind, c.partID(m.Part)
			if m.New {
				pid = c.newPartID(m.Part)
				switch x := tm.(type) {
				case *msgstream.InsertMsg:
					x.PartitionID = pid
				case *msgstream.DeleteMsg:
					x.PartitionID = pid
				}
			}
			if m.Old {
				// (dropped on both sides: the statement allows such a message to be left out, the oracle does not expect it)
				kind, pid = m.Kind+"Old", c.oldPartID(m.Part)
				switch x := tm.(type) {
				case *msgstream.InsertMsg:
					x.PartitionID = pid
				case *msgstream.DeleteMsg:
					x.PartitionID = pid
				}
			}
			pack.Msgs = append(pack.Msgs, tm)
			src = append(src, &plSrcMsg{ID: id, Stream: sh.SrcV, Coll: c.ID, Kind: kind, Ts: ts, Part: part, PartID: pid, Pack: pi, Finger: plFinger(tm), NewInc: m.New})
		}
		// the dispatcher ends every pack with the time tick that closed it
		pack.Msgs = append(pack.Msgs, &msgstream.TimeTickMsg{
			BaseMsg:     msgstream.BaseMsg{BeginTimestamp: endTs, EndTimestamp: endTs, HashValues: []uint32{0}, MsgPosition: &msgpb.MsgPosition{ChannelName: sh.SrcV, MsgID: tickID, Timestamp: endTs}},
			TimeTickMsg: &msgpb.TimeTickMsg{Base: &commonpb.MsgBase{MsgType: commonpb.MsgType_TimeTick, Timestamp: endTs}},
		})
		packs = append(packs, pack)
		prevTick, prevID = endTs, tickID
	}
	return packs, src
}

// ------------------------------------------------------------------------------------------------
// one execution

type plOut struct {
	PChannel string
	Msg      *api.ReplicateMsg
}

type plRun struct {
	sc      *plScenario
	ctl     *sched.Ctl
	mq      *fakemq.MQ
	target  *plTarget
	mgr     *replicateChannelManager
	src     []*plSrcMsg
	srcByID map[string]*plSrcMsg
	outs    map[string][]*api.ReplicateMsg // downstream pchannel -> packs in arrival order
	chans   []string
	events  []*api.ReplicateAPIEvent
	mapSnaps       []map[string]string // channel assignment (mapping key -> image) at every scheduling point
	dropSeen       chan struct{} // closed when the first drop request has been issued
	announced      map[string]bool // partitions whose creation has been announced
	barrierSignals int
	barrierSeen    chan struct{}
	barrierOnce    sync.Once
	stopSeen       chan struct{} // closed when a resume driver has stopped its collection
	firstDone      chan struct{} // closed when the first driver has returned
	stopOnce       sync.Once
	dropSeenClosed bool
	evAt    []int // number of packs delivered (per stream) when the event was observed -> snapshot
	evDelivered []map[string]int
	delivered   map[string]int // stream -> packs handed to the reader so far
	computed    []string       // order in which packs passed pack.computed (key = stream/coll label)
	driverErr   map[string]error
	driverDone  map[string]bool
	replicateID string
	cancel      context.CancelFunc
	clockLeft   int
	wrapped     map[*replicateChannelHandler]bool
	inAddPart   map[int64]bool
	inStart     map[int64]string // goroutine id -> driver name, while the driver is inside StartReadCollection
	hmu         sync.Mutex       // harness bookkeeping (only contended in the free-running race pass)
}

var plExecSeq int

func plResetGlobals() {
	tsOnce = sync.Once{}
	tsInstance = nil
	tsOnce.Do(func() {
		tsInstance = &tsManager{
			retryOptions:       util.NoRetryOption(),
			lastTS:             util.NewValue[uint64](0),
			rateLog:            log.NewRateLog(1, log.L()),
			channelTS2:         typeutil.NewConcurrentMap[string, *tsInfo](),
			channelTSLocks:     lock.NewKeyLock[string](),
			targetChannelChans: typeutil.NewConcurrentMap[string, chan string](),
		}
	})
}

func plTaskCtx(ctx context.Context, task string) context.Context {
	return util.GetCtxWithTaskID(ctx, task)
}

func (c *plColl) info() *pb.CollectionInfo {
	var v, p []string
	var sp []*commonpb.KeyDataPair
	for _, sh := range c.Shards {
		v = append(v, sh.SrcV)
		pc := funcutil.ToPhysicalChannel(sh.SrcV)
		p = append(p, pc)
		sp = append(sp, &commonpb.KeyDataPair{Key: pc, Data: []byte("start-" + pc)})
	}
	st := pb.CollectionState_CollectionCreated
	if c.Dropped {
		st = pb.CollectionState_CollectionDropped
	}
	return &pb.CollectionInfo{ID: c.ID, Schema: &schemapb.CollectionSchema{Name: c.Name}, State: st, CreateTime: plTs(900, 0),
		VirtualChannelNames: v, PhysicalChannelNames: p, StartPositions: sp, ShardsNum: int32(len(c.Shards))}
}

func plExecute(t *testing.T, sc *plScenario, ctl *sched.Ctl) *plRun {
	plExecSeq++
	plResetGlobals()
	pool := conc.NewPool[struct{}](10)
	replicatePool = pool
	r := &plRun{sc: sc, ctl: ctl, srcByID: map[string]*plSrcMsg{}, outs: map[string][]*api.ReplicateMsg{}, delivered: map[string]int{},
		driverErr: map[string]error{}, driverDone: map[string]bool{}, wrapped: map[*replicateChannelHandler]bool{}, inAddPart: map[int64]bool{}, inStart: map[int64]string{}, replicateID: fmt.Sprintf("rid%d", plExecSeq), clockLeft: sc.Clock}
	r.dropSeen = make(chan struct{})
	r.stopSeen = make(chan struct{})
	r.firstDone = make(chan struct{})
	r.announced = map[string]bool{}
	r.barrierSeen = make(chan struct{})
	r.mq = fakemq.New(plSched{r})
	r.mq.ParkRegister = sc.ParkRegister
	r.target = &plTarget{colls: map[string]*model.CollectionInfo{}}
	if sc.ParkTargetInStart {
		r.target.park = func(name string) {
			r.hmu.Lock()
			drv, ok := r.inStart[schedGoid()]
			r.hmu.Unlock()
			if ok {
				r.pt("drv:"+drv, "target-lookup", false)
			}
		}
	}
	mo := &plMetaOp{colls: map[int64]*plColl{}}
	if sc.PartAppearsOnAnnounce {
		mo.hidden = func(part string) bool {
			r.hmu.Lock()
			defer r.hmu.Unlock()
			return !r.announced[part]
		}
	}
	seq := 0
	for _, c := range sc.Colls {
		mo.colls[c.ID] = c
		if !c.TgtMissing {
			r.target.colls[r.target.key(c.DB, c.Name)] = r.targetInfo(c)
		}
		for _, sh := range c.Shards {
			packs, src := plBuildLog(c, sh, &seq, sc.MsgPosPChannel)
			r.mq.SetLog(sh.SrcV, packs)
			r.src = append(r.src, src...)
			for _, s := range src {
				r.srcByID[s.ID] = s
			}
		}
	}
	store := &plStore{kv: map[string]string{}}
	rm, err := meta.NewReplicateMetaImpl(store)
	if err != nil {
		t.Fatal(err)
	}
	ctx, cancel := context.WithCancel(context.Background())
	r.cancel = cancel
	// The connectivity check of a new channel handler is a scheduling point ONLY when the caller does not hold the
	// manager's channel lock (probed with TryLock): under the lock nobody else can reach the channel tables and a
	// goroutine parked there would block the others on a mutex; outside the lock the check-then-act window of
	// startReadChannel is open and has to be explored.
	fac := &fakemq.Factory{MQ: r.mq}
	if sc.ConnFailAt > 0 {
		n := 0
		fac.AsConsumerErr = func(chs []string) error {
			n++
			if n == sc.ConnFailAt {
				return errors.New("injected: the source message queue refuses the connection")
			}
			return nil
		}
	}
	fac.OnNewStream = func() {
		if r.mgr == nil {
			return
		}
		if r.mgr.channelLock.TryLock() {
			r.mgr.channelLock.Unlock()
			r.hmu.Lock()
			who, ok := r.inStart[schedGoid()]
			r.hmu.Unlock()
			if !ok {
				who = "other"
			}
			r.pt("conncheck:"+who, "unlocked", false)
		}
	}
	var tgt api.TargetAPI = r.target
	downstream := "milvus"
	if sc.Kafka {
		tgt, downstream = nil, "kafka" // (as newReplicateEntity does for a task without a Milvus address)
	}
	cm, err := NewReplicateChannelManager(r.mq, fac, tgt, config.ReaderConfig{
		MessageBufferSize: 256, TTInterval: 500, Retry: config.RetrySettings{RetryTimes: sc.retryTimes(), InitBackOff: 1, MaxBackOff: 1},
		SourceChannelNum: sc.SrcN, TargetChannelNum: sc.TgtN, ReplicateID: r.replicateID,
	}, mo, rm, nil, downstream)
	if err != nil {
		t.Fatal(err)
	}
	r.mgr = cm.(*replicateChannelManager)
	r.mgr.SetCtx(ctx)
	if sc.SlowEvents {
		// the per-target event queue (capacity 10) is full of other requests and its consumer is slow
		for i := 0; i < cap(r.mgr.apiEventChan); i++ {
			r.mgr.apiEventChan <- &api.ReplicateAPIEvent{EventType: plFillerEvent}
		}
	}
	util.SetVerifPointFunc(func(name, key string) {
		if name == "pack.computed" {
			r.hmu.Lock()
			r.computed = append(r.computed, key)
			r.hmu.Unlock()
		}
		last := false
		if name == "barrier.signal" {
			r.hmu.Lock()
			r.barrierSignals++
			last = r.barrierSignals == len(sc.Colls[0].Shards)
			r.hmu.Unlock()
		}
		if last {
			// (the gate opens when the barrier goroutine goes on from its last signal: it then runs the callback, which
			// blocks on the full event queue within the same step)
			defer r.barrierOnce.Do(func() { close(r.barrierSeen) })
		}
		if sc.Hooks != "all" && name != "pack.computed" && name != "barrier.signal" {
			return
		}
		r.pt("h:"+key, name, false)
	})
	// event consumer: plays the writer - applies create events to the downstream catalog
	go func() {
		for {
			if sc.SlowEvents {
				r.pt("z-events", "take", false) // (sorts last: the consumer runs when nothing else can)
			}
			select {
			case <-ctx.Done():
				return
			case e := <-r.mgr.apiEventChan:
				if e.EventType == plFillerEvent {
					continue
				}
				r.hmu.Lock()
				snap := map[string]int{}
				for k, v := range r.delivered {
					snap[k] = v
				}
				r.events = append(r.events, e)
				r.evDelivered = append(r.evDelivered, snap)
				if (e.EventType == api.ReplicateDropCollection || e.EventType == api.ReplicateDropPartition) && !r.dropSeenClosed {
					r.dropSeenClosed = true
					close(r.dropSeen)
				}
				r.hmu.Unlock()
				r.applyEvent(e)
			}
		}
	}()
	for i, d := range sc.Drivers {
		i, d := i, d
		name := fmt.Sprintf("%s:%s%s#%d", d.Kind, sc.Colls[d.Coll].Name, d.Part, i)
		go func() {
			if d.AfterDrop {
				<-r.dropSeen
			}
			if d.AfterStop {
				<-r.stopSeen
			}
			if d.AfterBarrier {
				<-r.barrierSeen
			}
			if d.AfterFirst {
				<-r.firstDone
			}
			r.pt("drv:"+name, "go", true)
			c := sc.Colls[d.Coll]
			tctx := plTaskCtx(ctx, "task-"+c.Name)
			var err error
			switch d.Kind {
			case "start":
				var seek []*msgpb.MsgPosition
				if c.SeekMs != 0 {
					for _, sh := range c.Shards {
						pc := funcutil.ToPhysicalChannel(sh.SrcV)
						seek = append(seek, &msgpb.MsgPosition{ChannelName: pc, MsgID: []byte("start-" + pc), Timestamp: plTs(c.SeekMs, 0)})
					}
				}
				r.hmu.Lock()
				r.inStart[schedGoid()] = name
				r.hmu.Unlock()
				err = r.mgr.StartReadCollection(tctx, &model.DatabaseInfo{ID: 1, Name: c.DB}, c.info(), seek, nil)
				r.hmu.Lock()
				delete(r.inStart, schedGoid())
				r.hmu.Unlock()
			case "addpart":
				r.wrapHandlers()
				r.hmu.Lock()
				r.inAddPart[schedGoid()] = true
				r.announced[d.Part] = true
				r.hmu.Unlock()
				pid := c.partID(d.Part)
				if d.OldPart {
					pid = c.oldPartID(d.Part)
				}
				if d.NewPart {
					pid = c.newPartID(d.Part)
				}
				err = r.mgr.AddPartition(tctx, &model.DatabaseInfo{ID: 1, Name: c.DB}, c.info(),
					&pb.PartitionInfo{PartitionID: pid, PartitionName: d.Part, CollectionId: c.ID, PartitionCreatedTimestamp: plTs(950, 0), State: d.PartState})
			case "stop":
				err = r.mgr.StopReadCollection(tctx, c.info())
			case "resume":
				err = r.mgr.StopReadCollection(tctx, c.info())
				r.stopOnce.Do(func() { close(r.stopSeen) })
				if err == nil {
					r.pt("drv:"+name, "resume-start", false)
					var seek []*msgpb.MsgPosition
					for _, sh := range c.Shards {
						pc := funcutil.ToPhysicalChannel(sh.SrcV)
						id := []byte("start-" + pc)
						if le := r.mq.LastEnd(sh.SrcV); le != nil && !d.ResumeFromStart {
							id = le.MsgID // the checkpoint of a stream that had been read to its end
						}
						seek = append(seek, &msgpb.MsgPosition{ChannelName: pc, MsgID: id, Timestamp: plTs(d.ResumeSeekMs, 0)})
					}
					info := c.info()
					if d.ResumeDropped {
						info.State = pb.CollectionState_CollectionDropped
					}
					err = r.mgr.StartReadCollection(tctx, &model.DatabaseInfo{ID: 1, Name: c.DB}, info, seek, nil)
				}
				if err == nil && d.Part != "" {
					r.pt("drv:"+name, "resume-addpart", false)
					err = r.mgr.AddPartition(tctx, &model.DatabaseInfo{ID: 1, Name: c.DB}, c.info(),
						&pb.PartitionInfo{PartitionID: c.partID(d.Part), PartitionName: d.Part, CollectionId: c.ID, PartitionCreatedTimestamp: plTs(950, 0), State: d.PartState})
				}
			}
			r.snapMapping() // (the assignment as every driver leaves it: a driver may run to its end without a scheduling point)
			r.hmu.Lock()
			r.driverErr[name] = err
			r.driverDone[name] = true
			r.hmu.Unlock()
			if i == 0 {
				close(r.firstDone)
			}
		}()
	}
	if sc.Clock > 0 {
		ctl.Actions = func() []sched.Action {
			if r.clockLeft <= 0 {
				return nil
			}
			return []sched.Action{{Label: "clock+tick", Cost: 0, Do: func() {
				r.clockLeft--
				time.Sleep(500 * time.Millisecond)
			}}}
		}
	}
	ctl.Loop(nil)
	// collect the outputs: drain every downstream channel queue (white-box, no consumer goroutines needed)
	GetTSManager().channelTS2.Range(func(key string, info *tsInfo) bool {
		rid, pch := ParseChanKey(key)
		if rid != r.replicateID || info.targetMsgChan == nil {
			return true
		}
		for {
			select {
			case m := <-info.targetMsgChan:
				r.outs[pch] = append(r.outs[pch], m)
				continue
			default:
			}
			break
		}
		return true
	})
	if c := GetTSManager().GetTargetChannelChan(r.replicateID); c != nil {
		for {
			select {
			case n := <-c:
				r.chans = append(r.chans, n)
				continue
			default:
			}
			break
		}
	}
	return r
}

// teardown stops everything that can be stopped so that goroutines do not pile up across executions.
func (r *plRun) teardown() {
	util.SetVerifPointFunc(func(name, key string) {})
	r.cancel()
	r.mq.Close()
	replicatePool.Release()
}

// wrapHandlers turns the handlers' dropped-collection probe into a scheduling point for goroutines that are inside
// AddPartition (white-box: the probe is a function field of the handler and is called outside every lock).
func (r *plRun) wrapHandlers() {
	if !r.sc.PointInAddPartition {
		return
	}
	r.mgr.channelLock.RLock()
	defer r.mgr.channelLock.RUnlock()
	for key, h := range r.mgr.channelHandlerMap {
		if r.wrapped[h] {
			continue
		}
		r.wrapped[h] = true
		orig, key := h.isDroppedCollection, key
		h.isDroppedCollection = func(id int64) bool {
			r.hmu.Lock()
			in := r.inAddPart[schedGoid()]
			r.hmu.Unlock()
			if in {
				r.pt("addpart:"+key, "probe", false)
			}
			return orig(id)
		}
	}
}

// pt is every scheduling point of the pipeline harness: before parking, the manager's channel assignment (queried
// through the public methods of util.ChannelMapping for every pair of channel names of the scenario) is recorded, so
// that the C16 oracle sees every assignment that ever existed, not only the final table.
func (r *plRun) pt(key, label string, free bool) {
	r.snapMapping()
	r.ctl.Point(key, label, free)
}

// snapMapping records the channel assignment as util.ChannelMapping reports it now.
func (r *plRun) snapMapping() {
	if r.sc.WatchMapping && r.mgr != nil {
		srcs, tgts := r.sc.physChannels()
		snap := map[string]string{}
		for _, s := range srcs {
			for _, t := range tgts {
				if r.mgr.channelMapping.CheckKeyExist(s, t) {
					k, v := r.mgr.channelMapping.GetMapKey(s, t), r.mgr.channelMapping.GetMapValue(s, t)
					if old, dup := snap[k]; dup && old != v {
						snap[k] = old + "|" + v
					} else {
						snap[k] = v
					}
				}
			}
		}
		r.hmu.Lock()
		r.mapSnaps = append(r.mapSnaps, snap)
		r.hmu.Unlock()
	}
}

type plSched struct{ r *plRun }

func (s plSched) Point(key, label string, free bool) {
	s.r.pt(key, label, free)
	if label == "deliver" {
		s.r.hmu.Lock()
		s.r.delivered[strings.TrimPrefix(key, "stream:")]++
		s.r.hmu.Unlock()
	}
}

func (r *plRun) targetInfo(c *plColl) *model.CollectionInfo {
	ci := &model.CollectionInfo{DatabaseName: c.DB, CollectionID: c.TgtID, CollectionName: c.Name, Partitions: map[string]int64{"_default": c.TgtID*10 + 1}}
	vs := make([]string, 0, len(c.Shards))
	for _, sh := range c.Shards {
		vs = append(vs, sh.TgtV)
	}
	sort.Slice(vs, func(i, j int) bool { return vs[i][strings.LastIndex(vs[i], "v"):] < vs[j][strings.LastIndex(vs[j], "v"):] })
	for _, v := range vs {
		ci.VChannels = append(ci.VChannels, v)
		ci.PChannels = append(ci.PChannels, funcutil.ToPhysicalChannel(v))
	}
	for k, v := range c.TgtParts {
		ci.Partitions[k] = v
	}
	return ci
}

// downstream partition id convention: target collection id * 10 + a small per-name number
func (c *plColl) tgtPartID(name string) int64 {
	if name == "" || name == "_default" {
		return c.TgtID*10 + 1
	}
	if id, ok := c.TgtParts[name]; ok {
		return id
	}
	return c.TgtID*10 + 2 + int64(len(name))
}

func (r *plRun) applyEvent(e *api.ReplicateAPIEvent) {
	if r.sc.Kafka {
		return // no downstream catalog
	}
	r.target.mu.Lock()
	defer r.target.mu.Unlock()
	var c *plColl
	for _, x := range r.sc.Colls {
		if e.CollectionInfo != nil && x.ID == e.CollectionInfo.ID {
			c = x
		}
	}
	if c == nil {
		return
	}
	k := r.target.key(c.DB, c.Name)
	switch e.EventType {
	case api.ReplicateCreateCollection:
		if _, ok := r.target.colls[k]; !ok {
			r.target.colls[k] = r.targetInfo(c)
		}
	case api.ReplicateCreatePartition:
		if ci, ok := r.target.colls[k]; ok {
			ci.Partitions[e.PartitionInfo.PartitionName] = c.tgtPartID(e.PartitionInfo.PartitionName)
			if e.PartitionInfo.PartitionID == c.newPartID(e.PartitionInfo.PartitionName) {
				// (the downstream gives a partition that is created again a new id)
				ci.Partitions[e.PartitionInfo.PartitionName] += plNewIncOffset
			}
		}
	case api.ReplicateDropPartition:
		if ci, ok := r.target.colls[k]; ok && !r.sc.SlowDropOnTarget {
			delete(ci.Partitions, e.PartitionInfo.PartitionName)
		}
	case api.ReplicateDropCollection:
		if !r.sc.SlowDropOnTarget {
			delete(r.target.colls, k)
		}
	}
}
