//go:build verif

package store

// Harness constructor (overlay only): the real EtcdMetaStore with its real task / position stores and
// its real Txn code, around an injected etcd client (NewEtcdMetaStore dials and checks endpoints).

import (
	"context"
	"database/sql"

	"github.com/milvus-io/milvus/pkg/util/lock"
	clientv3 "go.etcd.io/etcd/client/v3"

	api2 "github.com/zilliztech/milvus-cdc/core/api"
	"github.com/zilliztech/milvus-cdc/core/log"
)

// VerifResetLocks: a new process incarnation starts with no position record lock held.
func VerifResetLocks() { positionUpdateLocks = lock.NewKeyLock[string]() }

func NewVerifEtcdMetaStore(cli *clientv3.Client, rootPath string, rep api2.ReplicateStore) *EtcdMetaStore {
	txnMap := make(map[any][]clientv3.Op)
	l := log.L()
	return &EtcdMetaStore{
		log:                         l,
		etcdClient:                  cli,
		replicateStore:              rep,
		taskInfoStore:               &TaskInfoEtcdStore{log: l, rootPath: rootPath, etcdClient: cli, txnMap: txnMap},
		taskCollectionPositionStore: &TaskCollectionPositionEtcdStore{log: l, rootPath: rootPath, etcdClient: cli, txnMap: txnMap},
		txnMap:                      txnMap,
	}
}

// NewVerifMySQLMetaStore builds the real MySQLMetaStore (real task / position / replicate stores, real Txn)
// around an injected *sql.DB (NewMySQLMetaStore opens and pings a MySQL server).
func NewVerifMySQLMetaStore(ctx context.Context, db *sql.DB, rootPath string) (*MySQLMetaStore, error) {
	txnMap := make(map[any]func() *sql.Tx)
	ti, err := NewTaskInfoMysqlStore(ctx, db, rootPath, txnMap)
	if err != nil {
		return nil, err
	}
	tp, err := NewTaskCollectionPositionMysqlStore(ctx, db, rootPath, txnMap)
	if err != nil {
		return nil, err
	}
	// the table creation of NewMySQLReplicateStore
	if _, err = db.ExecContext(ctx, `
		CREATE TABLE IF NOT EXISTS task_msg (
			task_msg_key VARCHAR(255) NOT NULL,
			task_msg_value JSON NOT NULL,
			PRIMARY KEY (task_msg_key),
			INDEX idx_key (task_msg_key)
		)
	`); err != nil {
		return nil, err
	}
	l := log.L()
	return &MySQLMetaStore{log: l, db: db, taskInfoStore: ti, taskCollectionPositionStore: tp,
		replicateStore: &MySQLReplicateStore{log: l, db: db, rootPath: rootPath}, txnMap: txnMap}, nil
}
