package server

import (
	"encoding/json"

	"github.com/sasha-s/go-deadlock"
)

func jsonUnmarshalS(b []byte, v interface{}) error { return json.Unmarshal(b, v) }

func init() { deadlock.Opts.Disable = true }
