package srccat

// Source Catalog model shared by the C13 / C15 harnesses: a Catalog is produced by a *history* of
// legal root-coord operations (so impossible catalogs cannot raise alarms) and written into fakeetcd
// with the key layout and value encodings Milvus uses.

import (
	"encoding/binary"
	"fmt"
	"sort"
	"strings"
	"time"

	"github.com/milvus-io/milvus-proto/go-api/v2/commonpb"
	"github.com/milvus-io/milvus-proto/go-api/v2/schemapb"
	"github.com/milvus-io/milvus/pkg/util/tsoutil"
	"google.golang.org/protobuf/proto"

	"github.com/zilliztech/milvus-cdc/core/pb"
	"github.com/zilliztech/milvus-cdc/core/verifkit/fakeetcd"
)

const (
	Root = "by-dev"
	Meta = "meta"

	collectionPrefix = "root-coord/database/collection-info"
	partitionPrefix  = "root-coord/partitions"
	fieldPrefix      = "root-coord/fields"
	databasePrefix   = "root-coord/database/db-info"
	tsPrefix         = "kv/gid/timestamp"
)

type Coll struct {
	ID, DB   int64
	Name     string
	State    string // creating | created | dropping | dropped | tombstone
	CreateTs uint64
	Shards   int
}

type Part struct {
	ID, Coll int64
	Name     string
	State    string
	CreateTs uint64
}

type DB struct {
	ID    int64
	Name  string
	State string // live | tombstone
}

type Catalog struct {
	DBs    []*DB
	Colls  []*Coll
	Parts  []*Part
	NowMs  int64 // source clock in ms; every op advances it
	nextID int64
}

type Op struct {
	Kind string `json:"k"`
	DB   int64  `json:"db,omitempty"`
	Name string `json:"n,omitempty"`
}

func (o Op) String() string { return fmt.Sprintf("%s(%d,%s)", o.Kind, o.DB, o.Name) }

func New() *Catalog {
	return &Catalog{DBs: []*DB{{ID: 1, Name: "default", State: "live"}}, NowMs: 1000, nextID: 100}
}

func (c *Catalog) Ts() uint64 { return tsoutil.ComposeTS(c.NowMs, 0) }

func (c *Catalog) Db(id int64) *DB {
	for _, d := range c.DBs {
		if d.ID == id {
			return d
		}
	}
	return nil
}

// live (created or creating) incarnation of a collection name in a db
func (c *Catalog) LiveColl(db int64, name string) *Coll {
	for _, x := range c.Colls {
		if x.DB == db && x.Name == name && (x.State == "created" || x.State == "creating") {
			return x
		}
	}
	return nil
}

func (c *Catalog) NewestColl(db int64, name string, states ...string) *Coll {
	var best *Coll
	for _, x := range c.Colls {
		if x.DB != db || x.Name != name {
			continue
		}
		for _, s := range states {
			if x.State == s {
				best = x
			}
		}
	}
	return best
}

func (c *Catalog) LivePart(coll int64, name string) *Part {
	for _, p := range c.Parts {
		if p.Coll == coll && p.Name == name && (p.State == "created" || p.State == "creating") {
			return p
		}
	}
	return nil
}

// PartName: the name of the one user partition the operations of a database create (a harness may give the databases
// different names, e.g. one that contains the default partition's name)
var PartName = func(db int64) string { return "p" }

// apply executes one op if it is legal in the current Catalog; returns false otherwise.
func (c *Catalog) Apply(o Op) bool {
	c.NowMs += 10
	d := c.Db(o.DB)
	switch o.Kind {
	case "createDB":
		if d != nil && d.State == "live" {
			return false
		}
		c.nextID++
		c.DBs = append(c.DBs, &DB{ID: c.nextID, Name: o.Name, State: "live"})
		return true
	case "dropDB": // only an empty database can be dropped
		if d == nil || d.State != "live" || d.ID == 1 {
			return false
		}
		for _, x := range c.Colls {
			if x.DB == d.ID && (x.State == "created" || x.State == "creating") {
				return false
			}
		}
		d.State = "tombstone"
		return true
	}
	if d == nil || d.State != "live" {
		// collections of a dropped database can still be garbage collected
		if o.Kind != "gcColl" {
			return false
		}
	}
	switch o.Kind {
	case "createColl", "beginCreateColl":
		if c.LiveColl(o.DB, o.Name) != nil {
			return false
		}
		c.nextID++
		st := "created"
		if o.Kind == "beginCreateColl" {
			st = "creating"
		}
		c.Colls = append(c.Colls, &Coll{ID: c.nextID, DB: o.DB, Name: o.Name, State: st, CreateTs: c.Ts(), Shards: 1})
		return true
	case "finishCreateColl":
		x := c.NewestColl(o.DB, o.Name, "creating")
		if x == nil {
			return false
		}
		x.State = "created"
		return true
	case "abortCreateColl": // creating -> tombstone
		x := c.NewestColl(o.DB, o.Name, "creating")
		if x == nil {
			return false
		}
		x.State = "tombstone"
		return true
	case "dropColl": // created -> dropping
		x := c.NewestColl(o.DB, o.Name, "created")
		if x == nil {
			return false
		}
		x.State = "dropping"
		return true
	case "droppedColl": // dropping -> dropped
		x := c.NewestColl(o.DB, o.Name, "dropping")
		if x == nil {
			return false
		}
		x.State = "dropped"
		return true
	case "gcColl": // dropping/dropped -> tombstone (its partitions too)
		x := c.NewestColl(o.DB, o.Name, "dropping", "dropped")
		if x == nil {
			return false
		}
		x.State = "tombstone"
		for _, p := range c.Parts {
			if p.Coll == x.ID {
				p.State = "tombstone"
			}
		}
		return true
	case "renameColl": // a <-> b: the record keeps its id and its creation time, only the name changes
		other := map[string]string{"a": "b", "b": "a"}[o.Name]
		x := c.LiveColl(o.DB, o.Name)
		if other == "" || x == nil || x.State != "created" || c.LiveColl(o.DB, other) != nil {
			return false
		}
		// (scope: the renamed collection has no user partitions at the time of the rename - it may get them afterwards; the
		// dropped holder of the name it takes over may have had them)
		for _, p := range c.Parts {
			if p.State == "tombstone" {
				continue
			}
			if p.Coll == x.ID {
				return false
			}
		}
		x.Name = other
		return true
	case "createPart":
		x := c.NewestColl(o.DB, o.Name, "created")
		pn := PartName(o.DB)
		if x == nil || c.LivePart(x.ID, pn) != nil {
			return false
		}
		c.nextID++
		c.Parts = append(c.Parts, &Part{ID: c.nextID, Coll: x.ID, Name: pn, State: "created", CreateTs: c.Ts()})
		return true
	case "dropPart":
		x := c.NewestColl(o.DB, o.Name, "created")
		if x == nil {
			return false
		}
		p := c.LivePart(x.ID, PartName(o.DB))
		if p == nil {
			return false
		}
		p.State = "dropped"
		return true
	case "gcPart":
		x := c.NewestColl(o.DB, o.Name, "created")
		if x == nil {
			return false
		}
		for _, p := range c.Parts {
			if p.Coll == x.ID && p.State == "dropped" {
				p.State = "tombstone"
				return true
			}
		}
		return false
	}
	return false
}

func Build(hist []Op) (*Catalog, bool) {
	c := New()
	for _, o := range hist {
		if !c.Apply(o) {
			return nil, false
		}
	}
	return c, true
}

// canon: Catalog content without ids/timestamps (ids and clocks are assigned deterministically from the history,
// but two histories with the same shape and different lengths differ only in absolute values)
func (c *Catalog) Canon() string {
	s := ""
	for _, d := range c.DBs {
		s += fmt.Sprintf("D%d:%s:%s;", d.ID, d.Name, d.State)
	}
	for _, x := range c.Colls {
		s += fmt.Sprintf("C%d@%d:%s:%s:%d;", x.ID, x.DB, x.Name, x.State, x.CreateTs)
	}
	for _, p := range c.Parts {
		s += fmt.Sprintf("P%d@%d:%s:%s:%d;", p.ID, p.Coll, p.Name, p.State, p.CreateTs)
	}
	return s
}

var Tombstone = []byte{0xE2, 0x9B, 0xBC}

func collState(s string) pb.CollectionState {
	return map[string]pb.CollectionState{"created": pb.CollectionState_CollectionCreated, "creating": pb.CollectionState_CollectionCreating,
		"dropping": pb.CollectionState_CollectionDropping, "dropped": pb.CollectionState_CollectionDropped}[s]
}

func partState(s string) pb.PartitionState {
	return map[string]pb.PartitionState{"created": pb.PartitionState_PartitionCreated, "creating": pb.PartitionState_PartitionCreating,
		"dropping": pb.PartitionState_PartitionDropping, "dropped": pb.PartitionState_PartitionDropped}[s]
}

func DBKey(id int64) string {
	return fmt.Sprintf("%s/%s/%s/%d", Root, Meta, databasePrefix, id)
}
func CollKey(db, id int64) string {
	return fmt.Sprintf("%s/%s/%s/%d/%d", Root, Meta, collectionPrefix, db, id)
}
func PartKey(coll, id int64) string {
	return fmt.Sprintf("%s/%s/%s/%d/%d", Root, Meta, partitionPrefix, coll, id)
}
func FieldKey(coll, id int64) string {
	return fmt.Sprintf("%s/%s/%s/%d/%d", Root, Meta, fieldPrefix, coll, id)
}

func (x *Coll) Vchannels() ([]string, []string) {
	var v, p []string
	for i := 0; i < x.Shards; i++ {
		pc := fmt.Sprintf("src-dml_%d", i)
		p = append(p, pc)
		v = append(v, fmt.Sprintf("%s_%dv%d", pc, x.ID, i))
	}
	return v, p
}

func (x *Coll) Info() *pb.CollectionInfo {
	v, p := x.Vchannels()
	var sp []*commonpb.KeyDataPair
	for _, pc := range p {
		sp = append(sp, &commonpb.KeyDataPair{Key: pc, Data: []byte("start-" + pc)})
	}
	return &pb.CollectionInfo{ID: x.ID, DbId: x.DB, CreateTime: x.CreateTs, State: collState(x.State), ShardsNum: int32(x.Shards),
		Schema: &schemapb.CollectionSchema{Name: x.Name}, VirtualChannelNames: v, PhysicalChannelNames: p, StartPositions: sp}
}

func (p *Part) Info() *pb.PartitionInfo {
	return &pb.PartitionInfo{PartitionID: p.ID, PartitionName: p.Name, CollectionId: p.Coll, PartitionCreatedTimestamp: p.CreateTs, State: partState(p.State)}
}

func MustMarshal(m proto.Message) []byte {
	b, err := proto.Marshal(m)
	if err != nil {
		panic(err)
	}
	return b
}

// Render returns the etcd image (key -> value) of the catalog.
func (c *Catalog) Render() map[string][]byte {
	out := map[string][]byte{}
	for _, d := range c.DBs {
		if d.State == "tombstone" {
			out[DBKey(d.ID)] = Tombstone
		} else {
			out[DBKey(d.ID)] = MustMarshal(&pb.DatabaseInfo{Id: d.ID, Name: d.Name, State: pb.DatabaseState_DatabaseCreated})
		}
	}
	for _, x := range c.Colls {
		if x.State == "tombstone" {
			out[CollKey(x.DB, x.ID)] = Tombstone
			continue
		}
		out[FieldKey(x.ID, 100)] = MustMarshal(&schemapb.FieldSchema{FieldID: 100, Name: "pk", IsPrimaryKey: true, DataType: schemapb.DataType_Int64})
		out[CollKey(x.DB, x.ID)] = MustMarshal(x.Info())
	}
	for _, p := range c.Parts {
		if p.State == "tombstone" {
			out[PartKey(p.Coll, p.ID)] = Tombstone
			continue
		}
		out[PartKey(p.Coll, p.ID)] = MustMarshal(p.Info())
	}
	b := make([]byte, 8)
	binary.BigEndian.PutUint64(b, uint64(time.UnixMilli(c.NowMs+5).UnixNano()))
	out[fmt.Sprintf("%s/%s", Root, tsPrefix)] = b
	return out
}

// Write stores the catalog into fe, writing only keys whose value changed (field keys before the
// collection key, as root coord does), so that watchers see exactly the changes.
func (c *Catalog) Write(fe *fakeetcd.Fake) {
	want := c.Render()
	have := fe.Dump()
	var keys []string
	for k := range want {
		keys = append(keys, k)
	}
	sort.Slice(keys, func(i, j int) bool {
		fi, fj := strings.Contains(keys[i], fieldPrefix), strings.Contains(keys[j], fieldPrefix)
		if fi != fj {
			return fi
		}
		return keys[i] < keys[j]
	})
	for _, k := range keys {
		if old, ok := have[k]; ok && old == string(want[k]) {
			continue
		}
		fe.PutRaw(k, want[k])
	}
}

func (c *Catalog) WriteTSO(fe *fakeetcd.Fake) {
	b := make([]byte, 8)
	binary.BigEndian.PutUint64(b, uint64(time.UnixMilli(c.NowMs+5).UnixNano()))
	fe.PutRaw(fmt.Sprintf("%s/%s", Root, tsPrefix), b)
}

func (c *Catalog) NowTT() uint64 { return tsoutil.ComposeTSByTime(time.UnixMilli(c.NowMs+5), 0) }


// CollByID finds an incarnation by id.
func (c *Catalog) CollByID(id int64) *Coll {
	for _, x := range c.Colls {
		if x.ID == id {
			return x
		}
	}
	return nil
}
