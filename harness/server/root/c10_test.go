package server

// C10: explicit-state BFS over create / delete / failed-create / restart histories on the real MetaCDC.
// After every operation the selection made by the data path (GetShouldReadFunc) and by the DDL path
// (GetCollectionInfos + MatchCollection) of every accepted task is evaluated for every (db, collection) of a
// small universe and compared with a reference; rejects must leave everything untouched; the bookkeeping
// must equal what a fresh reload of the same store yields (differential oracle).

import (
	"context"
	"errors"
	"fmt"
	"os"
	"sort"
	"strings"
	"testing"
	"time"

	"github.com/milvus-io/milvus-proto/go-api/v2/schemapb"

	coremodel "github.com/zilliztech/milvus-cdc/core/model"
	"github.com/zilliztech/milvus-cdc/core/pb"
	"github.com/zilliztech/milvus-cdc/core/verifkit/ev"
	"github.com/zilliztech/milvus-cdc/core/verifkit/fakeetcd"
	"github.com/zilliztech/milvus-cdc/core/verifkit/fakemq"
	"github.com/zilliztech/milvus-cdc/server/model"
	"github.com/zilliztech/milvus-cdc/server/model/meta"
	"github.com/zilliztech/milvus-cdc/server/model/request"
)

type c10Spec struct {
	Name     string `json:"name"`
	Legacy   string `json:"legacy,omitempty"` // CollectionInfos name
	DB       string `json:"db,omitempty"`     // DBCollections key
	Coll     string `json:"coll,omitempty"`
	UserRole bool   `json:"user_role,omitempty"`
	Mapping  bool   `json:"mapping,omitempty"`
	NoAuto   bool   `json:"no_auto,omitempty"` // created with auto start disabled: after a restart the task stays paused
}

var c10Specs = []c10Spec{
	{Name: "a", Legacy: "a"},
	{Name: "b", Legacy: "b"},
	{Name: "*", Legacy: "*"},
	{Name: "default/a", DB: "default", Coll: "a"},
	{Name: "default/*", DB: "default", Coll: "*"},
	{Name: "db1/a", DB: "db1", Coll: "a"},
	{Name: "db1/*", DB: "db1", Coll: "*"},
	{Name: "*/*", DB: "*", Coll: "*"},
	{Name: "*/a", DB: "*", Coll: "a"},
	{Name: "a+role", Legacy: "a", UserRole: true},
	{Name: "db1/*+role", DB: "db1", Coll: "*", UserRole: true},
	{Name: "b+map", Legacy: "b", Mapping: true},
	{Name: "db1/*+map", DB: "db1", Coll: "*", Mapping: true},
	{Name: "a+noauto", Legacy: "a", NoAuto: true},
	{Name: "db1/*+noauto", DB: "db1", Coll: "*", NoAuto: true},
}

type c10Op struct {
	Kind  string `json:"k"` // create | delete | restart | pause
	Spec  int    `json:"s,omitempty"`
	Task  int    `json:"t,omitempty"`  // delete: index of the task id (creation order)
	Fault int    `json:"f,omitempty"`  // create: fail the n-th store call (1-based), 0 = none
}

func (o c10Op) String() string {
	switch o.Kind {
	case "create":
		if o.Fault > 0 {
			return fmt.Sprintf("create(%s,fault@%d)", c10Specs[o.Spec].Name, o.Fault)
		}
		return fmt.Sprintf("create(%s)", c10Specs[o.Spec].Name)
	case "delete":
		return fmt.Sprintf("delete(t%d)", o.Task)
	case "pause":
		return fmt.Sprintf("pause(t%d)", o.Task)
	}
	return "restart"
}

const c10Target = "milvus-a:19530"

func c10Req(sp c10Spec, id string) *request.CreateRequest {
	r := &request.CreateRequest{TaskID: id, MilvusConnectParam: model.MilvusConnectParam{URI: c10Target, ConnectTimeout: 1, ChannelNum: 2}}
	if sp.Legacy != "" {
		r.CollectionInfos = []model.CollectionInfo{{Name: sp.Legacy}}
	} else {
		r.DBCollections = map[string][]model.CollectionInfo{sp.DB: {{Name: sp.Coll}}}
	}
	r.ExtraInfo.EnableUserRole = sp.UserRole
	r.DisableAutoStart = sp.NoAuto
	if sp.Mapping {
		db := sp.DB
		if sp.Legacy != "" {
			db = "default"
		}
		nm := model.NameMapping{SourceDB: db, TargetDB: "mapped"}
		if sp.Legacy != "" {
			nm.CollectionMapping = map[string]string{sp.Legacy: sp.Legacy + "2"}
		}
		r.NameMapping = []model.NameMapping{nm}
	}
	return r
}

// reference: does the specification name (db, coll)?
func c10SpecNames(info *meta.TaskInfo, db, coll string) bool {
	if len(info.CollectionInfos) > 0 {
		n := info.CollectionInfos[0].Name
		return db == "default" && (n == "*" || n == coll)
	}
	for sdb, infos := range info.DBCollections {
		if sdb != "*" && sdb != db {
			continue
		}
		// a database listed explicitly takes the place of the '*' entry for that database
		if sdb == "*" {
			if _, explicit := info.DBCollections[db]; explicit {
				continue
			}
		}
		for _, ci := range infos {
			if ci.Name == "*" || ci.Name == coll {
				return true
			}
		}
	}
	return false
}

var c10DBs = []string{"default", "db1", "db2"}
var c10Colls = []string{"a", "b", "c"}

type c10Result struct {
	viol string
	key  string
	nontrivial bool
}

var errC10Fault = errors.New("injected store failure")

// c10Exec replays a history on a fresh environment and checks the invariants after every operation.
func c10Exec(hist []c10Op) *c10Result {
	res := &c10Result{}
	env := newVEnv()
	env.maxTasks = 3
	env.cdc.config.MaxTaskNum = 3
	defer env.close()
	var ids []string
	accepted := map[string]bool{}
	for step, op := range hist {
		before := c10Sets(env) // (the write-only name-mapping table is not behaviour: see c10Sets)
		if !(op.Kind == "create" && op.Fault > 0) {
			// a create that fails half way because the store failed may leave store records behind; that is judged
			// by C11 (cleanup), here only the duplicate-detection bookkeeping must be as before
			before += "\n" + env.storeDump()
		}
		rejected := false
		switch op.Kind {
		case "create":
			id := fmt.Sprintf("t%d", len(ids))
			ids = append(ids, id)
			if op.Fault > 0 {
				n := 0
				env.fe.Hook = func(o, k string) error {
					n++
					if n == op.Fault {
						return errC10Fault
					}
					return nil
				}
			}
			_, err := env.Create(c10Req(c10Specs[op.Spec], id))
			env.fe.Hook = nil
			if err != nil {
				rejected = true
			} else {
				accepted[id] = true
			}
		case "delete":
			if op.Task >= len(ids) || !accepted[ids[op.Task]] {
				// deleting an unknown task: must be rejected without side effects
				tid := fmt.Sprintf("t%d", op.Task)
				if err := env.Delete(tid); err == nil {
					res.viol = fmt.Sprintf("delete-unknown: step %d %v succeeded", step, op)
					return res
				}
				rejected = true
			} else {
				if err := env.Delete(ids[op.Task]); err != nil {
					res.viol = fmt.Sprintf("delete-failed: step %d %v: %v", step, op, err)
					return res
				}
				delete(accepted, ids[op.Task])
			}
		case "pause":
			// a paused task keeps its collections: pausing changes nothing in the bookkeeping (whether the call is
			// accepted - running task - or refused - unknown / already paused - is C11's business)
			tid := fmt.Sprintf("t%d", op.Task)
			if op.Task < len(ids) {
				tid = ids[op.Task]
			}
			_ = env.Pause(tid)
			if b := c10Sets(env); !strings.HasPrefix(before, b) {
				res.viol = fmt.Sprintf("pause-changed-bookkeeping: step %d %v\n--- before\n%s\n--- after\n%s", step, op, before, b)
				return res
			}
		case "restart":
			env.Restart()
		}
		after := c10Sets(env)
		if !(op.Kind == "create" && op.Fault > 0) {
			after += "\n" + env.storeDump()
		}
		if rejected {
			// a create whose task record was already written when a later step failed is rolled back by
			// deleting the task; the store and the bookkeeping must still be as before
			if before != after {
				res.viol = fmt.Sprintf("reject-side-effect: step %d %v was rejected but changed state\n--- before\n%s\n--- after\n%s", step, op, before, after)
				return res
			}
			res.nontrivial = true
		}
		if v := c10Invariants(env, accepted, step, op); v != "" {
			res.viol = v
			return res
		}
	}
	res.key = env.bookkeeping() + "|" + c10TaskKey(env)
	return res
}

func c10TaskKey(env *vEnv) string {
	infos, _ := env.st.ti.Get(context.Background(), &meta.TaskInfo{}, nil)
	var ks []string
	for _, i := range infos {
		ks = append(ks, fmt.Sprintf("%s:%v:%v:%v:%v:%v:%v", i.TaskID, i.CollectionInfos, i.DBCollections, i.ExcludeCollections, i.ExtraInfo, i.State, i.DisableAutoStart))
	}
	sort.Strings(ks)
	return strings.Join(ks, ";")
}

func c10Invariants(env *vEnv, accepted map[string]bool, step int, op c10Op) string {
	infos, err := env.st.ti.Get(context.Background(), &meta.TaskInfo{}, nil)
	if err != nil {
		return "store: " + err.Error()
	}
	// accepted set == persisted == in memory
	var persisted, inmem, want []string
	for _, i := range infos {
		persisted = append(persisted, i.TaskID)
	}
	env.cdc.cdcTasks.RLock()
	for id := range env.cdc.cdcTasks.data {
		inmem = append(inmem, id)
	}
	env.cdc.cdcTasks.RUnlock()
	for id := range accepted {
		want = append(want, id)
	}
	sort.Strings(persisted)
	sort.Strings(inmem)
	sort.Strings(want)
	if fmt.Sprint(persisted) != fmt.Sprint(want) || fmt.Sprint(inmem) != fmt.Sprint(want) {
		return fmt.Sprintf("task-set: step %d %v: accepted %v, persisted %v, in memory %v", step, op, want, persisted, inmem)
	}
	for _, db := range c10DBs {
		for _, coll := range c10Colls {
			var owners []string
			for _, info := range infos {
				dbInfo := &coremodel.DatabaseInfo{Name: db}
				cinfo := &pb.CollectionInfo{ID: 1, Schema: &schemapb.CollectionSchema{Name: coll}}
				_, data := GetShouldReadFunc(info)(dbInfo, cinfo)
				// the DDL path of getChannelReader
				ddl := false
				if cis := GetCollectionInfos(info, db, coll); cis != nil {
					ddl = MatchCollection(info, cis, db, coll)
				}
				if data != ddl {
					return fmt.Sprintf("path-disagree: step %d %v: task %s (spec %v/%v exclude %v): data path selects %s.%s = %v, DDL path = %v", step, op, info.TaskID, info.CollectionInfos, info.DBCollections, info.ExcludeCollections, db, coll, data, ddl)
				}
				excluded := false
				for _, x := range info.ExcludeCollections {
					// an exclusion is a full name or a pattern ("db.*", "*.*") owned by another task
					p := strings.SplitN(x, ".", 2)
					if len(p) == 2 && (p[0] == db || p[0] == "*") && (p[1] == coll || p[1] == "*") {
						excluded = true
					}
				}
				ref := c10SpecNames(info, db, coll) && !excluded
				if data != ref {
					return fmt.Sprintf("selection: step %d %v: task %s (spec %v/%v exclude %v) selects %s.%s = %v, its specification minus exclusions gives %v", step, op, info.TaskID, info.CollectionInfos, info.DBCollections, info.ExcludeCollections, db, coll, data, ref)
				}
				if data {
					owners = append(owners, info.TaskID)
				}
			}
			if len(owners) > 1 {
				return fmt.Sprintf("double-owner: step %d %v: %s.%s is selected by tasks %v", step, op, db, coll, owners)
			}
		}
	}
	// exclusions must be owned by somebody else: a collection carved out of a task is replicated by another accepted task
	for _, info := range infos {
		for _, x := range info.ExcludeCollections {
			owned := false
			for _, other := range infos {
				if other.TaskID == info.TaskID {
					continue
				}
				p := strings.SplitN(x, ".", 2)
				if len(p) == 2 && c10SpecNames(other, p[0], p[1]) {
					owned = true
				}
			}
			_ = owned // an exclusion may outlive its owner (the owner was deleted later); that only narrows the task
		}
	}
	// differential oracle: the live bookkeeping equals what a fresh reload of a copy of the store builds
	clone := &vEnv{fe: fakeetcd.New(), mq: fakemq.New(nil), down: env.down, maxTasks: 3}
	for k, v := range env.fe.Dump() {
		clone.fe.PutRaw(k, []byte(v))
	}
	clone.st = newVStore(clone.fe)
	clone.cdc = clone.newCDC()
	clone.Restart()
	live, fresh := c10Sets(env), c10Sets(clone)
	clone.close()
	env.install() // the clone installed itself as the entity factory
	if live != fresh {
		return fmt.Sprintf("bookkeeping-drift: step %d %v: live bookkeeping {%s}, a fresh reload of the same store gives {%s}", step, op, live, fresh)
	}
	return ""
}

// c10Sets: the behaviour-relevant bookkeeping (names in use, exclusions, user-role owner) as sets
func c10Sets(env *vEnv) string {
	b := env.bookkeeping()
	// the name-mapping table is write-only bookkeeping (never read back); it is not compared
	if i := strings.Index(b, "mapping="); i >= 0 {
		b = b[:i]
	}
	// as sets: drop duplicates inside the lists
	return c10Dedup(b)
}

func c10Dedup(s string) string {
	parts := strings.Split(s, ";")
	for i, p := range parts {
		l := strings.Index(p, "=[")
		if l < 0 || !strings.HasSuffix(p, "]") {
			continue
		}
		items := strings.Fields(p[l+2 : len(p)-1])
		seen := map[string]bool{}
		var out []string
		for _, it := range items {
			if !seen[it] {
				seen[it] = true
				out = append(out, it)
			}
		}
		parts[i] = p[:l+2] + strings.Join(out, " ") + "]"
	}
	return strings.Join(parts, ";")
}

func c10Ops(faults bool) []c10Op {
	var ops []c10Op
	for i := range c10Specs {
		ops = append(ops, c10Op{Kind: "create", Spec: i})
	}
	for t := 0; t < 3; t++ {
		ops = append(ops, c10Op{Kind: "delete", Task: t})
	}
	ops = append(ops, c10Op{Kind: "restart"})
	for t := 0; t < 2; t++ {
		ops = append(ops, c10Op{Kind: "pause", Task: t})
	}
	if faults {
		for _, sp := range []int{0, 4, 7} {
			for f := 1; f <= 6; f++ {
				ops = append(ops, c10Op{Kind: "create", Spec: sp, Fault: f})
			}
		}
	}
	return ops
}

func TestVerifC10Tasks(t *testing.T) {
	res := ev.New("C10", "tasks")
	defer res.Write()
	if p := os.Getenv("VERIF_REPLAY"); p != "" {
		var f struct {
			Replay struct {
				History []c10Op `json:"history"`
			} `json:"replay"`
		}
		b, _ := os.ReadFile(p)
		if err := jsonUnmarshalS(b, &f); err != nil {
			t.Fatal(err)
		}
		r := c10Exec(f.Replay.History)
		if r.viol != "" {
			fmt.Println("REPLAY-VIOLATION", r.viol)
			res.Violate("C10/"+strings.SplitN(r.viol, ":", 2)[0], r.viol, f.Replay)
		} else {
			fmt.Println("REPLAY-OK")
		}
		return
	}
	depth := 4
	if ev.Thorough() {
		depth = 5 // (15 specification shapes + pause: depth 6 no longer fits the thorough budget)
	}
	res.Bounds["depth"] = depth
	res.Rule = fmt.Sprintf("BFS over histories of {create(spec) for %d specification shapes (legacy a|b|*, db in {default, db1, *} x collection in {a, *}, with user-role flag, with name mapping, with auto start disabled), create with the n-th store call failing (n=1..6), delete(task i), pause(task i), restart} on one target with at most 3 tasks; each history replayed on a fresh real MetaCDC over the real etcd stores on fakeetcd; after every operation: accepted = persisted = in-memory task set, for every (db, collection) in {default, db1, db2} x {a, b, c} at most one task selects it, each task selects its specification minus its exclusions, data path and DDL path agree, a rejected request leaves bookkeeping and store byte-identical, live bookkeeping (as sets) equals a fresh reload of a copy of the store; states deduplicated on bookkeeping + persisted tasks; non-trivial = states reached through a rejected request or containing exclusions", len(c10Specs))
	ops := c10Ops(true)
	deadline := time.Now().Add(ev.Budget(150 * time.Second))
	seen := map[string]bool{c10Exec(nil).key: true}
	res.States = 1
	frontier := [][]c10Op{nil}
	nontriv := map[string]bool{}
	for d := 0; d < depth && len(frontier) > 0; d++ {
		var next [][]c10Op
		for _, h := range frontier {
			if time.Now().After(deadline) {
				res.Exhaustive = false
				res.Bounds["stopped_at_depth"] = d
				goto done
			}
			for oi, op := range ops {
				if len(h) == 0 && !ev.Mine(oi) {
					continue
				}
				nh := append(append([]c10Op{}, h...), op)
				r := c10Exec(nh)
				res.Transitions++
				res.Evaluations++
				res.Traces++
				if r.viol != "" {
					// the stores under test carry real-time deadlines (5 s per operation): on an overloaded machine an
					// operation can time out, which is not behaviour of the history. A violation is reported only if the
					// history reproduces it twice more; otherwise the history counts as not explored.
					if r2, r3 := c10Exec(nh), c10Exec(nh); r2.viol != r.viol || r3.viol != r.viol {
						res.Exhaustive = false
						res.Extra["unreproduced"] = fmt.Sprintf("history %v: %.200s", nh, r.viol)
						continue
					}
					kind := strings.SplitN(r.viol, ":", 2)[0]
					res.Violate(fmt.Sprintf("C10/%s/%s", kind, op.Kind), fmt.Sprintf("history %v: %s", nh, r.viol), map[string]interface{}{"history": nh})
					continue
				}
				if r.nontrivial || strings.Contains(r.key, "exclude[") {
					nontriv[r.key] = true
				}
				if !seen[r.key] {
					seen[r.key] = true
					res.States++
					next = append(next, nh)
					if len(next)%53 == 1 {
						res.Sample(map[string]interface{}{"history": fmt.Sprint(nh), "state": r.key})
					}
				}
			}
		}
		frontier = next
	}
done:
	res.Nontrivial = int64(len(nontriv))
}
