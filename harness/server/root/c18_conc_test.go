package server

// C18 (concurrent failure paths): two API calls on one task overlap. The store is the serialisation point
// (pause / resume / delete are get-check-put on the task record), so an overlapping call can find the persisted
// state changed under it and take an error path no sequential history reaches (state-conflict errors, "not
// found" after a concurrent delete). Every interleaving of the two calls at their store round trips (within the
// deviation bound) is executed by the sched engine; no response and no log line may contain a credential.

import (
	"fmt"
	"net/http"
	"os"
	"strings"
	"testing"
	"time"

	"github.com/zilliztech/milvus-cdc/core/log"
	cdcreader "github.com/zilliztech/milvus-cdc/core/reader"
	"github.com/zilliztech/milvus-cdc/core/verifkit/ev"
	"github.com/zilliztech/milvus-cdc/core/verifkit/sched"
)

func c18ConcScenario(kind string, startPaused bool, ops [2]string) *sched.Scenario {
	name := fmt.Sprintf("%s/%s/%s+%s", kind, map[bool]string{true: "paused", false: "running"}[startPaused], ops[0], ops[1])
	return &sched.Scenario{Name: name, Run: func(t *testing.T, ctl *sched.Ctl) sched.Outcome {
		buf, restore := c18Capture()
		defer restore()
		env := newVEnv()
		defer env.close()
		d := c18Creates()[kind]
		var bodies []string
		post := func(typ string, data interface{}) string {
			a := c19Do(env, http.MethodPost, c19Body(typ, data))
			if a.Panic != "" {
				return "PANIC " + a.Panic
			}
			return a.Body
		}
		id := map[string]interface{}{"task_id": "sec"}
		bodies = append(bodies, post("create", d))
		if startPaused {
			bodies = append(bodies, post("pause", id))
		}
		// from here on every store round trip of the two callers is a scheduling point
		drivers := map[int64]string{}
		env.fe.Hook = func(op, key string) error {
			if who, ok := drivers[sched.Goid()]; ok {
				k := key
				if i := strings.LastIndex(k, "/task_"); i >= 0 {
					k = k[i+1:]
				}
				ctl.Point(who, op+" "+k, false)
			}
			return nil
		}
		done := 0
		res := make([]string, 2)
		for i := 0; i < 2; i++ {
			i := i
			go func() {
				who := fmt.Sprintf("caller%d:%s", i, ops[i])
				drivers[sched.Goid()] = who
				ctl.Point(who, "start", true)
				res[i] = post(ops[i], id)
				done++
			}()
		}
		ctl.Loop(func() bool { return done == 2 })
		env.fe.Hook = nil
		bodies = append(bodies, res...)
		bodies = append(bodies, post("get", id), post("list", map[string]interface{}{}))
		var out sched.Outcome
		for _, b := range bodies {
			if l := c18Leak("response", b); l != "" {
				p := strings.SplitN(l, "|", 3)
				out.Violations = append(out.Violations, sched.Violation{Sig: "C18/concurrent/response/" + ops[0] + "+" + ops[1], Detail: "a response contains a credential: ..." + p[2] + "..."})
				break
			}
			if strings.HasPrefix(b, "PANIC") {
				out.Violations = append(out.Violations, sched.Violation{Sig: "C18/concurrent/panic/" + ops[0] + "+" + ops[1], Detail: b})
			}
		}
		if l := c18Leak("log", buf.String()); l != "" {
			p := strings.SplitN(l, "|", 3)
			out.Violations = append(out.Violations, sched.Violation{Sig: "C18/concurrent/log/" + p[1], Detail: fmt.Sprintf("the log line %q contains a credential: ...%s...", p[1], p[2])})
		}
		code := func(b string) string {
			if i := strings.Index(b, `"code":`); i >= 0 {
				return b[i+7 : i+10]
			}
			return "?"
		}
		out.Summary = fmt.Sprintf("%s=%s %s=%s", ops[0], code(res[0]), ops[1], code(res[1]))
		out.Nontrivial = code(res[0]) != "200" || code(res[1]) != "200"
		return out
	}}
}

func TestVerifC18Concurrent(t *testing.T) {
	res := ev.New("C18", "concurrent")
	defer res.Write()
	log.Info("warm up the logger outside the bubble")
	sched.StartWatchdog(90 * time.Second)
	cdcreader.VerifReleaseOutsidePools()
	bound := 2
	if ev.Thorough() {
		bound = 4
	}
	ops := []string{"pause", "resume", "delete", "get", "position"}
	var scs []*sched.Scenario
	for kind := range c18Creates() {
		for _, sp := range []bool{false, true} {
			for i, a := range ops {
				for _, b := range ops[i:] {
					if (a == "get" || a == "position") && (b == "get" || b == "position") {
						continue // two reads: no failure path
					}
					scs = append(scs, c18ConcScenario(kind, sp, [2]string{a, b}))
				}
			}
		}
	}
	// (map order of c18Creates is random: sort the scenarios by name so that shards agree on the dealing)
	for i := range scs {
		for j := i + 1; j < len(scs); j++ {
			if scs[j].Name < scs[i].Name {
				scs[i], scs[j] = scs[j], scs[i]
			}
		}
	}
	e := sched.NewExplorer(t, bound)
	e.Horizon = 5 * time.Second
	e.MaxSteps = 300
	e.Deadline = time.Now().Add(ev.Budget(120 * time.Second))
	e.OnExec = func(sc *sched.Scenario, choices []int) { fmt.Printf("EXEC %s %v\n", sc.Name, choices) }
	if p := os.Getenv("VERIF_REPLAY"); p != "" {
		fsReplay(t, res, e, scs, p)
		return
	}
	for i, sc := range scs {
		if !ev.Mine(i) {
			continue
		}
		e.Explore(sc)
	}
	res.Evaluations += e.Stats.Executions
	res.States += e.Stats.Executions
	res.Transitions += e.Stats.Executions
	res.Traces += e.Stats.Executions
	res.Nontrivial += int64(len(e.Stats.Nontrivial))
	res.Exhaustive = res.Exhaustive && e.Stats.Exhaustive
	res.Bounds["deviation_bound"] = bound
	res.Bounds["scenarios"] = len(scs)
	res.Extra["divergent_schedules"] = e.Stats.Divergent
	res.Extra["replay_retries"] = e.Stats.Retries
	for k, v := range e.Stats.Outcomes {
		res.Outcomes[k] += v
	}
	for _, f := range e.Found {
		res.Violate(f.Sig, fmt.Sprintf("scenario %s choices %v (reproduced %d/5)\nschedule: %v\n%s", f.Scenario, f.Choices, f.Reproduced, f.Trace, f.Detail), f)
	}
	res.Rule = "sched engine: a credential-bearing task (3 request kinds), running or paused, and two overlapping API calls on it out of {pause, resume, delete, get, position}; scheduling points = every metadata-store round trip of the two callers; all interleavings within the deviation bound; real HTTP handler, process logger swapped for a debug-level buffer; oracle: no canary in any response body or log line, no handler panic; non-trivial = executions in which a caller got an error answer"
}
