//go:build verif

package msgpacker

// VerifResetMemory gives the process-wide memory protector a fresh state (a new process incarnation).
func VerifResetMemory() {
	memoryCheck = &MemoryProtector{}
}
