package util

// C16 (a): util.ChannelMapping driven with the protocol the channel manager uses
// (startReadChannel: CheckKeyNotExist -> AddKeyValue, else the offer waits; CheckKeyExist for
// offers whose key already has a handler). Explicit-state BFS over all offer sequences.

import (
	"fmt"
	"os"
	"sort"
	"strings"
	"testing"

	"github.com/zilliztech/milvus-cdc/core/verifkit/ev"
)

type c16Offer struct{ S, T int }

func c16Names(prefix string, n int) []string {
	r := make([]string, n)
	for i := range r {
		r[i] = fmt.Sprintf("%s%d", prefix, i)
	}
	return r
}

// c16Apply replays a history of offers on a fresh mapping following the manager protocol.
// handlers: the set of keys that own a handler (channelHandlerMap keys); assigned: key -> value as
// the protocol believes it. Returns the white-box map too.
type c16State struct {
	m        *ChannelMapping
	handlers map[string]bool   // keys with a handler (assigned or waiting)
	assigned map[string]string // key -> value at the time of AddKeyValue
	waiting  map[string]bool
	viol     string
}

func c16Canon(st *c16State) string {
	var parts []string
	for k, v := range c16Table(st.m) {
		parts = append(parts, k+">"+v)
	}
	sort.Strings(parts)
	var w []string
	for k := range st.waiting {
		w = append(w, k)
	}
	sort.Strings(w)
	return strings.Join(parts, ",") + "|" + strings.Join(w, ",")
}

func c16Table(m *ChannelMapping) map[string]string {
	switch {
	case m.sameMapping != nil:
		return m.sameMapping
	case m.sourceMapping != nil:
		return m.sourceMapping
	default:
		return m.targetMapping
	}
}

func c16Run(sc, tc int, hist []c16Offer) *c16State {
	src, tgt := c16Names("s", sc), c16Names("t", tc)
	st := &c16State{m: NewChannelMapping(sc, tc), handlers: map[string]bool{}, assigned: map[string]string{}, waiting: map[string]bool{}}
	for step, o := range hist {
		s, t := src[o.S], tgt[o.T]
		key, val := st.m.GetMapKey(s, t), st.m.GetMapValue(s, t)
		before := map[string]string{}
		for k, v := range c16Table(st.m) {
			before[k] = v
		}
		if !st.handlers[key] {
			st.handlers[key] = true
			if st.m.CheckKeyNotExist(s, t) {
				st.m.AddKeyValue(s, t)
				st.assigned[key] = val
			} else {
				st.waiting[key] = true
			}
		} else if st.waiting[key] {
			// a waiting handler takes a forwarded free channel: waitChannel's protocol
			if !st.m.CheckKeyExist(s, t) && st.m.CheckKeyNotExist(s, t) {
				st.m.AddKeyValue(s, t)
				st.assigned[key] = val
				delete(st.waiting, key)
			}
		} else {
			// key already owned: the manager only asks CheckKeyExist and forwards on mismatch
			got := st.m.CheckKeyExist(s, t)
			want := st.assigned[key] == val
			if got != want {
				st.viol = fmt.Sprintf("exist-answer: step %d CheckKeyExist(%s,%s)=%v but key %s is assigned to %s", step, s, t, got, key, st.assigned[key])
				return st
			}
		}
		// stability: an assignment never changes once made
		for k, v := range before {
			if now, ok := c16Table(st.m)[k]; !ok || now != v {
				st.viol = fmt.Sprintf("unstable: step %d offer(%s,%s) changed %s: %s -> %q", step, s, t, k, v, now)
				return st
			}
		}
	}
	return st
}

func c16Invariant(sc, tc int, st *c16State) string {
	if st.viol != "" {
		return st.viol
	}
	tab := c16Table(st.m)
	// white-box table equals what the protocol was told
	if len(tab) != len(st.assigned) {
		return fmt.Sprintf("table-size: table=%v assigned=%v", tab, st.assigned)
	}
	load := map[string]int{}
	for k, v := range tab {
		if st.assigned[k] != v {
			return fmt.Sprintf("table-mismatch: key %s table=%s assigned=%s", k, v, st.assigned[k])
		}
		load[v]++
	}
	larger, smaller := sc, tc
	if tc > sc {
		larger, smaller = tc, sc
	}
	ceil := (larger + smaller - 1) / smaller
	for v, n := range load {
		if n > ceil {
			return fmt.Sprintf("overload: %s serves %d > ceil(%d/%d)=%d", v, n, larger, smaller, ceil)
		}
		if sc == tc && n > 1 {
			return fmt.Sprintf("not-injective: %s serves %d with equal counts", v, n)
		}
	}
	// totality: while some key of the declared key side is unassigned there must be a value with room,
	// otherwise that channel can never be assigned whatever is offered later.
	nKeys := larger
	if len(tab) < nKeys {
		nVals := smaller
		room := false
		vals := c16Names("t", tc)
		if !st.m.UsingSourceKey() {
			vals = c16Names("s", sc)
		}
		for _, v := range vals[:nVals] {
			if load[v] < st.m.AverageCnt() {
				room = true
			}
		}
		if !room {
			return fmt.Sprintf("not-total: %d of %d keys assigned and every value is at its quota %d", len(tab), nKeys, st.m.AverageCnt())
		}
	}
	return ""
}

func TestVerifC16Mapping(t *testing.T) {
	res := ev.New("C16", "mapping")
	defer res.Write()
	maxN, depth := 5, 6
	if ev.Thorough() {
		maxN, depth = 6, 8
	}
	res.Bounds["max_channels_per_side"] = maxN
	res.Bounds["max_offers"] = depth
	res.Rule = "BFS over all offer sequences (source i, target j) up to the depth bound for every (S,T) channel-count pair, each history replayed on a fresh real ChannelMapping with the manager's protocol; states deduplicated on the white-box assignment table + waiting keys (the mapping's entire mutable state); non-trivial = distinct states in which a quota was hit (an offer had to wait) or an owned key was re-offered with a different peer"
	if p := os.Getenv("VERIF_REPLAY"); p != "" {
		c16Replay(t, p)
		return
	}
	cfg := 0
	for sc := 1; sc <= maxN; sc++ {
		for tc := 1; tc <= maxN; tc++ {
			cfg++
			if !ev.Mine(cfg) {
				continue
			}
			c16BFS(res, sc, tc, depth)
		}
	}
}

func c16BFS(res *ev.Result, sc, tc, depth int) {
	type node struct{ hist []c16Offer }
	seen := map[string]bool{}
	nontrivial := map[string]bool{}
	frontier := []node{{}}
	seen[c16Canon(c16Run(sc, tc, nil))] = true
	res.States++
	for d := 0; d < depth && len(frontier) > 0; d++ {
		var next []node
		for _, n := range frontier {
			for s := 0; s < sc; s++ {
				for t := 0; t < tc; t++ {
					h := append(append([]c16Offer{}, n.hist...), c16Offer{s, t})
					st := c16Run(sc, tc, h)
					res.Transitions++
					res.Evaluations++
					res.Traces++
					if msg := c16Invariant(sc, tc, st); msg != "" {
						kind := strings.SplitN(msg, ":", 2)[0]
						res.Violate(fmt.Sprintf("C16/mapping/%s/S%dT%d", kind, sc, tc), msg, map[string]interface{}{"S": sc, "T": tc, "offers": h})
						continue
					}
					k := c16Canon(st)
					if len(st.waiting) > 0 || len(st.assigned) < len(st.handlers) {
						nontrivial[k] = true
					}
					if !seen[k] {
						seen[k] = true
						res.States++
						next = append(next, node{h})
						if len(h) == depth || len(next)%97 == 1 {
							res.Sample(map[string]interface{}{"S": sc, "T": tc, "offers": fmt.Sprint(h), "table": fmt.Sprint(c16Table(st.m))})
						}
					}
					res.Outcome(fmt.Sprintf("S%dT%d:%s", sc, tc, k))
				}
			}
		}
		frontier = next
	}
	res.Nontrivial += int64(len(nontrivial))
}

func c16Replay(t *testing.T, path string) {
	// replay file: {"replay": {"S":..,"T":..,"offers":[{"S":..,"T":..}]}}
	var f struct {
		Replay struct {
			S, T   int
			Offers []c16Offer `json:"offers"`
		} `json:"replay"`
	}
	b, err := os.ReadFile(path)
	if err != nil {
		t.Fatal(err)
	}
	if err := jsonUnmarshal(b, &f); err != nil {
		t.Fatal(err)
	}
	st := c16Run(f.Replay.S, f.Replay.T, f.Replay.Offers)
	if msg := c16Invariant(f.Replay.S, f.Replay.T, st); msg != "" {
		fmt.Println("REPLAY-VIOLATION", msg)
		res := ev.New("C16", "mapping")
		res.Violate("replay", msg, f.Replay)
		res.Write()
		return
	}
	fmt.Println("REPLAY-OK")
}
