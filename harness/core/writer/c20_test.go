package writer

// C20: per operation kind, total enumeration of small field domains through the real ChannelWriter;
// the request recorded at the fake DataHandler is compared with an independently built expectation.

import (
	"context"
	"fmt"
	"os"
	"reflect"
	"strings"
	"testing"

	"github.com/milvus-io/milvus-proto/go-api/v2/commonpb"
	"github.com/milvus-io/milvus-proto/go-api/v2/milvuspb"
	"github.com/milvus-io/milvus-sdk-go/v2/entity"
	"github.com/milvus-io/milvus/pkg/mq/msgstream"
	"google.golang.org/protobuf/proto"

	"github.com/zilliztech/milvus-cdc/core/api"
	"github.com/zilliztech/milvus-cdc/core/util"
	"github.com/zilliztech/milvus-cdc/core/verifkit/ev"
)

type c20Case struct {
	Group    string   `json:"group"` // op | event | malformed
	Kind     string   `json:"kind"`
	V        opVals   `json:"v"`
	Dropped  []string `json:"dropped"` // names (collections for Flush, partitions otherwise) recorded as dropped at >= ts
	ReplID   string   `json:"replicate_id"`
	Malform  string   `json:"malform,omitempty"`
	// SrcRepl: the source operation already carries a replicate info in its request base ("" = none, "unmarked" =
	// an empty one, "marked" = stamped by an earlier hop of a replication chain with ITS time and id)
	SrcRepl string `json:"src_repl,omitempty"`
}

// c20SetSrcRepl puts a replicate info into the request base of an operation message (whatever its kind).
func c20SetSrcRepl(m msgstream.TsMsg, mode string) {
	if mode == "" {
		return
	}
	v := reflect.ValueOf(m).Elem()
	for i := 0; i < v.NumField(); i++ {
		f := v.Field(i)
		if f.Kind() != reflect.Ptr || f.IsNil() || !f.CanInterface() {
			continue
		}
		pm, ok := f.Interface().(proto.Message)
		if !ok {
			continue
		}
		r := pm.ProtoReflect()
		fd := r.Descriptor().Fields().ByName("base")
		if fd == nil {
			continue
		}
		base := r.Mutable(fd).Message().Interface().(*commonpb.MsgBase)
		if mode == "unmarked" {
			base.ReplicateInfo = &commonpb.ReplicateInfo{}
		} else {
			base.ReplicateInfo = &commonpb.ReplicateInfo{IsReplicate: true, ReplicateID: "a-to-b", MsgTimestamp: 77}
		}
		return
	}
	panic(fmt.Sprintf("c20SetSrcRepl: no request base in %T", m))
}

func c20Dropped(cs c20Case) map[string]map[string]uint64 {
	out := map[string]map[string]uint64{util.DroppedPartitionKey: {}, util.DroppedCollectionKey: {}}
	for _, d := range cs.Dropped {
		if cs.Kind == "Flush" {
			_, dk := util.GetCollectionInfoKeys(d, cs.V.DB)
			out[util.DroppedCollectionKey][dk] = cs.V.TS + 10
		} else {
			_, dk := util.GetPartitionInfoKeys(d, cs.V.Coll, cs.V.DB)
			out[util.DroppedPartitionKey][dk] = cs.V.TS + 10
		}
	}
	return out
}

func without(xs []string, drop []string) []string {
	var out []string
	for _, x := range xs {
		keep := true
		for _, d := range drop {
			if d == x {
				keep = false
			}
		}
		if keep {
			out = append(out, x)
		}
	}
	return out
}

func c20Stamp(b *commonpb.MsgBase, ts uint64) string {
	if b == nil || b.ReplicateInfo == nil {
		return "stamp: request carries no replicate info"
	}
	if !b.ReplicateInfo.IsReplicate {
		return "stamp: request is not marked as a replication request"
	}
	if b.ReplicateInfo.MsgTimestamp != ts {
		return fmt.Sprintf("stamp: request carries timestamp %d, source operation timestamp is %d", b.ReplicateInfo.MsgTimestamp, ts)
	}
	return ""
}

func eqDB(a, b string) bool { return normDB(a) == normDB(b) }

// c20CheckOp compares the recorded param with the pristine source request.
func c20CheckOp(cs c20Case, src msgstream.TsMsg, param interface{}) string {
	v := cs.V
	ts := v.TS
	// whole-request kinds: the downstream request must equal the source request except base stamp / db default
	whole := func(got proto.Message, gotBase *commonpb.MsgBase, want proto.Message) string {
		if m := c20Stamp(gotBase, ts); m != "" {
			return m
		}
		g, w := proto.Clone(got), proto.Clone(want)
		for _, x := range []proto.Message{g, w} {
			r := x.ProtoReflect()
			if fd := r.Descriptor().Fields().ByName("base"); fd != nil {
				r.Clear(fd)
			}
			if fd := r.Descriptor().Fields().ByName("db_name"); fd != nil {
				r.Set(fd, protoreflectString(normDB(r.Get(fd).String())))
			}
		}
		if !proto.Equal(g, w) {
			return fmt.Sprintf("identity: downstream request %v differs from source %v", g, w)
		}
		return ""
	}
	switch p := param.(type) {
	case *api.CreateDatabaseParam:
		if m := c20Stamp(p.GetBase(), ts); m != "" {
			return m
		}
		if !eqDB(p.GetDbName(), v.DB) {
			return fmt.Sprintf("identity: database %q, source %q", p.GetDbName(), v.DB)
		}
	case *api.DropDatabaseParam:
		if m := c20Stamp(p.GetBase(), ts); m != "" {
			return m
		}
		if !eqDB(p.GetDbName(), v.DB) {
			return fmt.Sprintf("identity: database %q, source %q", p.GetDbName(), v.DB)
		}
	case *api.AlterDatabaseParam:
		return whole(p.AlterDatabaseRequest, p.GetBase(), src.(*msgstream.AlterDatabaseMsg).AlterDatabaseRequest)
	case *api.FlushParam:
		if m := c20Stamp(p.GetBase(), ts); m != "" {
			return m
		}
		if want := without(v.Colls, cs.Dropped); !reflect.DeepEqual(p.GetCollectionNames(), want) {
			return fmt.Sprintf("identity: flush names %v, source minus dropped %v", p.GetCollectionNames(), want)
		}
	case *api.CreateIndexParam:
		return whole(p.CreateIndexRequest, p.GetBase(), src.(*msgstream.CreateIndexMsg).CreateIndexRequest)
	case *api.DropIndexParam:
		if m := c20Stamp(p.GetBase(), ts); m != "" {
			return m
		}
		if p.GetCollectionName() != v.Coll || p.GetFieldName() != v.Field || p.GetIndexName() != v.Index {
			return fmt.Sprintf("identity: drop index (%s,%s,%s), source (%s,%s,%s)", p.GetCollectionName(), p.GetFieldName(), p.GetIndexName(), v.Coll, v.Field, v.Index)
		}
	case *api.AlterIndexParam:
		return whole(p.AlterIndexRequest, p.GetBase(), src.(*msgstream.AlterIndexMsg).AlterIndexRequest)
	case *api.LoadCollectionParam:
		return whole(p.LoadCollectionRequest, p.GetBase(), src.(*msgstream.LoadCollectionMsg).LoadCollectionRequest)
	case *api.ReleaseCollectionParam:
		if m := c20Stamp(p.GetBase(), ts); m != "" {
			return m
		}
		if p.GetCollectionName() != v.Coll {
			return fmt.Sprintf("identity: release collection %q, source %q", p.GetCollectionName(), v.Coll)
		}
	case *api.LoadPartitionsParam:
		if m := c20Stamp(p.GetBase(), ts); m != "" {
			return m
		}
		if want := without(v.Parts, cs.Dropped); p.GetCollectionName() != v.Coll || !reflect.DeepEqual(p.GetPartitionNames(), want) || p.GetReplicaNumber() != v.Replica {
			return fmt.Sprintf("identity: load partitions (%s,%v,replica %d), source (%s,%v,replica %d)", p.GetCollectionName(), p.GetPartitionNames(), p.GetReplicaNumber(), v.Coll, want, v.Replica)
		}
	case *api.ReleasePartitionsParam:
		if m := c20Stamp(p.GetBase(), ts); m != "" {
			return m
		}
		if want := without(v.Parts, cs.Dropped); p.GetCollectionName() != v.Coll || !reflect.DeepEqual(p.GetPartitionNames(), want) {
			return fmt.Sprintf("identity: release partitions (%s,%v), source (%s,%v)", p.GetCollectionName(), p.GetPartitionNames(), v.Coll, want)
		}
	case *api.CreateUserParam:
		return whole(p.CreateCredentialRequest, p.GetBase(), src.(*msgstream.CreateUserMsg).CreateCredentialRequest)
	case *api.DeleteUserParam:
		return whole(p.DeleteCredentialRequest, p.GetBase(), src.(*msgstream.DeleteUserMsg).DeleteCredentialRequest)
	case *api.UpdateUserParam:
		return whole(p.UpdateCredentialRequest, p.GetBase(), src.(*msgstream.UpdateUserMsg).UpdateCredentialRequest)
	case *api.CreateRoleParam:
		return whole(p.CreateRoleRequest, p.GetBase(), src.(*msgstream.CreateRoleMsg).CreateRoleRequest)
	case *api.DropRoleParam:
		return whole(p.DropRoleRequest, p.GetBase(), src.(*msgstream.DropRoleMsg).DropRoleRequest)
	case *api.OperateUserRoleParam:
		return whole(p.OperateUserRoleRequest, p.GetBase(), src.(*msgstream.OperateUserRoleMsg).OperateUserRoleRequest)
	case *api.OperatePrivilegeParam:
		return whole(p.OperatePrivilegeRequest, p.GetBase(), src.(*msgstream.OperatePrivilegeMsg).OperatePrivilegeRequest)
	default:
		return fmt.Sprintf("kind: unexpected param type %T", param)
	}
	return ""
}

func c20CheckEvent(cs c20Case, evt *api.ReplicateAPIEvent, param interface{}) string {
	v := cs.V
	switch p := param.(type) {
	case *api.CreateCollectionParam:
		if m := c20Stamp(p.Base, v.TS); m != "" {
			return m
		}
		want := (&entity.Schema{}).ReadProto(evt.CollectionInfo.Schema)
		if !reflect.DeepEqual(p.Schema, want) {
			return fmt.Sprintf("identity: schema %+v differs from source schema %+v", p.Schema, want)
		}
		if p.ShardsNum != evt.CollectionInfo.ShardsNum || p.ConsistencyLevel != evt.CollectionInfo.ConsistencyLevel {
			return fmt.Sprintf("identity: shards %d consistency %v, source shards %d consistency %v", p.ShardsNum, p.ConsistencyLevel, evt.CollectionInfo.ShardsNum, evt.CollectionInfo.ConsistencyLevel)
		}
		wantProps := map[string]string{}
		for k, val := range v.Params {
			wantProps[k] = val
		}
		if cs.ReplID != "" {
			wantProps["replicate.id"] = cs.ReplID
		}
		got := map[string]string{}
		for _, kv := range p.Properties {
			got[kv.Key] = kv.Value
		}
		if !reflect.DeepEqual(got, wantProps) {
			return fmt.Sprintf("identity: properties %v, source %v", got, wantProps)
		}
	case *api.DropCollectionParam:
		if m := c20Stamp(p.Base, v.TS); m != "" {
			return m
		}
		if p.CollectionName != v.Coll {
			return fmt.Sprintf("identity: drop collection %q, source %q", p.CollectionName, v.Coll)
		}
	case *api.CreatePartitionParam:
		if m := c20Stamp(p.Base, v.TS); m != "" {
			return m
		}
		if p.CollectionName != v.Coll || p.PartitionName != v.Part {
			return fmt.Sprintf("identity: create partition %s/%s, source %s/%s", p.CollectionName, p.PartitionName, v.Coll, v.Part)
		}
	case *api.DropPartitionParam:
		if m := c20Stamp(p.Base, v.TS); m != "" {
			return m
		}
		if p.CollectionName != v.Coll || p.PartitionName != v.Part {
			return fmt.Sprintf("identity: drop partition %s/%s, source %s/%s", p.CollectionName, p.PartitionName, v.Coll, v.Part)
		}
	default:
		return fmt.Sprintf("kind: unexpected param type %T", param)
	}
	return ""
}

func c20Clone(m msgstream.TsMsg) msgstream.TsMsg {
	b, err := m.Marshal(m)
	if err != nil {
		panic(err)
	}
	c, err := m.Unmarshal(b)
	if err != nil {
		panic(err)
	}
	return c
}

// c20Run executes one case; returns violation text or "".
func c20Run(cs c20Case) string {
	fd := &fakeDown{}
	w, _ := newVerifWriter(fd, cs.ReplID, c20Dropped(cs))
	ctx := context.Background()
	main := func() []fdCall {
		var out []fdCall
		for _, c := range fd.calls {
			if !strings.HasPrefix(c.Kind, "Describe") {
				out = append(out, c)
			}
		}
		return out
	}
	switch cs.Group {
	case "op":
		msg := buildOp(cs.Kind, cs.V)
		c20SetSrcRepl(msg, cs.SrcRepl)
		pristine := c20Clone(msg)
		pack := opPack(cs.V.TS, msg)
		pack.BeginTs = cs.V.TS - 5
		pack.StartPositions[0].Timestamp = cs.V.TS - 5
		cp, err := w.HandleOpMessagePack(ctx, pack)
		calls := main()
		// everything filtered (all partitions / collections dropped): success without a call
		expectCall := true
		switch cs.Kind {
		case "LoadPartitions", "ReleasePartitions":
			expectCall = len(without(cs.V.Parts, cs.Dropped)) > 0
		case "Flush":
			expectCall = len(without(cs.V.Colls, cs.Dropped)) > 0
		}
		if err != nil {
			return fmt.Sprintf("error: %s returned %v", cs.Kind, err)
		}
		if string(cp) != string(pack.EndPositions[0].MsgID) {
			return fmt.Sprintf("checkpoint: returned %q, pack end position is %q", cp, pack.EndPositions[0].MsgID)
		}
		if !expectCall {
			if len(calls) != 0 {
				return fmt.Sprintf("count: every listed member is dropped but %v was sent", fd.kinds())
			}
			return ""
		}
		if len(calls) != 1 || calls[0].Kind != opCallKind[cs.Kind] {
			return fmt.Sprintf("count: %s produced downstream calls %v, want exactly one %s", cs.Kind, fd.kinds(), opCallKind[cs.Kind])
		}
		return c20CheckOp(cs, pristine, calls[0].Param)
	case "event":
		et := eventKinds[int(cs.Kind[0]-'0')]
		evt := buildEvent(et, cs.V)
		pristine := buildEvent(et, cs.V)
		err := w.HandleReplicateAPIEvent(ctx, evt)
		calls := main()
		if err != nil {
			return fmt.Sprintf("error: %s returned %v", et, err)
		}
		wantKind := map[api.ReplicateAPIEventType]string{api.ReplicateCreateCollection: "CreateCollection", api.ReplicateDropCollection: "DropCollection",
			api.ReplicateCreatePartition: "CreatePartition", api.ReplicateDropPartition: "DropPartition"}[et]
		if len(calls) != 1 || calls[0].Kind != wantKind {
			return fmt.Sprintf("count: %s produced downstream calls %v, want exactly one %s", et, fd.kinds(), wantKind)
		}
		return c20CheckEvent(cs, pristine, calls[0].Param)
	case "malformed":
		var pack *msgstream.MsgPack
		a := buildOp(cs.Kind, cs.V)
		switch cs.Malform {
		case "empty":
			pack = opPack(cs.V.TS)
		case "two":
			pack = opPack(cs.V.TS, a, buildOp("DropRole", cs.V))
		case "two-same":
			pack = opPack(cs.V.TS, a, buildOp(cs.Kind, cs.V))
		case "unknown-type":
			pack = opPack(cs.V.TS, buildDML("Insert", cs.V, 1))
		case "unknown-then-known":
			pack = opPack(cs.V.TS, buildDML("Delete", cs.V, 1), a)
		}
		_, err := w.HandleOpMessagePack(ctx, pack)
		if err == nil {
			return fmt.Sprintf("accepted: malformed pack (%s) was accepted", cs.Malform)
		}
		if len(fd.calls) != 0 {
			return fmt.Sprintf("partial: malformed pack (%s) rejected with %v but %v was applied downstream", cs.Malform, err, fd.kinds())
		}
	}
	return ""
}

func c20Cases() []c20Case {
	var cases []c20Case
	names := []string{"a", "Coll_1"}
	dbs := []string{"", "db1"}
	params := []map[string]string{nil, {"mmap.enabled": "true"}, {"index_type": "IVF_FLAT", "nlist": "128"}}
	for _, kind := range opKinds {
		for _, db := range dbs {
			for _, coll := range names {
				for _, pr := range params {
					base := opVals{DB: db, Coll: coll, TS: 2000, Params: pr, Field: "vec"}
					switch kind {
					case "Flush":
						for _, colls := range [][]string{{coll}, {coll, "c2"}} {
							for _, dropped := range [][]string{nil, {coll}, {"c2"}, {coll, "c2"}} {
								v := base
								v.Colls = colls
								cases = append(cases, c20Case{Group: "op", Kind: kind, V: v, Dropped: dropped})
							}
						}
					case "CreateIndex", "DropIndex", "AlterIndex":
						for _, idx := range []string{"", "idx_1"} {
							v := base
							v.Index = idx
							cases = append(cases, c20Case{Group: "op", Kind: kind, V: v})
						}
					case "LoadCollection":
						for _, rep := range []int32{0, 1, 3} {
							v := base
							v.Replica = rep
							cases = append(cases, c20Case{Group: "op", Kind: kind, V: v})
						}
					case "LoadPartitions", "ReleasePartitions":
						for _, parts := range [][]string{{"p1"}, {"p1", "p2"}, {"p2", "p1", "p3"}} {
							for _, dropped := range [][]string{nil, {"p1"}, {"p2"}, {"p1", "p2"}, {"p1", "p2", "p3"}} {
								for _, rep := range []int32{1, 2} {
									v := base
									v.Parts, v.Replica = parts, rep
									cases = append(cases, c20Case{Group: "op", Kind: kind, V: v, Dropped: dropped})
								}
							}
						}
					case "CreateCredential", "DeleteCredential", "UpdateCredential", "CreateRole", "DropRole", "OperateUserRole", "OperatePrivilege":
						if coll != names[0] || pr != nil {
							continue
						}
						for _, user := range []string{"u", "root"} {
							for _, role := range []string{"r1", "admin"} {
								for _, pwd := range []string{"", "cHdk", "not-base64!"} {
									for _, ty := range []int32{0, 1} {
										v := base
										v.User, v.Role, v.Pwd, v.OldPwd = user, role, pwd, "b2xk"
										v.Priv, v.Obj, v.ObjName = "Insert", "Collection", coll
										v.URType, v.PrivType, v.Force = milvuspb.OperateUserRoleType(ty), milvuspb.OperatePrivilegeType(ty), ty == 1
										cases = append(cases, c20Case{Group: "op", Kind: kind, V: v})
									}
								}
							}
						}
					default:
						cases = append(cases, c20Case{Group: "op", Kind: kind, V: base})
					}
				}
			}
		}
	}
	// every operation case also with a source request that already carries a replicate info (a replication chain)
	for _, cs := range append([]c20Case{}, cases...) {
		for _, sr := range []string{"unmarked", "marked"} {
			c := cs
			c.SrcRepl = sr
			cases = append(cases, c)
		}
	}
	for i := range eventKinds {
		for _, db := range dbs {
			for _, coll := range names {
				for _, pr := range params {
					for _, part := range []string{"p1", "_default"} {
						for _, rid := range []string{"", "rid"} {
							cases = append(cases, c20Case{Group: "event", Kind: fmt.Sprint(i), ReplID: rid, V: opVals{DB: db, Coll: coll, Part: part, TS: 3000, Params: pr}})
						}
					}
				}
			}
		}
	}
	for _, kind := range opKinds {
		for _, mf := range []string{"empty", "two", "two-same", "unknown-type", "unknown-then-known"} {
			cases = append(cases, c20Case{Group: "malformed", Kind: kind, Malform: mf, V: opVals{DB: "db1", Coll: "a", Parts: []string{"p1"}, Colls: []string{"a"}, TS: 4000, User: "u", Role: "r", Field: "vec"}})
		}
	}
	return cases
}

func TestVerifC20Requests(t *testing.T) {
	res := ev.New("C20", "requests")
	defer res.Write()
	if p := os.Getenv("VERIF_REPLAY"); p != "" {
		var f struct {
			Replay c20Case `json:"replay"`
		}
		b, _ := os.ReadFile(p)
		if err := jsonUnmarshal(b, &f); err != nil {
			t.Fatal(err)
		}
		if msg := c20Run(f.Replay); msg != "" {
			fmt.Println("REPLAY-VIOLATION", msg)
			res.Violate("replay", msg, f.Replay)
			return
		}
		fmt.Println("REPLAY-OK")
		return
	}
	res.Rule = "total enumeration per operation kind of the field-domain product (databases, collection names, index names, index/alter parameters, replica numbers, partition lists x dropped subsets, flush lists x dropped subsets, user/role/password/privilege tuples, operation types, replicate id) plus malformed packs (empty, two messages, unknown type first/alone) for every kind; each case through the real ChannelWriter with a fresh writer; the single recorded request is compared with an independently built expectation (identity fields, replication flag, timestamp of the pack's end position which differs from the pack's begin timestamp); non-trivial = cases where a list is filtered, a pack is malformed, or a whole-request passthrough carries non-default fields"
	cases := c20Cases()
	res.Bounds["cases"] = len(cases)
	for i, cs := range cases {
		if !ev.Mine(i) {
			continue
		}
		msg := c20Run(cs)
		res.Evaluations++
		res.States++
		res.Transitions++
		res.Traces++
		if msg != "" {
			tag := strings.SplitN(msg, ":", 2)[0]
			name := cs.Kind
			if cs.Group == "event" {
				name = eventKinds[int(cs.Kind[0]-'0')].String()
			}
			res.Violate(fmt.Sprintf("C20/%s/%s-%s%s", tag, cs.Group, name, cs.Malform), fmt.Sprintf("case %+v: %s", cs, msg), cs)
			continue
		}
		if len(cs.Dropped) > 0 || cs.Group == "malformed" || cs.V.Params != nil || cs.V.Index != "" || cs.V.User != "" {
			res.Nontrivial++
		}
		res.Outcome(cs.Group + "/" + cs.Kind + "/" + cs.Malform)
		if i%397 == 0 {
			res.Sample(cs)
		}
	}
}
