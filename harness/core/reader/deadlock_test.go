package reader

import "github.com/sasha-s/go-deadlock"

func deadlockDisable() { deadlock.Opts.Disable = true }
