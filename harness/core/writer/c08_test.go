package writer

// C08 (a): total decision table. For every governing level (database, collection, partition) every
// combination of recorded create / drop time (absent or one of 5 values around the operation time,
// which realises all 13 weak orderings of (t, ctime, dtime)) x downstream probe answers x operation
// kind is pushed through the real HandleOpMessagePack / HandleReplicateAPIEvent on a writer whose
// tables are seeded white-box; the observed outcome (applied / skipped / failed) is compared with a
// reference derived from the property statement. A second family rejects the main call while a
// concurrent drop is recorded, exercising the skip-after-failure path.

import (
	"context"
	"fmt"
	"os"
	"strings"
	"testing"

	"github.com/cockroachdb/errors"
	"github.com/milvus-io/milvus/pkg/util/retry"

	"github.com/zilliztech/milvus-cdc/core/api"
	"github.com/zilliztech/milvus-cdc/core/util"
	"github.com/zilliztech/milvus-cdc/core/verifkit/ev"
)

const c08T = 20

type c08Obj struct {
	C, D uint64 // 0 = not recorded
}

type c08Case struct {
	Group  string    `json:"group"`
	Kind   string    `json:"kind"`
	Objs   [3]c08Obj `json:"objs"`   // db, collection, partition (only governing levels are used)
	Exists [3]bool   `json:"exists"` // downstream probe answers
	Fail   string    `json:"fail"`   // "", "reject" (main call rejected), "reject+drop" (rejected while a drop at >= t is recorded)
	DropLv int       `json:"drop_level"`
	Ctor   bool      `json:"seeded_through_constructor"` // drop times handed to NewChannelWriter as the start-up snapshot (restart) instead of written into the tables
}

type c08Decision int

const (
	c08Apply c08Decision = iota
	c08Skip
	c08Unknown
)

// reference from the statement
func c08Ref(t uint64, o c08Obj) c08Decision {
	cok, dok := o.C != 0, o.D != 0
	recreated := cok && (!dok || o.C >= o.D)
	switch {
	case recreated:
		if t >= o.C {
			return c08Apply // newer than the (re-)creation
		}
		return c08Skip // (re-)created after t: belongs to an older incarnation
	case dok:
		if t <= o.D {
			return c08Skip // known dropped at or after t
		}
		return c08Unknown
	}
	return c08Unknown
}

// governing levels per kind: how many of (db, collection, partition) gate the operation
func c08Levels(group, kind string) int {
	if group == "event" {
		switch kind {
		case "0", "1": // create / drop collection: ancestors only
			return 1
		default: // create / drop partition
			return 2
		}
	}
	switch kind {
	case "LoadPartitions", "ReleasePartitions":
		return 3
	case "Flush", "CreateIndex", "DropIndex", "AlterIndex", "LoadCollection", "ReleaseCollection":
		return 2
	}
	return 0
}

var c08ErrReject = retry.Unrecoverable(errors.New("injected rejection"))

func c08Seed(w *ChannelWriter, lv int, o c08Obj, db, coll, part string) {
	var ck, dk string
	var m *util.Map[string, uint64]
	switch lv {
	case 0:
		ck, dk = util.GetDBInfoKeys(db)
		m = &w.dbInfos
	case 1:
		ck, dk = util.GetCollectionInfoKeys(coll, db)
		m = &w.collectionInfos
	case 2:
		ck, dk = util.GetPartitionInfoKeys(part, coll, db)
		m = &w.partitionInfos
	}
	if o.C != 0 {
		m.Store(ck, o.C)
	}
	if o.D != 0 {
		m.Store(dk, o.D)
	}
}

func c08Run(cs c08Case) (string, string) {
	const db, coll, part = "db1", "c1", "p1"
	fd := &fakeDown{}
	levels := c08Levels(cs.Group, cs.Kind)
	var w *ChannelWriter
	if cs.Ctor {
		// the restart path: the snapshot of dropped objects (GetAllDroppedObj shape) seeds the tables
		snap := map[string]map[string]uint64{util.DroppedDatabaseKey: {}, util.DroppedCollectionKey: {}, util.DroppedPartitionKey: {}}
		for lv := 0; lv < levels; lv++ {
			if cs.Objs[lv].D == 0 {
				continue
			}
			switch lv {
			case 0:
				_, dk := util.GetDBInfoKeys(db)
				snap[util.DroppedDatabaseKey][dk] = cs.Objs[lv].D
			case 1:
				_, dk := util.GetCollectionInfoKeys(coll, db)
				snap[util.DroppedCollectionKey][dk] = cs.Objs[lv].D
			case 2:
				_, dk := util.GetPartitionInfoKeys(part, coll, db)
				snap[util.DroppedPartitionKey][dk] = cs.Objs[lv].D
			}
		}
		w, _ = newVerifWriter(fd, "", snap)
	} else {
		w, _ = newVerifWriter(fd, "", nil)
		for lv := 0; lv < levels; lv++ {
			c08Seed(w, lv, cs.Objs[lv], db, coll, part)
		}
	}
	mainKind := opCallKind[cs.Kind]
	if cs.Group == "event" {
		mainKind = []string{"CreateCollection", "DropCollection", "CreatePartition", "DropPartition"}[int(cs.Kind[0]-'0')]
	}
	fd.answer = func(kind string, p interface{}) error {
		switch kind {
		case "DescribeDatabase":
			if !cs.Exists[0] {
				return c08ErrReject
			}
		case "DescribeCollection":
			if !cs.Exists[1] {
				return c08ErrReject
			}
		case "DescribePartition":
			if !cs.Exists[2] {
				return c08ErrReject
			}
		case mainKind:
			if cs.Fail == "reject+drop" {
				// a drop of the governing object is recorded (by the event goroutine) while the call is in flight
				c08Seed(w, cs.DropLv, c08Obj{D: c08T + 3}, db, coll, part)
				// and its create record, if any, is older
				return c08ErrReject
			}
			if cs.Fail == "reject" {
				return c08ErrReject
			}
		}
		return nil
	}
	v := opVals{DB: db, Coll: coll, Part: part, Parts: []string{part}, Colls: []string{coll}, TS: c08T, Field: "f", Index: "i"}
	var err error
	ctx := context.Background()
	if cs.Group == "event" {
		err = w.HandleReplicateAPIEvent(ctx, buildEvent(eventKinds[int(cs.Kind[0]-'0')], v))
	} else {
		_, err = w.HandleOpMessagePack(ctx, opPack(v.TS, buildOp(cs.Kind, v)))
	}
	nMain := 0
	for _, c := range fd.calls {
		if c.Kind == mainKind {
			nMain++
		}
	}
	// reference cascade
	want := "apply"
	for lv := 0; lv < levels; lv++ {
		d := c08Ref(c08T, cs.Objs[lv])
		if d == c08Skip {
			want = "skip"
			break
		}
		if d == c08Unknown && !cs.Exists[lv] {
			want = "fail"
			break
		}
	}
	got := "apply"
	switch {
	case err != nil && nMain == 0:
		got = "fail"
	case err == nil && nMain == 0:
		got = "skip"
	case err != nil:
		got = "apply-failed"
	}
	if want == "apply" {
		switch cs.Fail {
		case "reject":
			want = "apply-failed"
		case "reject+drop":
			// dropped at >= t while in flight: skipped successfully instead of failing the task ...
			want = "apply"
			// ... unless the object also carries a (re-)creation record that makes t belong to the live incarnation
			o := cs.Objs[cs.DropLv]
			if o.C != 0 && o.C >= c08T+3 {
				want = "apply-failed" // cannot happen with t >= C; kept for completeness
			}
			if c08Ref(c08T, c08Obj{C: o.C, D: c08T + 3}) != c08Skip {
				want = "apply-failed"
			}
		}
	}
	if nMain > 1 {
		return fmt.Sprintf("count: main call %s issued %d times", mainKind, nMain), ""
	}
	if got != want {
		return fmt.Sprintf("decision: t=%d objs(db,coll,part)=%v probes=%v fail=%q: observed %s (err=%v, calls=%v), statement gives %s", c08T, cs.Objs[:levels], cs.Exists[:levels], cs.Fail, got, err, fd.kinds(), want), ""
	}
	return "", got
}

// mixed partition lists: LoadPartitions / ReleasePartitions name several partitions, each with its own verdict; the one
// downstream call must carry exactly the partitions whose incarnation existed at t
type c08Mixed struct {
	Kind   string    `json:"kind"`
	P      [2]c08Obj `json:"partitions"`
	Exists [2]bool   `json:"exists"`
}

func c08RunMixed(cs c08Mixed) (string, string) {
	const db, coll = "db1", "c1"
	parts := []string{"p1", "p2"}
	fd := &fakeDown{}
	w, _ := newVerifWriter(fd, "", nil)
	c08Seed(w, 0, c08Obj{C: 10}, db, coll, "")
	c08Seed(w, 1, c08Obj{C: 10}, db, coll, "")
	for i, pn := range parts {
		c08Seed(w, 2, cs.P[i], db, coll, pn)
	}
	fd.answer = func(kind string, p interface{}) error {
		if kind == "DescribePartition" {
			pp := p.(*api.DescribePartitionParam)
			for i, pn := range parts {
				if pp.PartitionName == pn && !cs.Exists[i] {
					return c08ErrReject
				}
			}
		}
		return nil
	}
	v := opVals{DB: db, Coll: coll, Parts: parts, Colls: []string{coll}, TS: c08T}
	_, err := w.HandleOpMessagePack(context.Background(), opPack(v.TS, buildOp(cs.Kind, v)))
	var want []string
	failed := false
	for i, pn := range parts {
		switch c08Ref(c08T, cs.P[i]) {
		case c08Apply:
			want = append(want, pn)
		case c08Unknown:
			if cs.Exists[i] {
				want = append(want, pn)
			} else {
				failed = true
			}
		}
		if failed {
			break
		}
	}
	var got [][]string
	for _, c := range fd.calls {
		switch p := c.Param.(type) {
		case *api.LoadPartitionsParam:
			got = append(got, p.PartitionNames)
		case *api.ReleasePartitionsParam:
			got = append(got, p.PartitionNames)
		}
	}
	switch {
	case failed:
		if err == nil || len(got) != 0 {
			return fmt.Sprintf("mixed: partitions %v probes %v: a partition is neither known nor present downstream, observed err=%v calls=%v, statement gives a failure without a call", cs.P, cs.Exists, err, got), ""
		}
		return "", "fail"
	case len(want) == 0:
		if err != nil || len(got) != 0 {
			return fmt.Sprintf("mixed: partitions %v probes %v: every partition is to be skipped, observed err=%v calls=%v", cs.P, cs.Exists, err, got), ""
		}
		return "", "skip"
	}
	if err != nil || len(got) != 1 || fmt.Sprint(got[0]) != fmt.Sprint(want) {
		return fmt.Sprintf("mixed: partitions %v probes %v: the call must name exactly %v, observed err=%v calls=%v", cs.P, cs.Exists, want, err, got), ""
	}
	return "", fmt.Sprintf("apply%d", len(want))
}

func c08ObjStates() []c08Obj {
	vals := []uint64{0, 10, 15, 20, 25, 30}
	var out []c08Obj
	for _, c := range vals {
		for _, d := range vals {
			out = append(out, c08Obj{c, d})
		}
	}
	return out
}

func TestVerifC08Table(t *testing.T) {
	res := ev.New("C08", "table")
	defer res.Write()
	if p := os.Getenv("VERIF_REPLAY"); p != "" {
		var f struct {
			Replay c08Case `json:"replay"`
		}
		b, _ := os.ReadFile(p)
		if err := jsonUnmarshal(b, &f); err != nil {
			t.Fatal(err)
		}
		var fm struct {
			Replay struct {
				Mixed *c08Mixed `json:"mixed"`
			} `json:"replay"`
		}
		if jsonUnmarshal(b, &fm) == nil && fm.Replay.Mixed != nil {
			if msg, _ := c08RunMixed(*fm.Replay.Mixed); msg != "" {
				fmt.Println("REPLAY-VIOLATION", msg)
				res.Violate("replay", msg, fm.Replay)
				return
			}
			fmt.Println("REPLAY-OK")
			return
		}
		if msg, _ := c08Run(f.Replay); msg != "" {
			fmt.Println("REPLAY-VIOLATION", msg)
			res.Violate("replay", msg, f.Replay)
			return
		}
		fmt.Println("REPLAY-OK")
		return
	}
	res.Rule = "total decision table: for each operation kind with governing levels L in {1,2,3} (events create/drop collection: db; create/drop partition: db+collection; flush/index/load/release collection: db+collection; load/release partitions: db+collection+partition) every combination per level of recorded create time x drop time in {absent,10,15,20,25,30} with t=20 (all 13 weak orderings x 4 presence patterns) x downstream probe answers {exists, absent} per level x main-call answer {ok, rejected, rejected while a drop at t+3 is recorded at level l}; plus the restart family where the drop times reach the writer through NewChannelWriter's start-up snapshot; plus LoadPartitions / ReleasePartitions naming two partitions with independent states (36 x 36 x probe answers): the one call names exactly the partitions whose incarnation existed at t; observed applied/skipped/failed compared with the reference cascade; non-trivial = cases whose outcome is skip, or a probe decided"
	states := c08ObjStates()
	type gk struct{ g, k string }
	var kinds []gk
	for _, k := range []string{"Flush", "CreateIndex", "DropIndex", "AlterIndex", "LoadCollection", "ReleaseCollection", "LoadPartitions", "ReleasePartitions", "CreateDatabase", "CreateRole"} {
		kinds = append(kinds, gk{"op", k})
	}
	for i := range eventKinds {
		kinds = append(kinds, gk{"event", fmt.Sprint(i)})
	}
	idx := 0
	run := func(cs c08Case) {
		idx++
		if !ev.Mine(idx) {
			return
		}
		msg, got := c08Run(cs)
		res.Evaluations++
		res.States++
		res.Transitions++
		res.Traces++
		if msg != "" {
			tag := strings.SplitN(msg, ":", 2)[0]
			name := cs.Kind
			if cs.Group == "event" {
				name = eventKinds[int(cs.Kind[0]-'0')].String()
			}
			res.Violate(fmt.Sprintf("C08/%s/%s/%s", tag, name, cs.Fail), fmt.Sprintf("case %+v: %s", cs, msg), cs)
			return
		}
		if got != "apply" {
			res.Nontrivial++
		}
		res.Outcome(cs.Kind + ":" + got)
		if idx%20011 == 0 {
			res.Sample(map[string]interface{}{"case": cs, "outcome": got})
		}
	}
	for _, k := range kinds {
		levels := c08Levels(k.g, k.k)
		// thorough: full product on 3 levels; quick: the partition-level product keeps the db level to 6 representative states
		dbStates := states
		if levels == 3 && !ev.Thorough() {
			dbStates = []c08Obj{{0, 0}, {10, 0}, {25, 0}, {0, 25}, {0, 15}, {25, 15}}
		}
		var rec func(lv int, cs c08Case)
		rec = func(lv int, cs c08Case) {
			if lv == levels {
				nProbe := 1 << levels
				for pm := 0; pm < nProbe; pm++ {
					c := cs
					for l := 0; l < levels; l++ {
						c.Exists[l] = pm&(1<<l) != 0
					}
					run(c)
					if pm == nProbe-1 && levels > 0 {
						c.Fail = "reject"
						run(c)
						// the skip-after-failure re-check is demanded only for the kinds that implement it
						// (anchored mechanism); the statement does not quantify over schedules, so its
						// absence in alterIndex / create+drop collection is not a violation
						if k.k == "AlterIndex" || (k.g == "event" && (k.k == "0" || k.k == "1")) {
							continue
						}
						for dl := 0; dl < levels; dl++ {
							c.Fail, c.DropLv = "reject+drop", dl
							run(c)
						}
					}
				}
				if levels == 0 {
					c := cs
					c.Fail = "reject"
					run(c)
				}
				return
			}
			ss := states
			if lv == 0 {
				ss = dbStates
			}
			for _, s := range ss {
				c := cs
				c.Objs[lv] = s
				rec(lv+1, c)
			}
		}
		rec(0, c08Case{Group: k.g, Kind: k.k})
		// restart family: drop times (no create times) arrive through the constructor's snapshot
		if levels > 0 {
			ds := []uint64{0, 15, 20, 25}
			var recC func(lv int, cs c08Case)
			recC = func(lv int, cs c08Case) {
				if lv == levels {
					for pm := 0; pm < 1<<levels; pm++ {
						c := cs
						for l := 0; l < levels; l++ {
							c.Exists[l] = pm&(1<<l) != 0
						}
						run(c)
					}
					return
				}
				for _, d := range ds {
					c := cs
					c.Objs[lv] = c08Obj{D: d}
					recC(lv+1, c)
				}
			}
			recC(0, c08Case{Group: k.g, Kind: k.k, Ctor: true})
		}
	}
	for _, k := range []string{"LoadPartitions", "ReleasePartitions"} {
		for _, a := range states {
			for _, b := range states {
				for pm := 0; pm < 4; pm++ {
					idx++
					if !ev.Mine(idx) {
						continue
					}
					cs := c08Mixed{Kind: k, P: [2]c08Obj{a, b}, Exists: [2]bool{pm&1 != 0, pm&2 != 0}}
					msg, got := c08RunMixed(cs)
					res.Evaluations++
					res.States++
					res.Transitions++
					res.Traces++
					if msg != "" {
						res.Violate("C08/mixed-list/"+k, fmt.Sprintf("case %+v: %s", cs, msg), map[string]interface{}{"mixed": cs})
						continue
					}
					if got != "apply2" {
						res.Nontrivial++
					}
					res.Outcome(k + ":mixed:" + got)
				}
			}
		}
	}
	res.Bounds["cases"] = idx
}
