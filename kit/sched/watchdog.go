package sched

import (
	"os"
	"sync"
	"sync/atomic"
	"syscall"
	"time"
	"unsafe"

	"github.com/panjf2000/ants/v2"
)

var quietOnce sync.Once

// The stall watchdog lives in the driver (bin/check), not in this process. A watchdog GOROUTINE that wakes up once a
// second is readied into the run-next slot of the only P and pushes the goroutine that was there to the tail of the run
// queue: when one decision of the explorer had made two goroutines runnable, their order flipped whenever the
// watchdog's timer fired in between (a few diverging replays per 100k executions; found in the C04 restart scenarios,
// where two pool tasks and two handler loops start in one decision). The worker therefore only publishes a heartbeat
// in a shared memory page (file named by VERIF_HB): [0:8] counter, [8:16] limit in seconds, [16:528] current
// execution. The driver polls the page; when the counter stops for the limit it writes the VERIF-STALL line
// (busy-spin or blocked, from the CPU time of the process) and sends SIGQUIT to the busiest thread, which makes the Go
// runtime dump every goroutine, starting with the spinning one. This also works when the only P is held by a spinning
// goroutine, which a goroutine-based watchdog depends on sysmon's preemption for.

var hbLocal [66]uint64 // (8-byte aligned: the counter is updated atomically)
var hbMem = unsafe.Slice((*byte)(unsafe.Pointer(&hbLocal[0])), 528)

func init() {
	p := os.Getenv("VERIF_HB")
	if p == "" {
		return
	}
	f, err := os.OpenFile(p, os.O_RDWR|os.O_CREATE, 0o644)
	if err != nil {
		return
	}
	defer f.Close()
	if f.Truncate(4096) != nil {
		return
	}
	m, err := syscall.Mmap(int(f.Fd()), 0, 4096, syscall.PROT_READ|syscall.PROT_WRITE, syscall.MAP_SHARED)
	if err != nil {
		return
	}
	for i := range m[:528] {
		m[i] = 0
	}
	hbMem = m
}

// StartWatchdog arms the driver-side stall watchdog: no progress of the controller for the given real time (a
// goroutine spinning, or blocked on a mutex behind a parked one, keeps synctest.Wait from returning) ends the worker
// with a goroutine dump that the driver attributes to the current execution.
func StartWatchdog(limit time.Duration) {
	_ = syscall.Setrlimit(syscall.RLIMIT_CORE, &syscall.Rlimit{})
	// the ants package creates a default pool at init whose clock goroutine wakes up every 500 ms of real time: the
	// same run-next perturbation as a watchdog goroutine (see above). Nothing in the code under test uses it.
	quietOnce.Do(ants.Release)
	atomic.StoreInt64((*int64)(unsafe.Pointer(&hbMem[8])), int64(limit/time.Second))
}

func beat() { atomic.AddInt64((*int64)(unsafe.Pointer(&hbMem[0])), 1) }

func setWatchdogExec(s string) {
	b := hbMem[16:528]
	n := copy(b[:511], s)
	b[n] = 0
}
