package server

// Full-stack environment for C05 / C06: the real MetaCDC (built white-box) with, per target, a real
// replicateChannelManager + real CollectionReader / ChannelReader + real ChannelWriter + real Packer +
// the real etcd task / position stores, over
//   - fakemq      (immutable per-vchannel source logs, seek rule of the MQ layer, "latest" = published so far),
//   - fakedown    (remembers every acknowledged pack, decoded with Milvus' own dispatcher),
//   - fakeetcd    (the durable metadata store; survives a crash),
//   - a fake source catalog (api.MetaOp) listing the scenario's collections.
// Everything runs inside one synctest bubble under the sched engine. The externally visible steps - the
// downstream's answer to a replicate call or a DDL call and every checkpoint write - are scheduling points
// with data alternatives: proceed | fail | crash before the step | crash after the step. A crash fences the
// incarnation (every later call of its goroutines into a fake blocks forever, its parked goroutines are
// dropped) and a new MetaCDC incarnation is brought up over the same store, downstream and source logs.

import (
	"sync"
	"runtime"
	"context"
	"encoding/json"
	"errors"
	"fmt"
	"sort"
	"strings"
	"time"

	"github.com/milvus-io/milvus-proto/go-api/v2/commonpb"
	"github.com/milvus-io/milvus-proto/go-api/v2/msgpb"
	"github.com/milvus-io/milvus-proto/go-api/v2/schemapb"
	"github.com/milvus-io/milvus/pkg/mq/msgstream"
	"github.com/milvus-io/milvus/pkg/util/funcutil"
	"github.com/milvus-io/milvus/pkg/util/tsoutil"
	"github.com/milvus-io/milvus/pkg/util/typeutil"
	clientv3 "go.etcd.io/etcd/client/v3"

	"github.com/zilliztech/milvus-cdc/core/api"
	"github.com/zilliztech/milvus-cdc/core/config"
	coremeta "github.com/zilliztech/milvus-cdc/core/meta"
	coremodel "github.com/zilliztech/milvus-cdc/core/model"
	"github.com/zilliztech/milvus-cdc/core/pb"
	cdcreader "github.com/zilliztech/milvus-cdc/core/reader"
	"github.com/zilliztech/milvus-cdc/core/util"
	"github.com/zilliztech/milvus-cdc/core/verifkit/fakedown"
	"github.com/zilliztech/milvus-cdc/core/verifkit/fakeetcd"
	"github.com/zilliztech/milvus-cdc/core/verifkit/fakemq"
	"github.com/zilliztech/milvus-cdc/core/verifkit/sched"
	cdcwriter "github.com/zilliztech/milvus-cdc/core/writer"
	"github.com/zilliztech/milvus-cdc/server/metrics"
	"github.com/zilliztech/milvus-cdc/server/model"
	"github.com/zilliztech/milvus-cdc/server/model/meta"
	"github.com/zilliztech/milvus-cdc/server/model/request"
	"github.com/zilliztech/milvus-cdc/server/msgpacker"
	"github.com/zilliztech/milvus-cdc/server/store"
)

// ------------------------------------------------------------------------------------------------
// scenario description

type fsMsg struct {
	Kind string // ins | del | dropColl | insPart (insert into partition "p1") | impPart (bulk-insert message naming _default and "p1")
	Ms   int64
	Lg   int64
}

type fsPack struct {
	Msgs   []fsMsg
	TickMs int64
	TickLg int64
}

type fsShard struct {
	SrcV   string
	Script []fsPack
}

type fsColl struct {
	ID     int64
	Name   string
	Shards []*fsShard
	// UnknownPart: the source has a partition p1 (id known to the source only) that the downstream never gets:
	// an insert into it cannot be processed
	UnknownPart bool
	// Late: the collection is created upstream while the task runs (catalog event -> create-collection event ->
	// start positions persisted -> downstream create -> streams from the start positions); it does not exist downstream
	Late bool
	// NoDown: the collection exists upstream before the task starts but not downstream (created through the event during
	// the start-up scan)
	NoDown bool
}

type fsTask struct {
	ID   string
	URI  string
	Coll string // collection name or "*"
}

type fsScenario struct {
	Name       string
	Colls      []*fsColl
	Tasks      []fsTask
	MaxCount   int  // packer batch size
	DownFault  bool // the downstream may reject a replicate call
	DDLFault   bool // the downstream may reject a DDL call
	StoreFault bool // the store may reject a checkpoint write
	Crash      bool // the process may die before / after a visible step
	MaxCrashes int
	MaxFaults  int
	Pause      bool // a manual pause (followed by a resume) may be requested at any decision point
	TargetFault bool // the downstream lookups of StartReadCollection (start-up scan of a resume / restart) may start failing; they keep failing until the next resume
	ParkGet    bool // the read half of a checkpoint read-modify-write is a scheduling point too
	Bound      *int
	// RepeatFault: once the downstream has rejected a call it keeps rejecting (per channel) until the task is resumed
	RepeatFault bool
	// ConnFailAt: the n-th connectivity check of a new channel handler fails (the MQ is unreachable for a moment); the
	// check runs under the channel manager's lock, so it is a scripted answer, not a scheduling point
	ConnFailAt int
	// EagerSource: deliveries are the default choice (the source is ahead of the writer: packs queue up in the channel
	// buffers); EarlyResume: a manually paused task may be resumed at any decision point (one deviation), not only at
	// a quiescent point
	EagerSource bool
	EarlyResume bool
	// MaxMsgKB: the batcher's size threshold in KB (0 = default, far above everything the scenarios send)
	MaxMsgKB int
	// Gen: member of a generated family (sharded by scenario, not by subtree)
	Gen bool
}

func fsTs(ms, lg int64) uint64 { return tsoutil.ComposeTS(ms, lg) }

type fsSrc struct {
	Key    string // identity at the downstream: "<Type>#<base MsgID>"
	ID     string // source position id
	Stream string
	Coll   int64
	Pack   int
	Kind   string
	Ts     uint64
}

type fsPackRef struct {
	Stream string
	Coll   int64
	Pack   int
}

// dropPack: index of the pack that carries the collection's drop message on the given shard (-1 = none)
func (sh *fsShard) dropPack() int {
	for i, p := range sh.Script {
		for _, m := range p.Msgs {
			if m.Kind == "dropColl" {
				return i
			}
		}
	}
	return -1
}

func (c *fsColl) info() *pb.CollectionInfo {
	var v, p []string
	var sp []*commonpb.KeyDataPair
	for _, sh := range c.Shards {
		v = append(v, sh.SrcV)
		pc := funcutil.ToPhysicalChannel(sh.SrcV)
		p = append(p, pc)
		sp = append(sp, &commonpb.KeyDataPair{Key: pc, Data: []byte("start-" + sh.SrcV)})
	}
	return &pb.CollectionInfo{ID: c.ID, DbId: 1, Schema: &schemapb.CollectionSchema{Name: c.Name}, State: pb.CollectionState_CollectionCreated, CreateTime: fsTs(900, 0),
		VirtualChannelNames: v, PhysicalChannelNames: p, StartPositions: sp, ShardsNum: int32(len(c.Shards))}
}

func fsBuildLog(c *fsColl, sh *fsShard, seq *int) ([]*msgstream.MsgPack, []*fsSrc, map[string]fsPackRef) {
	var packs []*msgstream.MsgPack
	var src []*fsSrc
	ends := map[string]fsPackRef{}
	srcP := funcutil.ToPhysicalChannel(sh.SrcV)
	prevTick := uint64(0)
	prevID := []byte("start-" + sh.SrcV)
	for pi, p := range sh.Script {
		endTs := fsTs(p.TickMs, p.TickLg)
		pack := &msgstream.MsgPack{BeginTs: prevTick, EndTs: endTs}
		tickID := []byte(fmt.Sprintf("%s#%d.tick", sh.SrcV, pi))
		pack.StartPositions = []*msgpb.MsgPosition{{ChannelName: srcP, MsgID: prevID, Timestamp: prevTick}}
		pack.EndPositions = []*msgpb.MsgPosition{{ChannelName: srcP, MsgID: tickID, Timestamp: endTs}}
		ends[string(tickID)] = fsPackRef{Stream: sh.SrcV, Coll: c.ID, Pack: pi}
		for mi, m := range p.Msgs {
			*seq++
			ts := fsTs(m.Ms, m.Lg)
			id := fmt.Sprintf("%s#%d.%d", sh.SrcV, pi, mi)
			pos := &msgpb.MsgPosition{ChannelName: sh.SrcV, MsgID: []byte(id), Timestamp: ts}
			bm := msgstream.BaseMsg{BeginTimestamp: ts, EndTimestamp: ts, HashValues: []uint32{0}, MsgPosition: pos}
			var tm msgstream.TsMsg
			part, partID := "_default", c.ID*10+1
			if m.Kind == "insPart" {
				part, partID = "p1", c.ID*10+2
			}
			switch m.Kind {
			case "bigins":
				// an insert above the batcher's size threshold (MaxMsgSize, 1 KB in the scenarios that use it)
				tm = &msgstream.InsertMsg{BaseMsg: bm, InsertRequest: &msgpb.InsertRequest{
					Base: &commonpb.MsgBase{MsgType: commonpb.MsgType_Insert, Timestamp: ts, MsgID: int64(*seq)}, DbName: "default", CollectionName: c.Name, PartitionName: part,
					CollectionID: c.ID, PartitionID: partID, ShardName: sh.SrcV, NumRows: 1, Version: msgpb.InsertDataVersion_ColumnBased,
					RowIDs: []int64{int64(*seq) * 10}, Timestamps: []uint64{ts},
					FieldsData: []*schemapb.FieldData{{Type: schemapb.DataType_Int64, FieldName: "pk", FieldId: 100, Field: &schemapb.FieldData_Scalars{Scalars: &schemapb.ScalarField{
						Data: &schemapb.ScalarField_LongData{LongData: &schemapb.LongArray{Data: []int64{int64(*seq) * 100}}}}}},
						{Type: schemapb.DataType_VarChar, FieldName: "blob", FieldId: 101, Field: &schemapb.FieldData_Scalars{Scalars: &schemapb.ScalarField{
							Data: &schemapb.ScalarField_StringData{StringData: &schemapb.StringArray{Data: []string{strings.Repeat("x", 1500)}}}}}}},
				}}
			case "ins", "insPart":
				tm = &msgstream.InsertMsg{BaseMsg: bm, InsertRequest: &msgpb.InsertRequest{
					Base: &commonpb.MsgBase{MsgType: commonpb.MsgType_Insert, Timestamp: ts, MsgID: int64(*seq)}, DbName: "default", CollectionName: c.Name, PartitionName: part,
					CollectionID: c.ID, PartitionID: partID, ShardName: sh.SrcV, NumRows: 1, Version: msgpb.InsertDataVersion_ColumnBased,
					RowIDs: []int64{int64(*seq) * 10}, Timestamps: []uint64{ts},
					FieldsData: []*schemapb.FieldData{{Type: schemapb.DataType_Int64, FieldName: "pk", FieldId: 100, Field: &schemapb.FieldData_Scalars{Scalars: &schemapb.ScalarField{
						Data: &schemapb.ScalarField_LongData{LongData: &schemapb.LongArray{Data: []int64{int64(*seq) * 100}}}}}}},
				}}
			case "del":
				tm = &msgstream.DeleteMsg{BaseMsg: bm, DeleteRequest: &msgpb.DeleteRequest{
					Base: &commonpb.MsgBase{MsgType: commonpb.MsgType_Delete, Timestamp: ts, MsgID: int64(*seq)}, DbName: "default", CollectionName: c.Name, PartitionName: part,
					CollectionID: c.ID, PartitionID: partID, ShardName: sh.SrcV, NumRows: 1, Timestamps: []uint64{ts},
					PrimaryKeys: &schemapb.IDs{IdField: &schemapb.IDs_IntId{IntId: &schemapb.LongArray{Data: []int64{int64(*seq) * 100}}}},
				}}
			case "impPart":
				tm = &msgstream.ImportMsg{BaseMsg: bm, ImportMsg: &msgpb.ImportMsg{
					Base: &commonpb.MsgBase{MsgType: commonpb.MsgType_Import, Timestamp: ts, MsgID: int64(*seq)}, DbName: "default", CollectionName: c.Name,
					CollectionID: c.ID, PartitionIDs: []int64{c.ID*10 + 1, c.ID*10 + 2}, JobID: int64(*seq),
				}}
			case "dropColl":
				tm = &msgstream.DropCollectionMsg{BaseMsg: bm, DropCollectionRequest: &msgpb.DropCollectionRequest{
					Base: &commonpb.MsgBase{MsgType: commonpb.MsgType_DropCollection, Timestamp: ts, MsgID: int64(*seq)}, DbName: "default", CollectionName: c.Name, CollectionID: c.ID,
				}}
			default:
				panic("unknown msg kind " + m.Kind)
			}
			pack.Msgs = append(pack.Msgs, tm)
			src = append(src, &fsSrc{Key: fmt.Sprintf("%s#%d", tm.Type(), *seq), ID: id, Stream: sh.SrcV, Coll: c.ID, Pack: pi, Kind: m.Kind, Ts: ts})
		}
		pack.Msgs = append(pack.Msgs, &msgstream.TimeTickMsg{
			BaseMsg:     msgstream.BaseMsg{BeginTimestamp: endTs, EndTimestamp: endTs, HashValues: []uint32{0}, MsgPosition: &msgpb.MsgPosition{ChannelName: sh.SrcV, MsgID: tickID, Timestamp: endTs}},
			TimeTickMsg: &msgpb.TimeTickMsg{Base: &commonpb.MsgBase{MsgType: commonpb.MsgType_TimeTick, Timestamp: endTs}},
		})
		packs = append(packs, pack)
		prevTick, prevID = endTs, tickID
	}
	return packs, src, ends
}

// ------------------------------------------------------------------------------------------------
// run state

type fsEvent struct {
	N      int
	Inc    int
	Kind   string // ack | reject | put | put-fail | crash | restart | pause | resume | register | ddl | ddl-reject | paused-seen
	Key    string
	Detail string
	Pack   *fakedown.AckedPack
	Pos    *meta.TaskCollectionPosition
	Reg    *msgpb.MsgPosition
	First  int
}

type fsInc struct {
	n       int
	dead    bool
	never   chan struct{}
	cdc     *MetaCDC
	st      *vStore
	mq      *fakemq.MQ
	cancels []context.CancelFunc
	release []func()
	metaOps []*fsMetaOp
}

func (i *fsInc) fence() {
	if i.dead {
		<-i.never
	}
}

type fsRun struct {
	sc       *fsScenario
	ctl      *sched.Ctl
	fe       *fakeetcd.Fake
	down     *fakedown.Down
	src      []*fsSrc
	srcByKey map[string]*fsSrc
	packEnd  map[string]fsPackRef
	logs     map[string][]*msgstream.MsgPack
	incs     []*fsInc
	cur      *fsInc
	events   []fsEvent
	crashes  int
	faults   int
	needRestart bool
	restarting  bool
	paused      map[string]bool // tasks the harness asked to pause (manual) and still has to resume
	pausesLeft  int
	resumeBusy  bool
	rejecting   map[string]bool // channels on which the downstream keeps rejecting (RepeatFault)
	targetDown  map[string]bool // collections whose downstream lookup keeps failing (TargetFault)

	created     map[int64]bool // Late collections that exist upstream by now
	connChecks  int            // connectivity checks so far (all incarnations)
	apiErrs     []string
	frozenFn    func() bool // no more faults / crashes (final clean phase)
	setup       bool        // the controller's own goroutine is creating the tasks: nothing parks
}

var errFsDown = errors.New("injected: downstream rejects the request")
var errFsStore = errors.New("injected: metadata store rejects the write")
var errFsConn = errors.New("injected: the source message queue refuses the connection")

func (r *fsRun) ev(e fsEvent) {
	e.N = len(r.events)
	r.events = append(r.events, e)
}

// decide parks the calling goroutine at an externally visible step and returns the chosen alternative:
// ok | fail | crash-before | crash-after.
func (r *fsRun) decide(inc *fsInc, key, label string, canFail bool) string {
	if r.setup {
		return "ok"
	}
	alts := []string{"ok"}
	frozen := r.frozenFn != nil && r.frozenFn()
	if frozen {
		canFail = false
	}
	if canFail && r.faults < r.maxFaults() {
		alts = append(alts, "fail")
	}
	if r.sc.Crash && !frozen && r.crashes < r.maxCrashes() {
		alts = append(alts, "crash-before", "crash-after")
	}
	pick := r.ctl.Choose(fmt.Sprintf("i%d:%s", inc.n, key), label, false, len(alts), 1)
	if pick >= len(alts) {
		pick = 0
	}
	if alts[pick] == "fail" {
		r.faults++
	}
	return alts[pick]
}

// visible is a scheduling point at an externally visible step with data alternatives (outside every repository lock).
func (r *fsRun) visible(inc *fsInc, key, label string, canFail bool, apply func() error, failErr error) error {
	inc.fence()
	alt := r.decide(inc, key, label, canFail)
	inc.fence()
	switch alt {
	case "fail":
		return failErr
	case "crash-before":
		r.crash(inc, "before "+key+"@"+label)
		inc.fence()
	case "crash-after":
		err := apply()
		r.crash(inc, "after "+key+"@"+label)
		inc.fence()
		return err
	}
	return apply()
}

func (r *fsRun) maxCrashes() int {
	if r.sc.MaxCrashes > 0 {
		return r.sc.MaxCrashes
	}
	return 1
}

func (r *fsRun) maxFaults() int {
	if r.sc.MaxFaults > 0 {
		return r.sc.MaxFaults
	}
	return 1
}

func (r *fsRun) crash(inc *fsInc, where string) {
	if inc.dead {
		return
	}
	inc.dead = true
	r.crashes++
	prefix := fmt.Sprintf("i%d:", inc.n)
	r.ctl.DropParked(func(k string) bool { return strings.HasPrefix(k, prefix) })
	for _, c := range inc.cancels {
		c()
	}
	r.needRestart = true
	r.ev(fsEvent{Inc: inc.n, Kind: "crash", Detail: where})
}

// ------------------------------------------------------------------------------------------------
// incarnation-bound fakes

type fsKV struct {
	clientv3.KV
	r   *fsRun
	inc *fsInc
}

func fsIsPositionKey(k string) bool { return strings.Contains(k, "/task_position/") }

func fsShortKey(k string) string {
	if i := strings.Index(k, "/task_position/"); i >= 0 {
		return "pos:" + k[i+len("/task_position/"):]
	}
	return k
}

func (k *fsKV) Put(ctx context.Context, key, val string, opts ...clientv3.OpOption) (*clientv3.PutResponse, error) {
	k.inc.fence()
	if !fsIsPositionKey(key) {
		return k.KV.Put(ctx, key, val, opts...)
	}
	// (runs under the store package's record lock, whose waiters block on channels in this build: parking here is fine)
	short := fsShortKey(key)
	label := "put"
	var p meta.TaskCollectionPosition
	_ = json.Unmarshal([]byte(val), &p)
	for _, pi := range p.Positions {
		if pi != nil && pi.Dropped {
			label = "put-dropped"
		}
	}
	var resp *clientv3.PutResponse
	err := k.r.visible(k.inc, "store:"+short, label, k.r.sc.StoreFault, func() error {
		var e error
		resp, e = k.KV.Put(ctx, key, val, opts...)
		if e == nil {
			k.r.ev(fsEvent{Inc: k.inc.n, Kind: "put", Key: short, Pos: &p})
		}
		return e
	}, errFsStore)
	if err == errFsStore {
		k.r.ev(fsEvent{Inc: k.inc.n, Kind: "put-fail", Key: short})
	}
	return resp, err
}

func (k *fsKV) Get(ctx context.Context, key string, opts ...clientv3.OpOption) (*clientv3.GetResponse, error) {
	k.inc.fence()
	if k.r.sc.ParkGet && fsIsPositionKey(key) && k.r.ctl != nil && !k.r.setup {
		// the read half of a checkpoint read-modify-write
		k.r.ctl.Point(fmt.Sprintf("i%d:store:%s", k.inc.n, fsShortKey(key)), "get", false)
		k.inc.fence()
	}
	return k.KV.Get(ctx, key, opts...)
}

func (k *fsKV) Delete(ctx context.Context, key string, opts ...clientv3.OpOption) (*clientv3.DeleteResponse, error) {
	k.inc.fence()
	return k.KV.Delete(ctx, key, opts...)
}

func (k *fsKV) Do(ctx context.Context, op clientv3.Op) (clientv3.OpResponse, error) {
	k.inc.fence()
	return k.KV.Do(ctx, op)
}

func (k *fsKV) Txn(ctx context.Context) clientv3.Txn {
	k.inc.fence()
	return k.KV.Txn(ctx)
}

// downstream data handler bound to an incarnation
type fsDown struct {
	*fakedown.Down
	r   *fsRun
	inc *fsInc
}

func (d *fsDown) ReplicateMessage(ctx context.Context, p *api.ReplicateMessageParam) error {
	ch := p.ChannelName
	canFail := d.r.sc.DownFault
	if d.r.rejecting[ch] {
		d.inc.fence()
		d.r.ev(fsEvent{Inc: d.inc.n, Kind: "reject", Key: ch, Detail: fsParamEnd(p)})
		return errFsDown
	}
	err := d.r.visible(d.inc, "down:"+ch, "replicate", canFail, func() error {
		e := d.Down.ReplicateMessage(ctx, p)
		if e == nil {
			_, acked := d.Down.Snapshot()
			ap := acked[len(acked)-1]
			d.r.ev(fsEvent{Inc: d.inc.n, Kind: "ack", Key: ch, Pack: &ap})
		}
		return e
	}, errFsDown)
	if err == errFsDown {
		if d.r.sc.RepeatFault {
			d.r.rejecting[ch] = true
		}
		d.r.ev(fsEvent{Inc: d.inc.n, Kind: "reject", Key: ch, Detail: fsParamEnd(p)})
	}
	return err
}

func fsParamEnd(p *api.ReplicateMessageParam) string {
	if n := len(p.EndPositions); n > 0 {
		return string(p.EndPositions[n-1].MsgID)
	}
	return ""
}

func (d *fsDown) ddl(kind, name string, f func() error) error {
	err := d.r.visible(d.inc, "down:ddl", kind, d.r.sc.DDLFault, func() error {
		e := f()
		if e == nil {
			d.r.ev(fsEvent{Inc: d.inc.n, Kind: "ddl", Key: kind, Detail: name})
		}
		return e
	}, errFsDown)
	if err == errFsDown {
		d.r.ev(fsEvent{Inc: d.inc.n, Kind: "ddl-reject", Key: kind, Detail: name})
	}
	return err
}

func (d *fsDown) DropCollection(ctx context.Context, p *api.DropCollectionParam) error {
	return d.ddl("DropCollection", p.CollectionName, func() error { return d.Down.DropCollection(ctx, p) })
}
func (d *fsDown) CreateCollection(ctx context.Context, p *api.CreateCollectionParam) error {
	return d.ddl("CreateCollection", p.Schema.CollectionName, func() error { return d.Down.CreateCollection(ctx, p) })
}
func (d *fsDown) DescribeCollection(ctx context.Context, p *api.DescribeCollectionParam) error {
	d.inc.fence()
	return d.Down.DescribeCollection(ctx, p)
}
func (d *fsDown) DescribeDatabase(ctx context.Context, p *api.DescribeDatabaseParam) error {
	d.inc.fence()
	return d.Down.DescribeDatabase(ctx, p)
}
func (d *fsDown) DescribePartition(ctx context.Context, p *api.DescribePartitionParam) error {
	d.inc.fence()
	return d.Down.DescribePartition(ctx, p)
}

type fsTarget struct {
	fakedown.Target
	inc *fsInc
	r   *fsRun
}

var errFsTarget = errors.New("injected: downstream lookup failed")

func (t fsTarget) GetCollectionInfo(ctx context.Context, name, db string) (*coremodel.CollectionInfo, error) {
	t.inc.fence()
	if r := t.r; r != nil && r.sc.TargetFault && !r.setup && fsInStartRead() {
		if r.targetDown[name] {
			return nil, errFsTarget
		}
		if r.decide(t.inc, "target:"+name, "lookup", true) == "fail" {
			r.targetDown[name] = true
			r.ev(fsEvent{Inc: t.inc.n, Kind: "target-fail", Key: "target:" + name, Detail: name})
			return nil, errFsTarget
		}
		t.inc.fence()
	}
	return t.Target.GetCollectionInfo(ctx, name, db)
}

// fsInStartRead: the caller is the start-up scan of a task (StartReadCollection holds no repository lock around its
// downstream lookups; the lazy partition refresh of a stream handler does, and must not park)
func fsInStartRead() bool {
	pc := make([]uintptr, 32)
	n := runtime.Callers(2, pc)
	fr := runtime.CallersFrames(pc[:n])
	for {
		f, more := fr.Next()
		if strings.HasSuffix(f.Function, "startReadCollectionForMilvus") || strings.Contains(f.Function, "startReadCollectionForMilvus.func") {
			return true
		}
		if !more {
			return false
		}
	}
}
func (t fsTarget) GetPartitionInfo(ctx context.Context, name, db string) (*coremodel.CollectionInfo, error) {
	t.inc.fence()
	return t.Target.GetPartitionInfo(ctx, name, db)
}
func (t fsTarget) GetDatabaseName(ctx context.Context, coll, db string) (string, error) {
	t.inc.fence()
	return t.Target.GetDatabaseName(ctx, coll, db)
}

// source catalog
type fsMetaOp struct {
	api.DefaultMetaOp
	r         *fsRun
	inc       *fsInc
	mu        sync.Mutex
	consumers map[string]api.CollectionEventConsumer
}

func (m *fsMetaOp) coll(id int64) *fsColl {
	for _, c := range m.r.sc.Colls {
		if c.ID == id {
			return c
		}
	}
	return nil
}
func (m *fsMetaOp) WatchCollection(ctx context.Context, f api.CollectionFilter)                       {}
func (m *fsMetaOp) WatchPartition(ctx context.Context, f api.PartitionFilter)                         {}
func (m *fsMetaOp) SubscribeCollectionEvent(taskID string, c api.CollectionEventConsumer) {
	m.mu.Lock()
	defer m.mu.Unlock()
	if m.consumers == nil {
		m.consumers = map[string]api.CollectionEventConsumer{}
	}
	m.consumers[taskID] = c
}
func (m *fsMetaOp) SubscribePartitionEvent(taskID string, c api.PartitionEventConsumer)              {}
func (m *fsMetaOp) UnsubscribeEvent(taskID string, t api.WatchEventType) {
	if t == api.CollectionEventType {
		m.mu.Lock()
		delete(m.consumers, taskID)
		m.mu.Unlock()
	}
}

// announce: the catalog watcher delivers the creation of a collection to the subscribed tasks, one after the other
// (the real EtcdOp does so from its event goroutine)
func (m *fsMetaOp) announce(ci *pb.CollectionInfo) {
	m.mu.Lock()
	var ids []string
	for id := range m.consumers {
		ids = append(ids, id)
	}
	sort.Strings(ids)
	var cs []api.CollectionEventConsumer
	for _, id := range ids {
		cs = append(cs, m.consumers[id])
	}
	m.mu.Unlock()
	for _, c := range cs {
		m.inc.fence()
		if c(ci) {
			return
		}
	}
}
func (m *fsMetaOp) StartWatch()                                                                      {}
func (m *fsMetaOp) GetAllCollection(ctx context.Context, f api.CollectionFilter) ([]*pb.CollectionInfo, error) {
	var out []*pb.CollectionInfo
	for _, c := range m.r.sc.Colls {
		if c.Late && !m.r.created[c.ID] {
			continue
		}
		ci := c.info()
		// the source catalog says "dropped" from the moment the drop happened upstream, i.e. at the latest when a
		// reader has seen the drop message on some shard
		for _, sh := range c.Shards {
			if dp := sh.dropPack(); dp >= 0 && m.r.cur.mq.Published(sh.SrcV) > dp {
				ci.State = pb.CollectionState_CollectionDropped
			}
		}
		out = append(out, ci)
	}
	return out, nil
}
func (m *fsMetaOp) GetAllPartition(ctx context.Context, f api.PartitionFilter) ([]*pb.PartitionInfo, error) {
	// (the partition of an UnknownPart collection is not announced: the reader meets messages for a partition that
	// neither it nor the downstream knows)
	return nil, nil
}
func (m *fsMetaOp) GetCollectionNameByID(ctx context.Context, id int64) string {
	if c := m.coll(id); c != nil {
		return c.Name
	}
	return ""
}
func (m *fsMetaOp) GetDatabaseInfoForCollection(ctx context.Context, id int64) coremodel.DatabaseInfo {
	return coremodel.DatabaseInfo{ID: 1, Name: "default"}
}
func (m *fsMetaOp) GetAllDroppedObj() map[string]map[string]uint64 {
	return map[string]map[string]uint64{}
}

// ------------------------------------------------------------------------------------------------
// building an incarnation

func (r *fsRun) config() *CDCServerConfig {
	mc := r.sc.MaxCount
	if mc <= 0 {
		mc = 1
	}
	return &CDCServerConfig{
		MaxTaskNum:      100,
		MaxNameLength:   256,
		Retry:           config.RetrySettings{RetryTimes: 2, InitBackOff: 1, MaxBackOff: 1},
		SourceConfig:    MilvusSourceConfig{ReplicateChan: "by-dev-replicate-msg", ChannelNum: 2, ReadChanLen: 16, TimeTickInterval: 500, DefaultPartitionName: "_default"},
		MetaStoreConfig: CDCMetaStoreConfig{RootPath: vRoot, StoreType: "etcd"},
		Packer:          msgpacker.PackerConfig{MaxCount: mc, MaxMsgSize: r.sc.MaxMsgKB},
	}
}

type fsMQSched struct {
	r   *fsRun
	inc *fsInc
}

func (s fsMQSched) Point(key, label string, free bool) {
	s.inc.fence()
	// In this harness an arrival is not a free point: with five kinds of goroutines parked at once (two feeders, two
	// senders, store writes) "free whenever the running goroutine sits at an arrival point" makes every placement
	// of every internal step free and the space explodes. Arrival order is still free whenever the running
	// goroutine has blocked (nothing is "current"), i.e. at every moment the pipeline has drained.
	free = false
	if s.r.sc.EagerSource && strings.HasPrefix(key, "stream:") {
		key = "a-" + key // (sorts before every other role: taken first)
	}
	s.r.ctl.Point(fmt.Sprintf("i%d:%s", s.inc.n, key), label, free)
	s.inc.fence()
}

func (r *fsRun) newInc(base *fakemq.MQ) *fsInc {
	inc := &fsInc{n: len(r.incs) + 1, never: make(chan struct{})}
	r.incs = append(r.incs, inc)
	r.cur = inc
	// process-wide state of a fresh process
	inc.release = append(inc.release, cdcreader.VerifResetGlobals())
	msgpacker.VerifResetMemory()
	store.VerifResetLocks()
	metrics.VerifResetTaskNum()
	inc.mq = base.Fork(fsMQSched{r, inc})
	inc.mq.Fence = inc.fence
	inc.mq.DeadDeregister = func() bool { return inc.dead }
	inc.mq.OnRegister = func(rr fakemq.RegRecord) {
		r.ev(fsEvent{Inc: inc.n, Kind: "register", Key: rr.VChannel, Reg: rr.Pos, First: rr.FirstPack})
	}
	cli := r.fe.Client()
	cli.KV = &fsKV{KV: r.fe, r: r, inc: inc}
	st := &vStore{fe: r.fe, cli: cli}
	st.EtcdMetaStore = store.NewVerifEtcdMetaStore(cli, vRoot, &vRepStore{cli: cli, root: vRoot})
	st.ti = st.GetTaskInfoMetaStore(context.Background())
	st.tp = st.GetTaskCollectionPositionMetaStore(context.Background())
	inc.st = st
	cdc := &MetaCDC{metaStoreFactory: st, config: r.config(), rootPath: vRoot}
	cdc.collectionNames.data = make(map[string][]string)
	cdc.collectionNames.excludeData = make(map[string][]string)
	cdc.collectionNames.extraInfos = make(map[string]model.ExtraInfo)
	cdc.collectionNames.nameMapping = make(map[string]map[string]string)
	cdc.cdcTasks.data = make(map[string]*meta.TaskInfo)
	cdc.replicateEntityMap.data = make(map[string]*ReplicateEntity)
	inc.cdc = cdc
	verifSkipConnect.Store(true)
	verifEntityFactory.Store(func(c *MetaCDC, info *meta.TaskInfo) (*ReplicateEntity, error) {
		return r.newFullEntity(inc, c, getTaskUniqueIDFromInfo(info))
	})
	return inc
}

func (r *fsRun) newFullEntity(inc *fsInc, cdc *MetaCDC, uKey string) (*ReplicateEntity, error) {
	inc.fence()
	cfg := cdc.config
	target := fsTarget{Target: fakedown.Target{D: r.down}, inc: inc, r: r}
	mo := &fsMetaOp{r: r, inc: inc}
	inc.metaOps = append(inc.metaOps, mo)
	rm, err := coremeta.NewReplicateMetaImpl(inc.st.GetReplicateStore(context.Background()))
	if err != nil {
		return nil, err
	}
	fac := &fakemq.Factory{MQ: inc.mq}
	if r.sc.ConnFailAt > 0 {
		fac.AsConsumerErr = func(chs []string) error {
			r.connChecks++
			if r.connChecks == r.sc.ConnFailAt && !(r.frozenFn != nil && r.frozenFn()) {
				r.ev(fsEvent{Inc: inc.n, Kind: "conn-fail", Key: strings.Join(chs, ",")})
				return errFsConn
			}
			return nil
		}
	}
	cm, err := cdcreader.NewReplicateChannelManager(inc.mq, fac, target, config.ReaderConfig{
		MessageBufferSize: cfg.SourceConfig.ReadChanLen, TTInterval: cfg.SourceConfig.TimeTickInterval, Retry: cfg.Retry,
		SourceChannelNum: cfg.SourceConfig.ChannelNum, TargetChannelNum: 2, ReplicateID: uKey,
	}, mo, rm, func(string, *msgstream.MsgPack) {}, "milvus")
	if err != nil {
		return nil, err
	}
	w := cdcwriter.NewChannelWriter(&fsDown{Down: r.down, r: r, inc: inc}, rm, config.WriterConfig{MessageBufferSize: cfg.SourceConfig.ReadChanLen, Retry: cfg.Retry},
		mo.GetAllDroppedObj(), "milvus")
	cdc.replicateEntityMap.Lock()
	defer cdc.replicateEntityMap.Unlock()
	if ent, ok := cdc.replicateEntityMap.data[uKey]; ok {
		return ent, nil
	}
	ctx, cancel := context.WithCancel(context.Background())
	cm.SetCtx(ctx)
	inc.cancels = append(inc.cancels, cancel)
	ent := &ReplicateEntity{
		targetClient: target, channelManager: cm, metaOp: mo, writerObj: w,
		entityQuitFunc: cancel, mqDispatcher: inc.mq, mqTTDispatcher: inc.mq,
		taskQuitFuncs: typeutil.NewConcurrentMap[string, func()](),
	}
	cdc.replicateEntityMap.data[uKey] = ent
	cdc.startReplicateAPIEvent(ctx, ent)
	cdc.startReplicateDMLChannel(ctx, ent)
	return ent, nil
}

func fsReq(t fsTask) *request.CreateRequest {
	return &request.CreateRequest{TaskID: t.ID,
		MilvusConnectParam: model.MilvusConnectParam{URI: t.URI, ConnectTimeout: 1, ChannelNum: 2},
		CollectionInfos:    []model.CollectionInfo{{Name: t.Coll}}}
}

// fsStart builds the world and the first incarnation and creates the scenario's tasks.
func fsStart(sc *fsScenario, ctl *sched.Ctl) *fsRun {
	r := &fsRun{sc: sc, ctl: ctl, fe: fakeetcd.New(), down: fakedown.New([]string{"tgt-dml_0", "tgt-dml_1"}), srcByKey: map[string]*fsSrc{},
		packEnd: map[string]fsPackRef{}, logs: map[string][]*msgstream.MsgPack{}, paused: map[string]bool{}, rejecting: map[string]bool{}, targetDown: map[string]bool{}, created: map[int64]bool{}}
	base := fakemq.New(nil)
	base.LatestIsPublished = true
	base.TickGap = 600 * time.Millisecond
	seq := 0
	for _, c := range sc.Colls {
		// downstream placement mirrors the source's: the shard on src-dml_k lives on tgt-dml_k
		var tp []string
		for _, sh := range c.Shards {
			sp := funcutil.ToPhysicalChannel(sh.SrcV)
			tp = append(tp, "tgt-dml_"+sp[strings.LastIndex(sp, "_")+1:])
		}
		if !c.Late && !c.NoDown {
			r.down.AddCollectionOn("default", c.Name, tp)
		}
		// (a collection created through the event is placed by the downstream itself: shard i on tgt-dml_i)
		for _, sh := range c.Shards {
			packs, src, ends := fsBuildLog(c, sh, &seq)
			base.SetLog(sh.SrcV, packs)
			r.logs[sh.SrcV] = packs
			r.src = append(r.src, src...)
			for _, s := range src {
				r.srcByKey[s.Key] = s
			}
			for k, v := range ends {
				r.packEnd[k] = v
			}
		}
	}
	r.pausesLeft = 0
	if sc.Pause {
		r.pausesLeft = 1
	}
	inc := r.newInc(base)
	r.setup = true
	defer func() { r.setup = false }()
	for _, t := range sc.Tasks {
		if _, err := inc.cdc.Create(fsReq(t)); err != nil {
			r.apiErrs = append(r.apiErrs, fmt.Sprintf("create %s: %v", t.ID, err))
		}
	}
	return r
}

func (r *fsRun) restart() {
	// let the dead incarnation's goroutines come to rest first (their contexts are cancelled, every fake is fenced):
	// whatever still sleeps in a retry loop wakes up under the OLD process-wide singletons and ends or blocks for good
	time.Sleep(5 * time.Minute)
	old := r.cur
	inc := r.newInc(old.mq)
	r.ev(fsEvent{Inc: inc.n, Kind: "restart", Detail: r.droppedUpstream()})
	inc.cdc.ReloadTask()
	r.restarting = false
}

// droppedUpstream lists (as ",id,id,") the collections whose drop has happened upstream by now: a reader has seen
// the drop message on some shard, so the source catalog reports them as dropped to every later incarnation.
func (r *fsRun) droppedUpstream() string {
	out := ","
	for _, c := range r.sc.Colls {
		for _, sh := range c.Shards {
			if dp := sh.dropPack(); dp >= 0 && r.cur.mq.Published(sh.SrcV) > dp {
				out += fmt.Sprintf("%d,", c.ID)
				break
			}
		}
	}
	return out
}

// taskStates: what Get reports for every task of the scenario (current incarnation)
func (r *fsRun) taskStates() map[string]*meta.TaskInfo {
	out := map[string]*meta.TaskInfo{}
	r.cur.cdc.cdcTasks.RLock()
	defer r.cur.cdc.cdcTasks.RUnlock()
	for k, v := range r.cur.cdc.cdcTasks.data {
		cp := *v
		out[k] = &cp
	}
	return out
}

// actions: harness-side steps offered to the controller
func (r *fsRun) actions() []sched.Action {
	var out []sched.Action
	if r.needRestart && !r.restarting {
		out = append(out, sched.Action{Label: "restart", Cost: 0, Do: func() {
			r.needRestart, r.restarting = false, true
			go r.restart()
		}})
		return out
	}
	if r.restarting || r.resumeBusy || r.cur.dead {
		return nil
	}
	for _, c := range r.sc.Colls {
		if c.Late && !r.created[c.ID] {
			out = append(out, sched.Action{Label: "create:" + c.Name, Cost: 1, Do: r.createLate(c)})
		}
	}
	states := r.taskStates()
	var ids []string
	for id := range states {
		ids = append(ids, id)
	}
	sort.Strings(ids)
	for _, id := range ids {
		id := id
		st := states[id]
		if st.State == meta.TaskStateRunning && r.pausesLeft > 0 {
			out = append(out, sched.Action{Label: "pause:" + id, Cost: 1, Do: func() {
				r.pausesLeft--
				r.paused[id] = true
				r.resumeBusy = true
				inc := r.cur
				r.ev(fsEvent{Inc: inc.n, Kind: "pause", Key: id})
				go func() {
					_, err := inc.cdc.Pause(&request.PauseRequest{TaskID: id})
					if err != nil {
						r.apiErrs = append(r.apiErrs, fmt.Sprintf("pause %s: %v", id, err))
					}
					r.resumeBusy = false
				}()
			}})
		}
	}
	return out
}

// createLate: the collection appears in the source catalog and the catalog watcher of the current incarnation
// announces it to the subscribed tasks
func (r *fsRun) createLate(c *fsColl) func() {
	return func() {
		r.created[c.ID] = true
		inc := r.cur
		r.ev(fsEvent{Inc: inc.n, Kind: "create-upstream", Key: c.Name})
		for _, mo := range inc.metaOps {
			mo := mo
			go mo.announce(c.info())
		}
	}
}

func (r *fsRun) teardown() {
	for _, inc := range r.incs {
		for _, c := range inc.cancels {
			c()
		}
		inc.mq.Close()
		for _, f := range inc.release {
			f()
		}
	}
	util.SetVerifPointFunc(func(name, key string) {})
}

// fsNeedsP1: the message names partition "p1" (which the downstream of an UnknownPart collection never gets)
func fsNeedsP1(kind string) bool { return kind == "insPart" || kind == "impPart" }
