package meta

// C17 (concurrency): the shards of a collection report their pending drop from different goroutines (one stream handler
// per shard calls UpdateTaskDrop*Msg from its barrier). 2-3 concurrent reports for ONE (task, message), plus a
// concurrent removal in one scenario, through the real ReplicateMeteImpl; the store's Get / Put / Remove are
// scheduling points whenever the implementation's lock is NOT held at that moment (white-box TryLock: a goroutine
// parked while holding a sync mutex would block the others outside the scheduler's sight). On the unchanged tree every
// store call is made under the lock, so every report is one atomic step and the schedules are the arrival orders; a
// change that releases the lock around the store round trip opens the read-union-write-publish window, which is then
// explored.

import (
	"context"
	"encoding/json"
	"fmt"
	"os"
	"sync"
	"testing"
	"time"

	"go.uber.org/zap"

	"github.com/zilliztech/milvus-cdc/core/api"
	"github.com/zilliztech/milvus-cdc/core/log"
	"github.com/zilliztech/milvus-cdc/core/verifkit/ev"
	"github.com/zilliztech/milvus-cdc/core/verifkit/sched"
)

type c17GateStore struct {
	mu    sync.Mutex
	inner *c17Store
	impl  **ReplicateMeteImpl
	ctl   *sched.Ctl
	who   func() string
}

func (s *c17GateStore) point(op string) {
	if m := *s.impl; m != nil && m.metaLock.TryLock() {
		m.metaLock.Unlock()
		s.ctl.Point("store:"+s.who(), op, false)
	}
}
func (s *c17GateStore) Get(ctx context.Context, key string, withPrefix bool) ([]api.MetaMsg, error) {
	s.point("get")
	s.mu.Lock()
	defer s.mu.Unlock()
	return s.inner.Get(ctx, key, withPrefix)
}
func (s *c17GateStore) Put(ctx context.Context, key string, value api.MetaMsg) error {
	s.point("put")
	s.mu.Lock()
	defer s.mu.Unlock()
	return s.inner.Put(ctx, key, value)
}
func (s *c17GateStore) Remove(ctx context.Context, key string) error {
	s.point("remove")
	s.mu.Lock()
	defer s.mu.Unlock()
	return s.inner.Remove(ctx, key)
}

func c17SchedScenario(nRep int, msg int, withRemove bool) *sched.Scenario {
	name := fmt.Sprintf("reports=%d,msg=%d,remove=%v", nRep, msg, withRemove)
	return &sched.Scenario{Name: name, Run: func(t *testing.T, ctl *sched.Ctl) sched.Outcome {
		ctx := context.Background()
		inner := &c17Store{kv: map[string]string{}}
		var impl *ReplicateMeteImpl
		var cur sync.Map // goroutine id -> role
		gs := &c17GateStore{inner: inner, impl: &impl, ctl: ctl, who: func() string {
			if v, ok := cur.Load(sched.Goid()); ok {
				return v.(string)
			}
			return "?"
		}}
		m, err := NewReplicateMetaImpl(gs)
		if err != nil {
			return sched.Outcome{Violations: []sched.Violation{{Sig: "C17/sched/new", Detail: err.Error()}}}
		}
		impl = m
		targets := c17Targets(10 + nRep) // (listing order that is not lexicographic)
		if nRep == 2 {
			targets = c17Targets(12)
		}
		task, id := c17Tasks[0], c17MsgID(msg)
		type rep struct {
			ready, done bool
			err         error
			order       int
		}
		reps := make([]*rep, nRep)
		seq := 0
		removedAt := -1
		removeDone := !withRemove
		for i := 0; i < nRep; i++ {
			i := i
			reps[i] = &rep{}
			go func() {
				role := fmt.Sprintf("rep%d", i)
				cur.Store(sched.Goid(), role)
				ctl.Point(role, "start", true)
				base := api.BaseTaskMsg{TaskID: task, MsgID: id, TargetChannels: append([]string{}, targets...), ReadyChannels: []string{targets[i]}}
				r := reps[i]
				if msg == 0 {
					r.ready, r.err = impl.UpdateTaskDropCollectionMsg(ctx, api.TaskDropCollectionMsg{Base: base, DatabaseName: "db", CollectionName: "c", DropTS: 100})
				} else {
					r.ready, r.err = impl.UpdateTaskDropPartitionMsg(ctx, api.TaskDropPartitionMsg{Base: base, DatabaseName: "db", CollectionName: "c", PartitionName: "p", DropTS: 100})
				}
				seq++
				r.order, r.done = seq, true
			}()
		}
		if withRemove {
			go func() {
				cur.Store(sched.Goid(), "remover")
				ctl.Point("remover", "start", true)
				_ = impl.RemoveTaskMsg(ctx, task, id)
				seq++
				removedAt, removeDone = seq, true
			}()
		}
		ctl.Loop(func() bool {
			for _, r := range reps {
				if !r.done {
					return false
				}
			}
			return removeDone
		})
		var out sched.Outcome
		add := func(sig, f string, a ...interface{}) {
			out.Violations = append(out.Violations, sched.Violation{Sig: "C17/sched/" + sig, Detail: fmt.Sprintf(f, a...)})
		}
		// the reports that count: those that returned after the removal (a removal in the middle starts the set afresh)
		want := map[string]bool{}
		readyCount := 0
		for i, r := range reps {
			if !r.done {
				add("stuck", "report %d never returned", i)
				continue
			}
			if r.err != nil {
				add("error", "report %d: %v", i, r.err)
			}
			if r.order > removedAt {
				want[targets[i]] = true
			}
			if r.ready {
				readyCount++
			}
		}
		k := task + "/" + id
		kind := map[int]string{0: "C:", 1: "P:"}[msg]
		wantFlat := ""
		if len(want) > 0 {
			wantFlat = c17Flat(map[string]string{k: kind + c17Set(c17Keys(want))})
		}
		mem, st := c17Flat(c17Mem(impl)), c17Flat(c17StoreDump(inner))
		if !withRemove {
			if mem != wantFlat {
				add("memory-union", "memory {%s}, union of the reports {%s}", mem, wantFlat)
			}
			if st != wantFlat {
				add("store-union", "store {%s}, union of the reports {%s}", st, wantFlat)
			}
			if readyCount != 1 {
				add("ready-answer", "%d of %d reports were told 'ready' although together they cover the target set exactly once (want exactly one)", readyCount, nRep)
			}
		} else if mem != st {
			// with a concurrent removal several linearizations are legal; memory and store must still agree
			add("memory-store", "memory {%s} and store {%s} differ after concurrent reports and a removal", mem, st)
		}
		if n, err := NewReplicateMetaImpl(inner); err != nil {
			add("reload", "%v", err)
		} else if a := c17Flat(c17Mem(n)); a != st {
			add("reload-differs", "reload gives {%s}, the store holds {%s}", a, st)
		}
		out.Summary = fmt.Sprintf("%s ready=%d mem={%s}", name, readyCount, mem)
		out.Nontrivial = true
		return out
	}}
}

func TestVerifC17Sched(t *testing.T) {
	res := ev.New("C17", "sched")
	defer res.Write()
	log.Info("warm up the logger outside the bubble")
	if os.Getenv("VERIF_LOG") == "" {
		log.VerifSwapLogger(zap.NewNop())
	}
	sched.StartWatchdog(60 * time.Second)
	bound := 2
	if ev.Thorough() {
		bound = 3
	}
	var scs []*sched.Scenario
	for _, msg := range []int{0, 1} {
		scs = append(scs, c17SchedScenario(2, msg, false), c17SchedScenario(3, msg, false), c17SchedScenario(2, msg, true))
	}
	e := sched.NewExplorer(t, bound)
	e.Shard, e.NShard = ev.Shard()
	e.Deadline = time.Now().Add(ev.Budget(120 * time.Second))
	if p := os.Getenv("VERIF_REPLAY"); p != "" {
		var f struct {
			Replay sched.Found `json:"replay"`
		}
		b, _ := os.ReadFile(p)
		if err := json.Unmarshal(b, &f); err != nil {
			t.Fatal(err)
		}
		for _, sc := range scs {
			if sc.Name == f.Replay.Scenario {
				if r, ok := e.ReplayOnce(sc, f.Replay.Choices); ok {
					for _, v := range r.Violations {
						fmt.Println("REPLAY-VIOLATION", v.Sig, v.Detail)
						res.Violate(v.Sig, v.Detail, f.Replay)
					}
					if len(r.Violations) == 0 {
						fmt.Println("REPLAY-OK", r.Summary)
					}
				} else {
					fmt.Println("REPLAY-DIVERGED")
				}
			}
		}
		return
	}
	for _, sc := range scs {
		e.Explore(sc)
	}
	res.Evaluations += e.Stats.Executions
	res.States += e.Stats.Executions
	res.Transitions += e.Stats.Executions
	res.Traces += e.Stats.Executions
	res.Nontrivial += int64(len(e.Stats.Nontrivial))
	res.Exhaustive = res.Exhaustive && e.Stats.Exhaustive
	res.Bounds["deviation_bound"] = e.Bound
	res.Bounds["max_depth"] = e.Stats.MaxDepth
	res.Extra["executions_by_deviations"] = fmt.Sprint(e.Stats.ByCost)
	res.Extra["executions_per_scenario"] = fmt.Sprint(e.Stats.PerScenario)
	for k, v := range e.Stats.Outcomes {
		res.Outcomes[k] += v
	}
	for _, f := range e.Found {
		res.Violate(f.Sig, fmt.Sprintf("scenario %s choices %v (reproduced %d/5)\nschedule: %v\n%s", f.Scenario, f.Choices, f.Reproduced, fmt.Sprint(f.Trace), f.Detail), f)
	}
	res.Rule = "sched engine: 2 and 3 concurrent shard reports for one (task, message) - drop collection and drop partition - and 2 reports racing a removal, through the real ReplicateMeteImpl over a JSON-serialising store; scheduling points = start of every caller (free) and every store Get / Put / Remove made while the implementation's lock is not held (white-box TryLock); all schedules within the deviation bound; oracle: memory = store = union of the reports, exactly one report is told 'ready' when together they cover the target set, reload reproduces the store; with a removal: memory = store = reload"
}
